"""C14 generators: operations (targets and history elements) for harness/c14_worker.py.

Every generator takes the run's `random.Random` and returns an op dict (see c14_worker.OPS) plus a tag
naming the branch of the modelled code it aims at (for the histogram in the evidence).
"""
from __future__ import annotations

import random

HDR18 = '<ir_version: 8, opset_import: ["" : 18]>\n'


def ints(xs) -> str:
    return "{" + ",".join(str(int(x)) for x in xs) + "}"


# --------------------------------------------------------------------------- models hitting the stashing rules


def m_reshape_reshape(rng: random.Random):
    """ReshapeReshape.check: every return site (not-constant / allowzero early success / 0 and -1 / two 0 / success)."""
    a, b, c = rng.choice([(2, 3, 4), (4, 3, 2), (2, 6, 2), (3, 4, 2), (1, 6, 4)])
    n = a * b * c
    variant = rng.choice(["ok", "ok", "ok0", "zero_neg", "two_zero", "allowzero", "dynamic", "neg"])
    first = rng.choice([[n], [a * b, c], [a, b * c]])
    az = ""
    if variant == "ok":
        second = rng.choice([[a, b * c], [a * b, c], [c, a * b], [n]])
    elif variant == "ok0":
        second = [0] if len(first) == 1 else [0, first[1]]  # a single 0 -> replaced by -1
    elif variant == "neg":
        second = [a, -1]
    elif variant == "zero_neg":
        second = [0, -1]
    elif variant == "two_zero":
        first = [a * b, c]
        second = [0, 0]
    elif variant == "allowzero":
        second = [0, n] if rng.random() < 0.5 else [a, b * c]
        az = "<allowzero = 1>"
        if 0 in second:
            # data with a zero dim so that allowzero=1 with an explicit 0 is meaningful
            text = (
                HDR18
                + f"agraph (float[0,{n}] x) => (float[0,{n}] y)\n"
                + f"<int64[2] s1 = {ints([0, n])}, int64[2] s2 = {ints(second)}>\n"
                + "{\n  t = Reshape <allowzero = 1> (x, s1)\n  y = Reshape <allowzero = 1> (t, s2)\n}\n"
            )
            return text, "reshape_reshape:allowzero0"
    else:
        second = [a, b * c]
    if variant == "dynamic":
        text = (
            HDR18
            + f"agraph (float[{a},{b},{c}] x, int64[2] s2) => (float[?,?] y)\n"
            + f"<int64[{len(first)}] s1 = {ints(first)}>\n"
            + "{\n  t = Reshape (x, s1)\n  y = Reshape (t, s2)\n}\n"
        )
        return text, "reshape_reshape:dynamic"
    # declare the output shape only sometimes (the rule patches positive dims from it)
    if rng.random() < 0.5 and all(d > 0 for d in second):
        oshape = ",".join(map(str, second))
    else:
        oshape = ",".join("?" for _ in second)
    text = (
        HDR18
        + f"agraph (float[{a},{b},{c}] x) => (float[{oshape}] y)\n"
        + f"<int64[{len(first)}] s1 = {ints(first)}, int64[{len(second)}] s2 = {ints(second)}>\n"
        + "{\n  t = Reshape (x, s1)\n  y = Reshape " + az + " (t, s2)\n}\n"
    )
    return text, f"reshape_reshape:{variant}"


def m_flatten(rng: random.Random):
    shape = rng.choice([(2, 3, 4), (3, 4), (2, 3, 4, 5), (5,), (2, 1, 3)])
    axis = rng.choice(list(range(-len(shape), len(shape) + 1)))
    known = rng.random() < 0.7
    sym = rng.random() < 0.3
    if known:
        dims = [str(d) for d in shape]
        if sym:
            dims[rng.randrange(len(dims))] = "N"
        ish = ",".join(dims)
        xin = f"float[{ish}] x"
    else:
        xin = "float x"
    text = HDR18 + f"agraph ({xin}) => (float[?,?] y)\n{{\n  y = Flatten <axis = {axis}> (x)\n}}\n"
    return text, f"flatten:{'known' if known else 'unknown'}{':sym' if known and sym else ''}"


def m_conv_pad(rng: random.Random):
    """_FuseConvPadBase.check: shape unknown / mode / non-constant pads / constant_value / axes / non-spatial / negative / ok."""
    variant = rng.choice(["ok", "ok", "ok_axes", "nonspatial", "negative", "reflect", "dynpads", "cv1", "autopad", "noshape"])
    integer = rng.random() < 0.25
    h, w = rng.choice([(5, 5), (6, 4), (7, 7)])
    p = [rng.randint(0, 2) for _ in range(4)]
    pads = [0, 0, p[0], p[1], 0, 0, p[2], p[3]]
    extra_init = ""
    pad_in = "x, pads"
    mode = ""
    if variant == "nonspatial":
        pads[rng.choice([0, 1, 4, 5])] = 1
    elif variant == "negative":
        pads[2] = -1
    elif variant == "reflect":
        mode = '<mode = "reflect">'
    elif variant == "cv1":
        extra_init = ", float cv = {1}" if not integer else ", uint8 cv = {1}"
        pad_in = "x, pads, cv"
    elif variant == "ok_axes":
        pads = [p[0], p[1], p[2], p[3]]
        extra_init = (", float cv = {0}" if not integer else ", uint8 cv = {0}") + ", int64[2] axes = {2, -1}"
        pad_in = "x, pads, cv, axes"
    conv_attr = '<auto_pad = "SAME_UPPER">' if variant == "autopad" else ""
    ty = "uint8" if integer else "float"
    xdecl = f"{ty}[1,1,{h},{w}] x" if variant != "noshape" else f"{ty} x"
    conv = "ConvInteger" if integer else "Conv"
    oty = "int32" if integer else "float"
    if variant == "dynpads":
        sig = f"agraph ({xdecl}, int64[8] pads) => ({oty}[?,?,?,?] y)\n<{ty}[1,1,3,3] w = {ints([1] * 9)}>\n"
    else:
        sig = (
            f"agraph ({xdecl}) => ({oty}[?,?,?,?] y)\n"
            + f"<{ty}[1,1,3,3] w = {ints([1] * 9)}, int64[{len(pads)}] pads = {ints(pads)}{extra_init}>\n"
        )
    text = HDR18 + sig + "{\n  t = Pad " + mode + f" ({pad_in})\n  y = {conv} {conv_attr} (t, w)\n}}\n"
    return text, f"conv_pad:{variant}{':int' if integer else ''}"


def m_materialize(rng: random.Random):
    """MaterializeReshapeShape.check: constant shape / unknown output shape / <=1 symbolic / >1 symbolic."""
    variant = rng.choice(["static", "one_sym", "two_sym", "unknown", "const_shape"])
    a, b = rng.choice([(2, 6), (3, 4), (4, 3), (6, 2)])
    if variant == "static":
        osh = f"{a},{b}"
    elif variant == "one_sym":
        osh = f"N,{b}"
    elif variant == "two_sym":
        osh = "N,M"
    else:
        osh = None
    vi = f"<float[{osh}] t>\n" if osh else ""
    if variant == "const_shape":
        text = (
            HDR18
            + f"agraph (float[{a * b}] x) => (float[?,?] y)\n<int64[2] s = {ints([a, b])}>\n"
            + "{\n  t = Reshape (x, s)\n  y = Abs (t)\n}\n"
        )
    else:
        text = (
            HDR18
            + f"agraph (float[{a * b}] x, int64[2] s) => (float[?,?] y)\n"
            + vi
            + "{\n  t = Reshape (x, s)\n  y = Abs (t)\n}\n"
        )
    return text, f"materialize:{variant}"


def m_layer_norm(rng: random.Random):
    ty = rng.choice(["float", "float", "double", "float16"])
    eps_const = rng.random() < 0.8
    eps = rng.choice(["1e-05", "1e-06", "0.001"])
    mulpow = rng.random() < 0.5
    divmul = rng.random() < 0.5
    d = rng.choice([4, 8])
    sq = "dd = Mul (d, d)" if mulpow else f"dd = Pow (d, two)"
    norm = "nrm = Div (d, sd)" if divmul else "inv = Reciprocal (sd)\n  nrm = Mul (d, inv)"
    eps_decl = f", {ty} eps = {{{eps}}}" if eps_const else ""
    eps_in = "" if eps_const else f", {ty} eps"
    text = (
        '<ir_version: 8, opset_import: ["" : 18]>\n'
        + f"agraph ({ty}[2,{d}] x, {ty}[{d}] scale{eps_in}) => ({ty}[2,{d}] y)\n"
        + f"<int64[1] ax = {{-1}}, {ty} two = {{2}}{eps_decl}>\n"
        + "{\n  m = ReduceMean <keepdims = 1> (x, ax)\n  d = Sub (x, m)\n  "
        + sq
        + "\n  v = ReduceMean <keepdims = 1> (dd, ax)\n  ve = Add (v, eps)\n  sd = Sqrt (ve)\n  "
        + norm
        + "\n  y = Mul (nrm, scale)\n}\n"
    )
    return text, f"layer_norm:{ty}:{'eps' if eps_const else 'dyneps'}"


def m_rms_norm(rng: random.Random):
    ty = rng.choice(["float", "float", "double", "float16"])
    eps = rng.choice(["1e-05", "1e-06"])
    order = rng.random() < 0.5
    cast = rng.random() < 0.4 and ty == "float16"
    d = rng.choice([4, 8])
    pre = "xc = Cast <to = 1> (x)\n  " if cast else ""
    xin = "xc" if cast else "x"
    cty = "float" if cast else ty
    post = f"nc = Cast <to = 10> (n)\n  " if cast else ""
    nn = "nc" if cast else "n"
    last = f"y = Mul ({nn}, scale)" if order else f"y = Mul (scale, {nn})"
    text = (
        '<ir_version: 8, opset_import: ["" : 18]>\n'
        + f"agraph ({ty}[2,{d}] x, {ty}[{d}] scale) => ({ty}[2,{d}] y)\n"
        + f"<int64[1] ax = {{-1}}, {cty} two = {{2}}, {cty} eps = {{{eps}}}>\n"
        + "{\n  "
        + pre
        + f"sq = Pow ({xin}, two)\n  ms = ReduceMean <keepdims = 1, noop_with_empty_axes = 0> (sq, ax)\n  "
        + "mse = Add (ms, eps)\n  r = Sqrt (mse)\n  rr = Reciprocal (r)\n  "
        + f"n = Mul ({xin}, rr)\n  "
        + post
        + last
        + "\n}\n"
    )
    return text, f"rms_norm:{ty}{':cast' if cast else ''}"


def m_misc(rng: random.Random):
    """Rules without a stash + foldable constants: variety for optimize()."""
    k = rng.choice(["castcast", "transpose", "clip", "fold_add", "fold_shape", "unsq", "minmax", "softsign", "identity_chain", "sym_shape"])
    if k == "castcast":
        t = rng.choice([(1, 11), (11, 1), (1, 1), (7, 1)])
        text = HDR18 + f"agraph (float[3] x) => (float[3] y)\n{{\n  a = Cast <to = {t[0]}> (x)\n  b = Cast <to = {t[1]}> (a)\n  y = Cast <to = 1> (b)\n}}\n"
    elif k == "transpose":
        p1, p2 = rng.choice([([1, 0, 2], [1, 0, 2]), ([2, 0, 1], [1, 2, 0]), ([0, 2, 1], [2, 1, 0])])
        text = HDR18 + f"agraph (float[2,3,4] x) => (float[?,?,?] y)\n{{\n  a = Transpose <perm = {p1}> (x)\n  y = Transpose <perm = {p2}> (a)\n}}\n"
    elif k == "clip":
        lo, hi = sorted([rng.randint(-3, 3), rng.randint(-3, 3)])
        text = (
            HDR18
            + f"agraph (float[4] x) => (float[4] y)\n<float lo = {{{lo}}}, float hi = {{{hi}}}>\n"
            + "{\n  a = Clip (x, lo, hi)\n  y = Relu (a)\n}\n"
        )
    elif k == "fold_add":
        a, b = rng.randint(1, 9), rng.randint(1, 9)
        text = (
            HDR18
            + f"agraph (float[2] x) => (float[2] y)\n<float[2] c1 = {{{a},{b}}}, float[2] c2 = {{{b},{a}}}>\n"
            + "{\n  c = Add (c1, c2)\n  d = Mul (c, c1)\n  y = Add (x, d)\n}\n"
        )
    elif k == "fold_shape":
        n = rng.choice([2, 3, 5])
        text = (
            HDR18
            + f"agraph (float[{n},4] x) => (int64[1] y)\n<int64 zero = {{0}}>\n"
            + "{\n  s = Shape (x)\n  g = Gather (s, zero)\n  u = Unsqueeze (g, zero1)\n  y = Identity (u)\n}\n".replace(
                "zero1", "zz"
            )
        ).replace("<int64 zero = {0}>", "<int64 zero = {0}, int64[1] zz = {0}>")
    elif k == "unsq":
        a1, a2 = rng.choice([(0, 1), (1, 0), (0, 2), (2, 2)])
        text = (
            HDR18
            + f"agraph (float[3] x) => (float[?,?,?] y)\n<int64[1] a1 = {{{a1}}}, int64[1] a2 = {{{a2}}}>\n"
            + "{\n  a = Unsqueeze (x, a1)\n  y = Unsqueeze (a, a2)\n}\n"
        )
    elif k == "minmax":
        lo, hi = rng.randint(-2, 0), rng.randint(1, 3)
        text = (
            HDR18
            + f"agraph (float[4] x) => (float[4] y)\n<float lo = {{{lo}}}, float hi = {{{hi}}}>\n"
            + "{\n  a = Max (x, lo)\n  y = Min (a, hi)\n}\n"
        )
    elif k == "sym_shape":
        d = rng.choice(["N", "B", "S"])
        text = HDR18 + f"agraph (float[{d},4] x) => (int64[2] y)\n{{\n  s = Shape (x)\n  y = Identity (s)\n}}\n"
    elif k == "softsign":
        text = HDR18 + "agraph (float[4] x) => (float[4] y)\n{\n  a = Abs (x)\n  y = Softsign (a)\n}\n"
    else:
        text = HDR18 + "agraph (float[4] x) => (float[4] y)\n{\n  a = Identity (x)\n  b = Identity (a)\n  y = Neg (b)\n}\n"
    return text, f"misc:{k}"


def m_boom(rng: random.Random):
    """A model on which the default singletons stash (Reshape∘Reshape failing half-way, Conv(Pad) rejected after the
    write) and then our raising rule aborts the operation."""
    a = rng.choice([2, 3])
    text = (
        HDR18
        + f"agraph (float[{a},4] x, float[1,1,5,5] im) => (float[?,?] y, float[?,?,?,?] z)\n"
        + f"<int64[1] s1 = {{{a * 4}}}, int64[2] s2 = {{0, -1}}, float[1,1,3,3] w = {ints([1] * 9)}, "
        + "int64[8] pads = {0,1,1,1,0,0,1,1}>\n"
        + "{\n  t = Reshape (x, s1)\n  u = Reshape (t, s2)\n  p = Pad (im, pads)\n  z = Conv (p, w)\n  y = Softsign (u)\n}\n"
    )
    return text, "boom"


def m_convert(rng: random.Random):
    """version conversion sources at opset 18: ops whose adapters exist / do not exist."""
    k = rng.choice(["reshape", "resize", "softmax_like", "gelu_free", "split"])
    if k == "reshape":
        text = HDR18 + "agraph (float[2,6] x) => (float[?,?] y)\n<int64[2] s = {3,4}>\n{\n  y = Reshape (x, s)\n}\n"
    elif k == "resize":
        text = (
            HDR18
            + "agraph (float[1,1,2,2] x) => (float[?,?,?,?] y)\n<float[4] sc = {1,1,2,2}>\n"
            + '{\n  y = Resize <mode = "nearest"> (x, , sc)\n}\n'
        )
    elif k == "softmax_like":
        text = HDR18 + "agraph (float[2,3] x) => (float[2,3] y)\n{\n  a = Softmax <axis = -1> (x)\n  y = LogSoftmax <axis = 1> (a)\n}\n"
    elif k == "split":
        text = HDR18 + "agraph (float[4,2] x) => (float[?,?] a, float[?,?] b)\n{\n  a, b = Split <axis = 0, num_outputs = 2> (x)\n}\n"
    else:
        text = HDR18 + "agraph (float[2,3] x) => (float[2,3] y)\n{\n  a = Relu (x)\n  y = Neg (a)\n}\n"
    return text, f"convert:{k}"


DOMAIN_POOL = ["com.microsoft", "custom.ext", "third.dom", "a.b", "zz.top", "pkg.onnxscript.x", "ai.onnx.contrib", "q"]


def m_multi_domain(rng: random.Random):
    """Softsign replaced by a chain of ops from k NEW domains; some of them may already be imported by the model."""
    k = rng.randint(1, 4)
    doms = rng.sample(DOMAIN_POOL, k)
    pre = [d for d in doms if rng.random() < 0.2]
    imports = '"" : 18' + "".join(f', "{d}" : 1' for d in pre)
    text = f"<ir_version: 8, opset_import: [{imports}]>\nagraph (float[4] x) => (float[4] y)\n{{\n  a = Abs (x)\n  y = Softsign (a)\n}}\n"
    return {"k": "model", "op": "rewrite", "rules": "multi_domain", "domains": doms, "preimported": pre, "model": text}, f"rewrite:multi_domain:{k - len(pre)}new"


def m_as_function(rng: random.Random):
    """matched nodes from three custom domains extracted into a function (as_function=True)"""
    order = ["custom.a", "custom.b", "custom.c", "custom.f"]
    rng.shuffle(order)
    imports = '"" : 18' + "".join(f', "{d}" : {rng.randint(1, 3)}' for d in order)
    text = (
        f"<ir_version: 8, opset_import: [{imports}]>\nagraph (float[4] x) => (float[4] y)\n{{\n"
        "  t = custom.b.B (x)\n  u = custom.c.C (t)\n  v = custom.a.A (u)\n  y = Neg (v)\n}\n"
    )
    return {"k": "model", "op": "rewrite", "rules": "as_function", "model": text}, "rewrite:as_function:3domains"


def m_version_sensitive(rng: random.Random):
    """the same op folded at an opset where its signature differs (axes attribute up to 12, axes input from 13)"""
    opset = rng.choice([11, 13])
    opname = rng.choice(["Squeeze", "Unsqueeze", "ReduceSum"])
    if opname == "Squeeze":
        cshape, cvals, axes = "1,3", "1,2,3", [0]
    elif opname == "Unsqueeze":
        cshape, cvals, axes = "3", "1,2,3", [rng.choice([0, 1])]
    else:
        cshape, cvals, axes = "2,2", "1,2,3,4", [rng.choice([0, 1])]
    hdr = f'<ir_version: 7, opset_import: ["" : {opset}]>\n'
    extra = "<keepdims = 0>" if opname == "ReduceSum" and opset == 13 else ""
    if opset == 11:
        attr = f"<axes = {axes}" + (", keepdims = 0>" if opname == "ReduceSum" else ">")
        body = f"  c = {opname} {attr} (k)\n"
        init = f"<float[{cshape}] k = {{{cvals}}}>"
    else:
        body = f"  c = {opname} {extra} (k, ax)\n"
        init = f"<float[{cshape}] k = {{{cvals}}}, int64[1] ax = {{{axes[0]}}}>"
    text = hdr + f"agraph (float[3] x) => (float[?] y)\n{init}\n{{\n{body}  f = Flatten <axis = 0> (c)\n  r = ReduceMax <keepdims = 0> (f)\n  y = Mul (x, r)\n}}\n"
    return {"k": "model", "op": rng.choice(["fold", "optimize", "optimize"]), "model": text}, f"fold:version_sensitive:{opname}@{opset}"


EVAL_GAP_OPS = ("Softmax", "LogSoftmax", "Hardmax")


def m_evaluator_version(rng: random.Random, opset: int | None = None, opname: str | None = None):
    """Constant-input nodes for which the folder's evaluator lookup answers differently at different opset versions:
    `ReferenceEvaluator.get_evaluator` returns None for the Softmax family below opset 13 (coerce-to-2D semantics) and an
    implementation from 13 on; boundary versions 12/13 are drawn deliberately, and unknown / custom-domain ops (load_op
    fails at every version) ride along so that "no evaluator" answers for other keys are in the same histories."""
    opset = opset or rng.choice([1, 11, 12, 12, 13, 13, 14, 18])
    opname = opname or rng.choice(EVAL_GAP_OPS)
    axis = rng.choice([None, 0, 1, -1])
    attr = "" if axis is None else f"<axis = {axis}>"
    hdr = f'<ir_version: 8, opset_import: ["" : {opset}, "custom.eval" : 1]>\n'
    extra = ""
    if rng.random() < 0.4:  # an op no evaluator exists for (custom domain), also on constant inputs
        extra = "  u = custom.eval.Mystery (k)\n  x2 = Add (x, u)\n"
    src = "x2" if extra else "x"
    text = hdr + (f"agraph (float[2,3] x) => (float[2,3] y)\n<float[2,3] k = {{1,2,3,4,5,6}}>\n{{\n{extra}  c = {opname} {attr} (k)\n"
                  f"  y = Mul ({src}, c)\n}}\n")
    return ({"k": "model", "op": rng.choice(["fold", "optimize", "optimize"]), "model": text, "watch_op": opname, "watch_opset": opset},
            f"fold:evaluator_version:{opname}@{opset}")


def gen_script_castable(rng: random.Random, name: str):
    """an identifier that is a script-time constant in one script and a tensor parameter in another"""
    ident = rng.choice(["const", "k", "int64_1", "scale", "const_0"])
    if rng.random() < 0.5:
        # the identifier is a constant (castable literal)
        if ident in ("const", "const_0"):
            src = f"@DEC\ndef {name}(x: FLOAT[3]):\n    y = x + 1.0\n    z = y * 2.0\n    return z\n"
        elif ident == "int64_1":
            src = f"@DEC\ndef {name}(x: INT64[3]):\n    return op.Gather(x, 1)\n"
        else:
            src = f"@DEC\ndef {name}(x: FLOAT[3]):\n    {ident} = 2.0\n    return x * {ident}\n"
        return {"k": "script", "name": name, "src": src}, "script:castable:as_constant"
    ty = rng.choice(["INT64", "DOUBLE", "FLOAT"])
    src = f"@DEC\ndef {name}({ident}: {ty}[3], x: FLOAT[3]):\n    return op.Add(x, {ident})\n"
    if rng.random() < 0.5:
        src = f"@DEC\ndef {name}({ident}: {ty}[3], x: FLOAT[3]):\n    return x * {ident}\n"
    return {"k": "script", "name": name, "src": src}, "script:castable:as_tensor"


def m_adapter(rng: random.Random):
    """models whose conversion runs a value-creating adapter (DFT 19->20, GridSample 19->20, GroupNormalization 20->21),
    optionally with values already called val_<n>"""
    k = rng.choice(["dft", "dft", "gridsample", "groupnorm", "plain19"])
    named = rng.random() < 0.4
    v = (lambda i: f"val_{i}") if named else (lambda i: f"t{i}")
    if k == "dft":
        axis = rng.choice([1, 2])
        text = (f'<ir_version: 9, opset_import: ["" : 19]>\nagraph (float[1,4,4,1] x) => (float[?,?,?,?] y)\n{{\n  {v(0)} = Identity (x)\n'
                f'  {v(1)} = DFT <axis = {axis}> ({v(0)})\n  y = Identity ({v(1)})\n}}\n')
        tgt = rng.choice([20, 20, 21])
    elif k == "gridsample":
        mode = rng.choice(["bilinear", "bicubic", "nearest"])
        text = (f'<ir_version: 9, opset_import: ["" : 19]>\nagraph (float[1,1,2,2] x, float[1,2,2,2] g) => (float[?,?,?,?] y)\n{{\n'
                f'  {v(0)} = GridSample <mode = "{mode}"> (x, g)\n  y = Relu ({v(0)})\n}}\n')
        tgt = 20
    elif k == "groupnorm":
        text = (f'<ir_version: 9, opset_import: ["" : 20]>\nagraph (float[1,4,2,2] x) => (float[?,?,?,?] y)\n<float[2] sc = {{1,2}}, float[2] bi = {{0,1}}>\n{{\n'
                f'  {v(0)} = GroupNormalization <num_groups = 2> (x, sc, bi)\n  y = Relu ({v(0)})\n}}\n')
        tgt = 21
    else:
        text = f'<ir_version: 9, opset_import: ["" : 19]>\nagraph (float[3] x) => (float[3] y)\n{{\n  {v(3)} = Relu (x)\n  y = Neg ({v(3)})\n}}\n'
        tgt = rng.choice([20, 21])
    kind = rng.choice(["convert_pass", "convert_pass", "convert"])
    return {"k": "model", "op": kind, "target": tgt, "model": text}, f"{kind}:adapter:{k}{':named' if named else ''}"


MODEL_GENS = [m_reshape_reshape, m_reshape_reshape, m_flatten, m_conv_pad, m_conv_pad, m_materialize, m_misc]


def gen_model_op(rng: random.Random, allow_fail: bool = True):
    r = rng.random()
    if r < 0.10:
        text, tag = m_layer_norm(rng)
        return {"k": "model", "op": "rewrite", "rules": "layer_norm", "model": text}, "rewrite:" + tag
    if r < 0.14:
        text, tag = m_layer_norm(rng)
        return {"k": "model", "op": "rewrite", "rules": "layer_norm_commute", "model": text}, "rewrite:commute:" + tag
    if r < 0.20:
        text, tag = m_rms_norm(rng)
        return {"k": "model", "op": "rewrite", "rules": "rms_norm", "model": text}, "rewrite:" + tag
    if r < 0.30:
        text, tag = m_convert(rng)
        tgt = rng.choice([19, 20, 21, 22, 23, 17])
        kind = rng.choice(["convert", "convert", "convert_proto"])
        return {"k": "model", "op": kind, "target": tgt, "model": text}, f"{kind}:{tag}"
    if r < 0.315:
        return m_adapter(rng)
    if r < 0.33:
        return m_multi_domain(rng)
    if r < 0.345:
        return m_as_function(rng)
    if r < 0.39:
        return m_version_sensitive(rng)
    if r < 0.43:
        return m_evaluator_version(rng)
    if allow_fail and r < 0.46:
        text, tag = m_boom(rng)
        return {"k": "model", "op": "rewrite", "rules": rng.choice(["default_then_boom", "boom_first"]), "model": text}, "rewrite:boom(fails)"
    if allow_fail and r < 0.49:
        text, tag = m_misc(rng)
        text = text.replace("float[2] c1", "float[2] c1")
        return {"k": "model", "op": "fold", "raise_on": rng.choice(["Add", "Mul", "Cast", "Relu"]), "model": text}, "fold:interrupted?"
    g = rng.choice(MODEL_GENS)
    text, tag = g(rng)
    kind = rng.choice(["optimize", "optimize", "rewrite", "rewrite", "rewrite_pass", "fold", "optimize_proto", "rewrite_proto"])
    if kind == "rewrite_pass":
        return {"k": "model", "op": "rewrite", "rules": "default_pass", "model": text}, "rewrite_pass:" + tag
    return {"k": "model", "op": kind, "model": text}, f"{kind}:{tag}"


# --------------------------------------------------------------------------- scripts

VARS = ["a", "b", "c", "d", "e", "tmp", "y", "z", "acc", "k1", "k2", "v_0", "a_1", "cond", "t"]


def gen_script_if(rng: random.Random, name: str):
    """If/Loop with several live outputs (what the sorted(set) sites order), names that collide with generated ones."""
    nv = rng.randint(2, 5)
    vs = rng.sample(VARS, nv)
    lines = [f"@DEC", f"def {name}(x: FLOAT[4], flag: BOOL):"]
    pre = [v for v in vs if rng.random() < 0.5]
    for v in pre:
        lines.append(f"    {v} = op.Add(x, x)")
    shape = rng.choice(["if", "if", "if_nested", "loop", "if_loop"])

    def assigns(ind, mult):
        out = []
        for v in vs:
            if v in pre and rng.random() < 0.3:
                continue
            out.append(" " * ind + f"{v} = op.Mul(x, {mult}.0)" if rng.random() < 0.6 else " " * ind + f"{v} = op.Neg(x)")
        return out or [" " * ind + f"{vs[0]} = op.Neg(x)"]

    if shape == "if":
        lines.append("    if flag:")
        lines += assigns(8, 2)
        lines.append("    else:")
        body = assigns(8, 3)
        # every variable assigned in then must be defined on the else path too
        defined_else = {l.strip().split(" =")[0] for l in body} | set(pre)
        for v in vs:
            if v not in defined_else:
                body.append(f"        {v} = op.Abs(x)")
        lines += body
        # then branch must define all as well
    elif shape == "if_nested":
        lines.append("    if flag:")
        for v in vs:
            lines.append(f"        {v} = op.Mul(x, 2.0)")
        lines.append("        if flag:")
        for v in vs[: max(1, nv - 1)]:
            lines.append(f"            {v} = op.Neg({v})")
        lines.append("        else:")
        for v in vs[: max(1, nv - 1)]:
            lines.append(f"            {v} = op.Abs({v})")
        lines.append("    else:")
        for v in vs:
            lines.append(f"        {v} = op.Abs(x)")
    elif shape == "loop":
        for v in vs:
            if v not in pre:
                lines.append(f"    {v} = op.Identity(x)")
        lines.append("    for i in range(3):")
        for v in vs:
            lines.append(f"        {v} = op.Add({v}, x)")
    else:
        for v in vs:
            if v not in pre:
                lines.append(f"    {v} = op.Identity(x)")
        lines.append("    for i in range(2):")
        lines.append("        if flag:")
        for v in vs:
            lines.append(f"            {v} = op.Add({v}, x)")
        lines.append("        else:")
        for v in vs:
            lines.append(f"            {v} = op.Sub({v}, x)")
    # make sure then-branch defines everything for plain `if`
    if shape == "if":
        # rebuild then-branch completely (simplest way to guarantee definedness)
        i_then = lines.index("    if flag:")
        i_else = lines.index("    else:")
        then = [f"        {v} = op.Mul(x, 2.0)" for v in vs]
        lines[i_then + 1 : i_else] = then
    live = rng.sample(vs, rng.randint(1, nv))
    expr = live[0]
    for v in live[1:]:
        expr = f"op.Add({expr}, {v})"
    lines.append(f"    return {expr}")
    return {"k": "script", "name": name, "src": "\n".join(lines) + "\n", "n_proto": rng.randint(2, 4), "want_ctrl": True}, f"script:{shape}:{nv}vars"


def gen_script_globals(rng: random.Random, name: str):
    """Body = arithmetic over the int64 input and module globals; globals are mutated after decoration."""
    gl = {"K": rng.randint(2, 9), "C": rng.randint(-5, 5), "M": rng.randint(1, 4)}

    def ex(depth):
        r = rng.random()
        if depth <= 0 or r < 0.3:
            return rng.choice(["x", "x", "K", "C", "M"])
        a, b = ex(depth - 1), ex(depth - 1)
        return f"({a} {rng.choice(['+', '*'])} {b})"

    body = ex(3)
    if "x" not in body:
        body = f"(x + {body})"
    if not any(g in body for g in gl):
        body = f"({body} * K)"
    hdr = "".join(f"{k} = {v}\n" for k, v in gl.items())
    src = f"@DEC\ndef {name}(x: INT64[3]):\n    return {body}\n"
    mut = []
    for g in gl:
        if rng.random() < 0.6:
            mut.append([g, rng.randint(10, 20)])
    if not mut:
        mut.append(["K", 11])
    return (
        {
            "k": "script",
            "name": name,
            "src": src,
            "header": hdr,
            "globals": gl,
            "body": body,
            "mutate": mut,
            "eager_x": [rng.randint(-3, 3) for _ in range(3)],
            "n_proto": 2,
            "want_consts": True,
        },
        "script:globals",
    )


def gen_script_ndarray(rng: random.Random, name: str):
    """Globals that are mutable OBJECTS (numpy arrays, a TensorProto) used as tensor constants — via a tensor literal,
    via `op.Constant(value=W)`, inside a loop body — then mutated in place / rebound after decoration."""
    cells = {"W": rng.randint(1, 5), "V": rng.randint(1, 5), "T": rng.randint(1, 5)}
    K = rng.randint(2, 6)
    use_const_attr = rng.random() < 0.4
    in_loop = rng.random() < 0.25

    def ex(depth):
        r = rng.random()
        if depth <= 0 or r < 0.3:
            return rng.choice(["x", "W", "V", "K", "W", "T"])
        a, b = ex(depth - 1), ex(depth - 1)
        return f"({a} {rng.choice(['+', '*'])} {b})"

    body = ex(2)
    if "x" not in body:
        body = f"(x + {body})"
    if not any(g in body for g in ("W", "V", "T")):
        body = f"({body} * W)"
    hdr = (
        f"W = np.full(3, {cells['W']}, dtype=np.int64)\nV = np.full(3, {cells['V']}, dtype=np.int64)\n"
        f"T = onnx.numpy_helper.from_array(np.full(3, {cells['T']}, dtype=np.int64), 'T')\nK = {K}\n"
    )
    src_body = body
    if use_const_attr:
        src_body = src_body.replace("W", "op.Constant(value=W)")
    src_body = src_body.replace("T", "op.Constant(value=T)")
    if in_loop:
        src = f"@DEC\ndef {name}(x: INT64[3]):\n    y = x\n    for i in range(1):\n        y = {src_body}\n    return y\n"
    else:
        src = f"@DEC\ndef {name}(x: INT64[3]):\n    return {src_body}\n"
    mut, later = [], dict(cells)
    inplace_touch = False
    for g in ("W", "V", "T"):
        r = rng.random()
        if r < 0.45:
            if g == "T":
                nv = rng.randint(10, 20)
                mut.append([g, {"tensorproto": [nv] * 3}])
                later[g] = nv
            elif rng.random() < 0.5:
                nv = rng.randint(10, 20)
                mut.append([g, {"ndarray": [nv] * 3, "inplace_nd": True}])
                later[g] = nv
            else:
                mut.append([g, {"ndarray": [2], "inplace_nd": "imul"}])
                later[g] = cells[g] * 2
            inplace_touch = inplace_touch or (g in body)
        elif r < 0.65 and g != "T":
            mut.append([g, {"ndarray": [rng.randint(10, 20)] * 3}])  # rebinding: the old object is untouched
    if rng.random() < 0.5:
        mut.append(["K", rng.randint(10, 20)])
    if not mut:
        mut.append(["W", {"ndarray": [17] * 3, "inplace_nd": True}])
        later["W"] = 17
        inplace_touch = inplace_touch or ("W" in body)
    return (
        {
            "k": "script", "name": name, "src": src, "header": hdr, "rbody": body, "rglobals": {"W": "@0", "V": "@1", "T": "@2", "K": K},
            "cells0": [cells["W"], cells["V"], cells["T"]], "cells1": [later["W"], later["V"], later["T"]],
            "mutate": mut, "eager_x": [rng.randint(-3, 3) for _ in range(3)], "n_proto": 2, "want_consts": True,
            "inplace_payload_in_body": inplace_touch, "in_loop": in_loop,
        },
        "script:ndarray" + (":attr" if use_const_attr else ":literal") + (":loop" if in_loop else ""),
    )


def gen_script_plain(rng: random.Random, name: str):
    k = rng.choice(["arith", "custom_opset", "listglobal", "subfn"])
    if k == "arith":
        c = rng.randint(1, 5)
        src = f"@DEC\ndef {name}(x: FLOAT[3], y: FLOAT[3]):\n    t = x * {c}.0 + y\n    return op.Relu(t - 1.0)\n"
        return {"k": "script", "name": name, "src": src}, "script:arith"
    if k == "custom_opset":
        d, v = rng.choice(["my.dom", "this", "other.dom"]), rng.randint(1, 3)
        hdr = f"from onnxscript.values import Opset\nMYOP = Opset({d!r}, {v})\n"
        src = f"@script(MYOP, default_opset=op)\ndef {name}(x: FLOAT[3]):\n    return op.Abs(x)\n"
        return {"k": "script", "name": name, "src": src, "header": hdr}, "script:custom_opset"
    if k == "listglobal":
        vals = [rng.randint(1, 4) for _ in range(2)]
        hdr = f"SHAPE = {vals}\nARR = np.array({vals}, dtype=np.int64)\n"
        src = f"@DEC\ndef {name}(x: FLOAT[{vals[0] * vals[1]}]):\n    return op.Reshape(x, SHAPE)\n"
        return (
            {
                "k": "script",
                "name": name,
                "src": src,
                "header": hdr,
                "mutate": [["SHAPE", {"inplace": [9, 9, 9]}], ["ARR", {"ndarray": [7, 7]}]],
            },
            "script:listglobal",
        )
    hdr = ""
    src = (
        f"@DEC\ndef {name}_inner(x: FLOAT[3]):\n    return op.Neg(x)\n\n"
    )
    # sub-function call: two decorated functions in one compile unit is not supported by scriptgen's (name, src)
    # contract, so the inner one goes into the header
    hdr = "import harness.c14_worker as _w2\n" + src.replace("@DEC", "@_w2.DEC")
    src2 = f"@DEC\ndef {name}(x: FLOAT[3]):\n    return op.Abs({name}_inner(x))\n"
    return {"k": "script", "name": name, "src": src2, "header": hdr, "mutate": [[f"{name}_inner", 5]]}, "script:subfn"


def gen_script_bad(rng: random.Random, name: str):
    """Scripts the converter refuses (a failing translate in the history)."""
    k = rng.choice(["unbound", "while_true", "kwargs", "no_return_value", "two_opsets"])
    if k == "unbound":
        src = f"@DEC\ndef {name}(x: FLOAT[3]):\n    return op.Add(x, undefined_name)\n"
    elif k == "while_true":
        src = f"@DEC\ndef {name}(x: FLOAT[3]):\n    y = x\n    while True:\n        y = op.Neg(y)\n    return y\n"
    elif k == "kwargs":
        src = f"@DEC\ndef {name}(x: FLOAT[3]):\n    a, b = op.Neg(x)\n    return a\n"
    elif k == "no_return_value":
        src = f"@DEC\ndef {name}(x: FLOAT[3]):\n    y = op.Neg(x)\n    return\n"
    else:
        src = f"@DEC\ndef {name}(x: FLOAT[3]):\n    return opset17.Add(x, opset19.Neg(x))\n"
    return {"k": "script", "name": name, "src": src}, f"script:refused:{k}"


def gen_pattern_op(rng: random.Random, allow_raise: bool = True):
    def body(depth):
        evs = []
        for _ in range(rng.randint(0, 3)):
            r = rng.random()
            if r < 0.5:
                evs.append("s")
            elif r < 0.65 and allow_raise:
                evs.append("r")
            elif depth > 0:
                evs.append([rng.randint(1, 4), body(depth - 1)])
        return evs

    return {"k": "pattern", "b": rng.randint(1, 4), "body": body(2)}, "pattern"


def pattern_line(fixed: int, g: int, op: dict) -> str:
    def enc(evs):
        out = []
        for e in evs:
            if e == "s" or e == "r":
                out.append(e)
            else:
                out.append(f"n{e[0]}(" + enc(e[1]) + ")")
        return ",".join(out)

    return f"builder {fixed} {g} {op['b']} [{enc(op['body'])}]"


KW_KEYS = ["producer_name", "doc_string", "producer_version", "domain", "ir_version", "model_version", "opset_version", "io_types"]


def gen_overrides(rng: random.Random, maxn: int = 3) -> dict:
    out = {}
    for k in rng.sample(KW_KEYS, rng.randint(0, maxn)):
        if k == "ir_version":
            out[k] = rng.choice([7, 8, 9, 10])
        elif k == "opset_version":
            out[k] = rng.choice([17, 18, 19])
        elif k == "io_types":
            out[k] = rng.choice([1, 7, 11])
        else:
            out[k] = rng.randint(1, 9)
    return out


def gen_kwseq(rng: random.Random):
    """functions of one / several decorator objects, a history of to_model_proto(**overrides), a target call"""
    nd = rng.randint(1, 2)
    decos = [{k: v for k, v in gen_overrides(rng, 2).items() if k not in ("io_types", "opset_version")} for _ in range(nd)]
    nf = rng.randint(2, 4)
    fns = [0] + [rng.randrange(nd) for _ in range(nf - 1)]
    calls = [[rng.randrange(nf), gen_overrides(rng)] for _ in range(rng.randint(1, 8))]
    target = [rng.randrange(nf), gen_overrides(rng) if rng.random() < 0.5 else {}]
    return {"k": "kwseq", "decos": decos, "fns": fns, "calls": calls, "target": target}, "kwseq"


def kw_line(op: dict) -> str:
    kv = lambda d: ";".join(f"{k}={v}" for k, v in d.items())  # noqa: E731
    refs = ",".join(map(str, op["fns"]))
    bases = "|".join(f"{j}:{kv(b)}" for j, b in enumerate(op["decos"])) or "-"
    calls = "/".join(f"{fi}:{kv(o)}" for fi, o in op["calls"]) or "-"
    ti, to = op["target"]
    keys = ",".join(k for k in KW_KEYS if k != "opset_version")
    return f"kw 0 {refs} {bases} {calls} {ti}:{kv(to)} {keys}"


def gen_header(rng: random.Random):
    """main function (own domain) calling 0-3 sub-functions of custom domains; std operators from opset 17/18/19 or none"""
    doms = ["dom.a", "dom.b", "this", "zz.y"]
    n = rng.randint(0, 3)
    subs = []
    for i in range(n):
        std = rng.choice(["op", "opset17", "opset19", None, None])
        sf = {"domain": rng.choice(doms), "version": rng.randint(1, 3), "std": std, "calls": None}
        if std is None and i > 0 and rng.random() < 0.6:
            sf["calls"] = rng.randrange(i)
        subs.append(sf)
    calls = rng.sample(range(n), rng.randint(0, n)) if n else []
    main = {"domain": rng.choice(doms + ["main.dom"]), "version": rng.randint(1, 2), "std": rng.choice(["op", "op", None, None]), "calls": calls}
    # main without standard operators and without calls uses a custom-domain operator only (no "" import at all)
    kw = {}
    if rng.random() < 0.5:
        kw["opset_version"] = rng.choice([15, 17, 20, 99])
    if rng.random() < 0.3:
        kw["ir_version"] = rng.choice([7, 9, 10])
    return {"k": "header", "subs": subs, "main": main, "kw": kw}, "header"


def header_line(op: dict, res: dict) -> str:
    nd = lambda d: d or "~"  # noqa: E731
    gi = ";".join(f"{nd(d)}={v}" for d, v in res["graph_imports"]) or "-"
    fs = "|".join(f"{nd(d)}:{v}:{'-' if s_ is None else s_}" for d, v, s_ in res["funcs"]) or "-"
    kw = op.get("kw", {})
    table = ";".join(f"{k}={v}" for k, v in res["table"])
    return f"header {gi} {fs} {kw.get('opset_version', '-')} {kw.get('ir_version', '-')} {res['latest']} {table} {res['max_ir']}"


def gen_history_op(rng: random.Random, idx: int):
    r = rng.random()
    if r < 0.45:
        return gen_model_op(rng)
    if r < 0.55:
        return gen_script_bad(rng, f"h{idx}")
    if r < 0.72:
        o, tg = rng.choice([gen_script_if, gen_script_plain, gen_script_globals, gen_script_ndarray, gen_script_castable, gen_script_castable])(rng, f"h{idx}")
        if rng.random() < 0.6:
            o["proto_overrides"] = gen_overrides(rng) or {"producer_name": 3}
            tg += "+overrides"
        return o, tg
    if r < 0.82:
        return gen_pattern_op(rng)
    if r < 0.85:
        o, tg = gen_pattern_op(rng)
        return {**o, "k": "evalctx"}, "evalctx"
    if r < 0.88:
        return {"k": "badpattern"}, "badpattern(fails)"
    if r < 0.91:
        return gen_header(rng)
    if r < 0.94:
        return {"k": "opset", "domain": rng.choice(["my.dom", "this", "other.dom", ""]), "version": rng.randint(1, 3)}, "opset"
    return {"k": "sugar"}, "sugar"


def gen_target(rng: random.Random, idx: int):
    r = rng.random()
    if r < 0.5:
        return gen_model_op(rng, allow_fail=False)
    if r < 0.8:
        return rng.choice([gen_script_if, gen_script_if, gen_script_plain, gen_script_globals, gen_script_ndarray, gen_script_castable])(rng, f"t{idx}")
    if r < 0.86:
        return {"k": "sugar"}, "sugar"
    if r < 0.92:
        return {"k": "opset", "domain": rng.choice(["my.dom", "this", "other.dom"]), "version": rng.randint(1, 3)}, "opset"
    return gen_pattern_op(rng, allow_raise=False)
