"""C19 translator: `onnxscript/rewriter/ort_fusions/_core.py` (+ two constants of sdpa.py / softmax.py) -> OV/Gen/C19Core.lean.

Read by `ast` from the tree under test on every run, never imported:

* `fuseXformersSteps` — the body of `fuse_xformers` statement by statement, in program order, as
  (guard, fusion_count key, call).  `guard` is "" at top level, `if:<cond>` / `else:<cond>` inside the one
  conditional (`<cond>` = the source of the test, e.g. `fusion_count['mha1'] == 0 and fusion_count['mha2'] == 0`);
  `call` is `fuse_x(kw=v,…)` for `fusion_count[k] = fuse(fuse_x, kw=v)`, the literal for `fusion_count[k] = 0`,
  `Pass()` for `common_passes.Pass()(model)`, `f()` for a plain `f(model)` / `model = f(model)`.
  Anything of another shape is kept as `?<source>` (the `decide` theorem then fails: the model has to be revisited).
* `preOptimizeSteps`, `optimizeForOrtSteps` — same for `_pre_optimize` and `optimize_for_ort` (the members of the
  `ir.passes.Sequential(...)` are listed individually with their keyword arguments).
* `ortPatternRules` — the elements of `ORT_PATTERN_REWRITE_RULES` in order.
* `sdpaDefaultScaleTest` — the keyword arguments of the `math.isclose` call in `sdpa.py` (source text of the literals).
* `softmaxRuleOrder` — (pattern, replacement, condition) names of the `RewriteRule`s in `softmax.rules`, in order.

`OV.Props.C19.core_tables_match_model` (`decide +kernel`) states that these tables are the ones the model
(`OV.C19.xformersOrder` …) and the theorems about the stage order assume.
"""
from __future__ import annotations

import ast
import hashlib
import json
from pathlib import Path

CORE = "onnxscript/rewriter/ort_fusions/_core.py"
SDPA = "onnxscript/rewriter/ort_fusions/sdpa.py"
SOFTMAX = "onnxscript/rewriter/ort_fusions/softmax.py"


def _src(n: ast.AST) -> str:
    return ast.unparse(n).replace("\n", " ")


def _kw(call: ast.Call, skip=()) -> str:
    return ",".join(f"{k.arg}={_src(k.value)}" for k in call.keywords if k.arg not in skip)


def _tail(n: ast.AST) -> str:
    """Dotted source of a callee, without the `common_passes.` / `ir.passes.` module prefixes."""
    s = _src(n)
    for pre in ("common_passes.", "ir.passes."):
        if s.startswith(pre):
            return s[len(pre):]
    return s


def _call_text(v: ast.AST) -> str | None:
    """One call on the model, canonicalised; None if the expression has another shape."""
    if not isinstance(v, ast.Call):
        return None
    f = v.func
    # Pass(args)(model)
    if isinstance(f, ast.Call) and len(v.args) == 1 and _src(v.args[0]) == "model":
        return f"{_tail(f.func)}({_kw(f)})" if not f.args else None
    # fuse(func, kw…)  — the local helper of fuse_xformers: func(model, debug=debug, kw…)
    if isinstance(f, ast.Name) and f.id == "fuse" and v.args and len(v.args) == 1:
        return f"{_tail(v.args[0])}({_kw(v)})"
    # f(model, …) / rewrite(model, rules)
    if v.args and _src(v.args[0]) == "model":
        rest = [_tail(a) if isinstance(a, ast.Attribute) else _src(a) for a in v.args[1:]]
        kws = _kw(v, skip=("debug",))
        return f"{_tail(f)}({','.join(rest + ([kws] if kws else []))})"
    return None


def _steps(body: list[ast.stmt], guard: str = "") -> list[tuple[str, str, str]]:
    out: list[tuple[str, str, str]] = []
    for st in body:
        if isinstance(st, ast.Expr) and isinstance(st.value, ast.Constant) and isinstance(st.value.value, str):
            continue  # docstring
        if isinstance(st, ast.FunctionDef):
            # the local `fuse` helper: its body is part of what every stage means
            out.append((guard, "", f"def {st.name}: {_src(st.body[-1])}"))
            continue
        if isinstance(st, ast.If) and not guard:
            cond = _src(st.test)
            out += _steps(st.body, "if:" + cond)
            out += _steps(st.orelse, "else:" + cond)
            continue
        if isinstance(st, ast.Assign) and len(st.targets) == 1:
            t, v = st.targets[0], st.value
            if isinstance(t, ast.Subscript) and _src(t.value) == "fusion_count" and isinstance(t.slice, ast.Constant):
                if isinstance(v, ast.Constant):
                    out.append((guard, str(t.slice.value), repr(v.value)))
                    continue
                c = _call_text(v)
                if c is not None:
                    out.append((guard, str(t.slice.value), c))
                    continue
            if isinstance(t, ast.Name) and t.id == "fusion_count" and _src(v) in ("dict()", "{}"):
                continue
            if isinstance(t, ast.Name) and t.id == "model":
                c = _call_text(v)
                if c is not None:
                    out.append((guard, "", c))
                    continue
            if isinstance(t, ast.Tuple) and _src(t) == "(model, fusion_count)":
                c = _call_text(v)
                if c is not None:
                    out.append((guard, "", c))
                    continue
            if isinstance(t, ast.Name) and t.id == "passes" and isinstance(v, ast.Call) and _tail(v.func) == "Sequential":
                for a in v.args:
                    out.append((guard, "", f"{_tail(a.func)}({_kw(a)})" if isinstance(a, ast.Call) else "?" + _src(a)))
                continue
            if isinstance(t, ast.Name) and t.id == "result" and _src(v) == "passes(model)":
                continue
        if isinstance(st, ast.Expr):
            c = _call_text(st.value)
            if c is not None:
                out.append((guard, "", c))
                continue
        if isinstance(st, ast.Assert):
            continue
        if isinstance(st, ast.Return):
            out.append((guard, "", "return " + _src(st.value)))
            continue
        if isinstance(st, ast.If):  # e.g. `if clear_metadata:` in optimize_for_ort, or a nested conditional
            cond = _src(st.test)
            out += [(f"{guard}&if:{cond}".lstrip("&"), k, c) for _, k, c in _steps(st.body, "x")]
            out += [(f"{guard}&else:{cond}".lstrip("&"), k, c) for _, k, c in _steps(st.orelse, "x")]
            continue
        out.append((guard, "", "?" + _src(st)[:120]))
    return out


def extract(repo: Path) -> dict:
    tree = ast.parse((repo / CORE).read_text())
    fns = {n.name: n for n in tree.body if isinstance(n, ast.FunctionDef)}
    data: dict = {}
    for key, fn in (("fuseXformersSteps", "fuse_xformers"), ("preOptimizeSteps", "_pre_optimize"),
                    ("optimizeForOrtSteps", "optimize_for_ort")):
        data[key] = [list(s) for s in _steps(fns[fn].body)] if fn in fns else [["", "", "?missing " + fn]]
    rules: list[str] = []
    for n in tree.body:
        if isinstance(n, ast.Assign) and _src(n.targets[0]) == "ORT_PATTERN_REWRITE_RULES":
            elts = n.value.elts if isinstance(n.value, (ast.List, ast.Tuple)) else []
            rules = [("*" + _src(e.value)) if isinstance(e, ast.Starred) else _src(e) for e in elts] or ["?" + _src(n.value)[:120]]
    data["ortPatternRules"] = rules
    # sdpa.py: keyword literals of every math.isclose call (there is exactly one today)
    isc: list[list[str]] = []
    for n in ast.walk(ast.parse((repo / SDPA).read_text())):
        if isinstance(n, ast.Call) and _src(n.func) == "math.isclose":
            isc += [[k.arg or "**", _src(k.value)] for k in n.keywords]
    data["sdpaDefaultScaleTest"] = isc
    # softmax.py: the rule set, in order
    order: list[list[str]] = []
    for n in ast.parse((repo / SOFTMAX).read_text()).body:
        if isinstance(n, ast.Assign) and _src(n.targets[0]) == "rules" and isinstance(n.value, ast.Call) and n.value.args:
            lst = n.value.args[0]
            for e in getattr(lst, "elts", []):
                order.append([_src(a) for a in e.args] if isinstance(e, ast.Call) and _tail(e.func) == "RewriteRule" else ["?" + _src(e)[:80]])
    data["softmaxRuleOrder"] = order
    return data


def _s(x: str) -> str:
    return json.dumps(x, ensure_ascii=False)


def emit_lean(data: dict) -> str:
    def triples(rows):
        return "[\n" + ",\n".join(f"  ({_s(a)}, {_s(b)}, {_s(c)})" for a, b, c in rows) + "]"

    def lists(rows):
        return "[\n" + ",\n".join("  [" + ", ".join(_s(x) for x in r) + "]" for r in rows) + "]"

    return (
        "/-! GENERATED by harness/c19_extract.py from /repo's ort_fusions/_core.py, sdpa.py, softmax.py — do not edit. -/\n"
        "namespace OV.Gen.C19Core\n\n"
        "/-- (guard, fusion_count key, call) for every statement of `fuse_xformers`, in program order -/\n"
        f"def fuseXformersSteps : List (String × String × String) := {triples(data['fuseXformersSteps'])}\n\n"
        f"def preOptimizeSteps : List (String × String × String) := {triples(data['preOptimizeSteps'])}\n\n"
        f"def optimizeForOrtSteps : List (String × String × String) := {triples(data['optimizeForOrtSteps'])}\n\n"
        "def ortPatternRules : List String := [" + ", ".join(_s(x) for x in data["ortPatternRules"]) + "]\n\n"
        f"def sdpaDefaultScaleTest : List (List String) := {lists(data['sdpaDefaultScaleTest'])}\n\n"
        f"def softmaxRuleOrder : List (List String) := {lists(data['softmaxRuleOrder'])}\n\n"
        "end OV.Gen.C19Core\n"
    )


def digest(data: dict) -> str:
    return hashlib.sha1(json.dumps(data, sort_keys=True).encode()).hexdigest()[:12]


def write_lean(data: dict, lean_dir: Path) -> tuple[Path, bool]:
    """Write OV/Gen/C19Core.lean only if its content changed (keeps lake's cache valid)."""
    text = emit_lean(data)
    p = lean_dir / "OV" / "Gen" / "C19Core.lean"
    p.parent.mkdir(exist_ok=True)
    if p.exists() and p.read_text() == text:
        return p, False
    p.write_text(text)
    return p, True


if __name__ == "__main__":
    import os
    import sys

    d = extract(Path(os.environ.get("VERIF_REPO", "/repo")))
    if "--write" in sys.argv:
        print(write_lean(d, Path(__file__).resolve().parent.parent / "lean"))
    else:
        print(emit_lean(d))
    print("digest", digest(d), file=sys.stderr)
