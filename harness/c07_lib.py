"""C07 support: rule specs <-> real RewriteRule / Lean tokens, host models, encodings, canonical form, oracles."""
from __future__ import annotations

import contextlib
import hashlib
import signal

import numpy as np
import onnx
from onnx import TensorProto, helper

TAG = "pkg.onnxscript.rewriter.rule_name"
UNARY = ["Neg", "Abs", "Relu"]
COMM = ["Add", "Mul"]
NONCOMM = ["Sub"]

# --------------------------------------------------------------------------- tokens


def enc(s: str) -> str:
    return "~" if s == "" else s.replace(" ", "^")


def dec(s: str) -> str:
    return "" if s == "~" else s.replace("^", " ")


def attr_token(a: onnx.AttributeProto) -> str:
    v = helper.get_attribute_value(a)
    if a.type == onnx.AttributeProto.INT:
        return f"i{v}"
    if a.type == onnx.AttributeProto.INTS:
        return "I" + ",".join(map(str, v))
    if a.type == onnx.AttributeProto.FLOAT:
        return f"f{v!r}"
    if a.type == onnx.AttributeProto.STRING:
        return "s" + v.decode()
    if a.type == onnx.AttributeProto.TENSOR:
        return "T" + hashlib.sha1(v.SerializeToString()).hexdigest()[:8]
    return f"?{a.type}"


def init_token(t: onnx.TensorProto) -> str:
    arr = onnx.numpy_helper.to_array(t)
    return f"T{t.data_type}_{'x'.join(map(str, arr.shape))}_{hashlib.sha1(arr.tobytes()).hexdigest()[:8]}"


# --------------------------------------------------------------------------- proto -> struct


class _Ids:
    def __init__(self):
        self.n = 0

    def next(self):
        self.n += 1
        return self.n


def graph_struct(g: onnx.GraphProto, ids: _Ids) -> dict:
    nodes = []
    for n in g.node:
        subs, attrs = [], []
        for a in n.attribute:
            if a.type == onnx.AttributeProto.GRAPH:
                subs.append((a.name, a.g))
            elif a.type == onnx.AttributeProto.GRAPHS:
                subs += [(a.name, sg) for sg in a.graphs]
            else:
                attrs.append((a.name, attr_token(a)))
        nid = ids.next()
        nodes.append(
            {
                "id": nid,
                "op": n.op_type,
                "domain": n.domain,
                "overload": n.overload,
                "inputs": [x if x != "" else None for x in n.input],
                "outputs": list(n.output),
                "attrs": attrs,
                "meta": [(p.key, p.value) for p in n.metadata_props],
                "subs": [(k, graph_struct(sg, ids)) for k, sg in subs],
            }
        )
    return {
        "inputs": [i.name for i in g.input],
        "inits": [(t.name, init_token(t)) for t in g.initializer],
        "nodes": nodes,
        "outputs": [o.name for o in g.output],
    }


def model_struct(m: onnx.ModelProto) -> dict:
    ids = _Ids()
    main = graph_struct(m.graph, ids)
    funcs = []
    for f in m.functions:
        fg = onnx.GraphProto()
        fg.node.extend(f.node)
        gs = graph_struct(fg, ids)
        gs["inputs"] = list(f.input)
        gs["outputs"] = list(f.output)
        funcs.append(
            {
                "domain": f.domain,
                "name": f.name,
                "overload": f.overload,
                "opsets": {o.domain: o.version for o in f.opset_import},
                "graph": gs,
            }
        )
    return {"opsets": {o.domain: o.version for o in m.opset_import}, "graph": main, "funcs": funcs}


# --------------------------------------------------------------------------- struct <-> tokens


def _pairs(l):
    out = [str(len(l))]
    for a, b in l:
        out += [enc(a), enc(b)]
    return out


def graph_tokens(g: dict) -> list[str]:
    t = ["G", str(len(g["inputs"]))] + [enc(x) for x in g["inputs"]] + _pairs(g["inits"]) + [str(len(g["nodes"]))]
    for n in g["nodes"]:
        t += ["N", str(n["id"]), enc(n["op"]), enc(n["domain"]), enc(n["overload"]), str(len(n["inputs"]))]
        t += ["_" if x is None else enc(x) for x in n["inputs"]]
        t += [str(len(n["outputs"]))] + [enc(x) for x in n["outputs"]]
        t += _pairs(n["attrs"]) + _pairs(n["meta"]) + [str(len(n["subs"]))]
        for k, sg in n["subs"]:
            t += [enc(k)] + graph_tokens(sg)
    return t + [str(len(g["outputs"]))] + [enc(x) for x in g["outputs"]]


def _ops_tokens(d: dict) -> list[str]:
    t = [str(len(d))]
    for k, v in d.items():
        t += [enc(k), str(v)]
    return t


def model_tokens(s: dict) -> list[str]:
    t = ["M"] + _ops_tokens(s["opsets"]) + graph_tokens(s["graph"]) + [str(len(s["funcs"]))]
    for f in s["funcs"]:
        t += [enc(f["domain"]), enc(f["name"]), enc(f["overload"])] + _ops_tokens(f["opsets"]) + graph_tokens(f["graph"])
    return t


class _Tok:
    def __init__(self, toks):
        self.t = toks
        self.i = 0

    def tok(self):
        x = self.t[self.i]
        self.i += 1
        return x

    def s(self):
        return dec(self.tok())

    def n(self):
        return int(self.tok())

    def pairs(self):
        return [(self.s(), self.s()) for _ in range(self.n())]


def parse_graph(p: _Tok) -> dict:
    assert p.tok() == "G"
    ins = [p.s() for _ in range(p.n())]
    inits = p.pairs()
    nodes = []
    for _ in range(p.n()):
        assert p.tok() == "N"
        nid, op, dom, ov = p.n(), p.s(), p.s(), p.s()
        inputs = []
        for _ in range(p.n()):
            x = p.tok()
            inputs.append(None if x == "_" else dec(x))
        outputs = [p.s() for _ in range(p.n())]
        attrs, meta = p.pairs(), p.pairs()
        subs = []
        for _ in range(p.n()):
            k = p.s()
            subs.append((k, parse_graph(p)))
        nodes.append(dict(id=nid, op=op, domain=dom, overload=ov, inputs=inputs, outputs=outputs, attrs=attrs, meta=meta, subs=subs))
    outs = [p.s() for _ in range(p.n())]
    return {"inputs": ins, "inits": inits, "nodes": nodes, "outputs": outs}


def parse_model(toks: list[str]) -> dict:
    p = _Tok(toks)
    assert p.tok() == "M"
    ops = {}
    for _ in range(p.n()):
        k = p.s()
        ops[k] = p.n()
    g = parse_graph(p)
    funcs = []
    for _ in range(p.n()):
        d, n, o = p.s(), p.s(), p.s()
        fo = {}
        for _ in range(p.n()):
            k = p.s()
            fo[k] = p.n()
        funcs.append({"domain": d, "name": n, "overload": o, "opsets": fo, "graph": parse_graph(p)})
    return {"opsets": ops, "graph": g, "funcs": funcs}


# --------------------------------------------------------------------------- canonical form


def canon(s: dict) -> dict:
    """Structure modulo renaming of non-interface values, node ids/names, dict orders."""
    ctr = [0]

    def fresh(p):
        ctr[0] += 1
        return f"{p}{ctr[0]}"

    def cgraph(g, scopes, iface_in, iface_out):
        local = {}
        inits = dict(g["inits"])
        used_inits = []
        scope = scopes + [(local, inits, used_inits)]
        gins = []
        for x in g["inputs"]:
            local[x] = x if iface_in else fresh("a")
            gins.append(local[x])
        if iface_in:
            for x in g["inputs"]:
                if x in inits:
                    used_inits.append((x, inits[x]))

        def resolve(x):
            for loc, ini, used in reversed(scope):
                if x in loc:
                    return loc[x]
                if x in ini:
                    loc[x] = fresh("c")
                    used.append((loc[x], ini[x]))
                    return loc[x]
            return "undef"

        nodes = []
        for n in g["nodes"]:
            ins = [None if x is None else resolve(x) for x in n["inputs"]]
            subs = [(k, cgraph(sg, scope, False, False)) for k, sg in n["subs"]]
            outs = []
            for o in n["outputs"]:
                local[o] = o if (iface_out and o in g["outputs"]) else fresh("t")
                outs.append(local[o])
            nodes.append((n["op"], n["domain"], n["overload"], tuple(ins), tuple(outs), tuple(sorted(n["attrs"])),
                          tuple(sorted(n["meta"])), tuple(subs)))
        outs = tuple(resolve(x) for x in g["outputs"])
        gins = tuple(gins)
        unused = sorted(t for x, t in g["inits"] if x not in local)
        return (gins, tuple(used_inits), tuple(unused), tuple(nodes), outs)

    funcs = sorted(
        ((f["domain"], f["name"], f["overload"], tuple(sorted(f["opsets"].items())), cgraph(f["graph"], [], False, False)) for f in s["funcs"]),
        key=lambda t: t[:3],
    )
    return {"opsets": tuple(sorted(s["opsets"].items())), "graph": cgraph(s["graph"], [], True, True), "funcs": tuple(funcs)}


# --------------------------------------------------------------------------- rule specs


def ref_tok(r) -> str:
    if r is None:
        return "_"
    k = r[0]
    if k == "v":
        return f"v{r[1]}"
    if k == "n":
        return f"n{r[1]}.{r[2]}"
    if k == "i":
        return f"i{r[1]}"
    raise ValueError(r)


def rule_tokens(spec: dict) -> list[str]:
    t = [enc(spec["name"]), str(int(spec["remove"])), str(int(spec["asfn"])), str(int(spec["guard"])), str(len(spec["pnodes"]))]
    for op, dom, ins, nout, attrs in spec["pnodes"]:
        t += [enc(op), enc(dom), str(len(ins))] + [ref_tok(r) for r in ins] + [str(nout)] + _pairs(attrs)
    t += [str(spec["root"]), str(len(spec["pouts"]))] + [ref_tok(r) for r in spec["pouts"]]
    t += _pairs(spec["inits"]) + [str(int(spec["unique"])), str(len(spec["tnodes"]))]
    for op, dom, ver, ins, nout, attrs in spec["tnodes"]:
        t += [enc(op), enc(dom), "-" if ver is None else str(ver), str(len(ins))] + [ref_tok(r) for r in ins] + [str(nout)] + _pairs(attrs)
    return t + [str(len(spec["touts"]))] + [ref_tok(r) for r in spec["touts"]]


ATTR_PY = {"I0": "[0]", "I1,0": "[1, 0]"}
ONE = np.array([1.0, 1.0], dtype=np.float32)
INIT_VALUES = {"one": ONE, "two": np.array([2.0, 2.0], dtype=np.float32)}


def _nvars(spec) -> int:
    ks = [r[1] for _, _, ins, _, _ in spec["pnodes"] for r in ins if r is not None and r[0] == "v"]
    return max(ks) + 1 if ks else 0


def build_rule(spec: dict):
    """The real RewriteRule of a spec (source generated: the pattern API reads parameter names)."""
    from onnxscript import ir
    from onnxscript.rewriter import pattern

    nv = _nvars(spec)
    params = ", ".join(f"v{k}" for k in range(nv))

    def pref(r):
        if r is None:
            return "None"
        if r[0] == "v":
            return f"v{r[1]}"
        if r[0] == "i":
            return f"i{r[1]}"
        return f"o{r[1]}_{r[2]}"

    def emit(i, op, dom, ver, ins, nout, attrs):
        kw = []
        if dom:
            kw.append(f"_domain={dom!r}")
        if ver is not None:
            kw.append(f"_version={ver}")
        if nout != 1:
            kw.append(f"_outputs={nout}")
        for k, v in attrs:
            kw.append(f"{k}={ATTR_PY[v]}")
        call = f"op.{op}({', '.join([pref(r) for r in ins] + kw)})"
        if nout == 1:
            return [f"    o{i}_0 = {call}"]
        return [f"    r{i} = {call}"] + [f"    o{i}_{j} = r{i}[{j}]" for j in range(nout)]

    def ret(outs):
        return "    return " + (", ".join(pref(r) for r in outs) if len(outs) != 1 else pref(outs[0]))

    src = [f"def pat(op, {params}):"]
    for i, (op, dom, ins, nout, attrs) in enumerate(spec["pnodes"]):
        src += emit(i, op, dom, None, ins, nout, attrs)
    src.append(ret(spec["pouts"]))
    src.append(f"def rep(op, {params}):")
    src.append("    CALLS[0] += 1")
    for k, (name, tok) in enumerate(spec["inits"]):
        nm = f"{name!r} + '_' + str(CALLS[0])" if spec["unique"] else repr(name)
        src.append(f"    i{k} = op.initializer(ir.tensor(INIT_VALUES[{name!r}]), name={nm})")
    for i, (op, dom, ver, ins, nout, attrs) in enumerate(spec["tnodes"]):
        src += emit(i, op, dom, ver, ins, nout, attrs)
    src.append(ret(spec["touts"]))
    src.append(f"def cond(context, {params + ', ' if params else ''}**_):")
    if spec["guard"]:
        src.append(f"    return {spec['name']!r} not in context.root.metadata_props.get(TAG, '').split(', ')")
    else:
        src.append("    return True")
    env = {"ir": ir, "INIT_VALUES": INIT_VALUES, "TAG": TAG, "CALLS": spec.setdefault("_calls", [0])}
    exec("\n".join(src), env)  # noqa: S102 - generated from a closed spec language
    spec["_src"] = "\n".join(src)
    return pattern.RewriteRule(
        env["pat"], env["rep"], env["cond"], name=spec["name"] or None, remove_nodes=spec["remove"], as_function=spec["asfn"]
    )


def init_tok_for(name: str) -> str:
    t = onnx.numpy_helper.from_array(INIT_VALUES[name], name)
    return init_token(t)


# --------------------------------------------------------------------------- running the real code


class Timeout(Exception):
    pass


@contextlib.contextmanager
def time_limit(seconds: float):
    def h(*_):
        raise Timeout()

    old = signal.signal(signal.SIGALRM, h)
    signal.setitimer(signal.ITIMER_REAL, seconds)
    try:
        yield
    finally:
        signal.setitimer(signal.ITIMER_REAL, 0)
        signal.signal(signal.SIGALRM, old)


def classify_exc(e: BaseException) -> str:
    msg = str(e)
    cur = e
    timed_out = False
    while cur is not None:
        msg += " | " + str(cur)
        timed_out = timed_out or isinstance(cur, Timeout)
        cur = cur.__cause__ or cur.__context__
    if timed_out:
        return "fuel"
    if "Cannot rename initializer" in msg:
        return "nameFixRename"
    if "is still being used by other nodes" in msg:
        return "unsafeRemove"
    if "Multiple versions of opset" in msg:
        return "opsetClash"
    if "as_function" in msg or "not found in value_map" in msg or "Graph attributes not supported" in msg:
        return "asFunction"
    if "Number of outputs from replacement" in msg:
        return "outputArity"
    return "exc:" + type(e).__name__ + ":" + str(e)[:120]


def run_real(proto: onnx.ModelProto, specs: list[dict], mode: str, limit: float = 3.0, commute: bool = False):
    """('OK', count|None, ModelProto) or ('ERR', kind, None); rules are rebuilt for every run."""
    from onnxscript import ir
    from onnxscript.rewriter import RewriteRuleSet, rewrite

    # private copy: the IR aliases the proto's initializer TensorProtos, and a passthru replacement that renames an
    # initializer value (`Neg(Neg(w)) -> w`) renames the tensor inside the caller's ModelProto as well
    _p = onnx.ModelProto()
    _p.CopyFrom(proto)
    proto = _p
    shared = [0]  # one call counter for the whole rule set (the model numbers replacement calls globally)
    for s in specs:
        s["_calls"] = shared
    rules = [build_rule(s) for s in specs]
    try:
        with time_limit(limit):
            if mode == "apply":
                m = ir.serde.deserialize_model(proto)
                cnt = RewriteRuleSet(rules, commute=commute).apply_to_model(m)
                return "OK", cnt, ir.serde.serialize_model(m)
            out = rewrite(proto, RewriteRuleSet(rules, commute=True) if commute else rules)
            return "OK", None, out
    except BaseException as e:  # noqa: BLE001
        if isinstance(e, (KeyboardInterrupt, SystemExit)):
            raise
        return "ERR", classify_exc(e), None


def run_real_reused(first: onnx.ModelProto, specs: list[dict], limit: float = 6.0, commute: bool = False):
    """Second use of ONE RewriteRuleSet object: it is applied to `first`, and then — the same object — to the model that
    came out of that pass (serialized and deserialized again).  Returns the outcome of the second application,
    ('OK', count, ModelProto) or ('ERR', kind, None); ('ERR', 'firstPass:<kind>', None) if the first application fails."""
    from onnxscript import ir
    from onnxscript.rewriter import RewriteRuleSet

    _p = onnx.ModelProto()
    _p.CopyFrom(first)
    shared = [0]
    for s in specs:
        s["_calls"] = shared
    rules = [build_rule(s) for s in specs]
    rs = RewriteRuleSet(rules, commute=commute)
    try:
        with time_limit(limit):
            m1 = ir.serde.deserialize_model(_p)
            rs.apply_to_model(m1)
            mid = ir.serde.serialize_model(m1)
    except BaseException as e:  # noqa: BLE001
        if isinstance(e, (KeyboardInterrupt, SystemExit)):
            raise
        return "ERR", "firstPass:" + classify_exc(e), None
    shared[0] = 0  # the replacement functions' own call counter (names `one_<call#>`) is the harness's, not the rewriter's
    try:
        with time_limit(limit):
            m2 = ir.serde.deserialize_model(mid)
            cnt = rs.apply_to_model(m2)
            return "OK", cnt, ir.serde.serialize_model(m2)
    except BaseException as e:  # noqa: BLE001
        if isinstance(e, (KeyboardInterrupt, SystemExit)):
            raise
        return "ERR", classify_exc(e), None


# --------------------------------------------------------------------------- host models


VT = lambda name: helper.make_tensor_value_info(name, TensorProto.FLOAT, [2])  # noqa: E731


class HostGen:
    def __init__(self, rng, with_funcs: bool, with_cond: bool, meta_p: float = 0.1):
        self.rng = rng
        self.k = 0
        self.with_funcs = with_funcs
        self.with_cond = with_cond
        self.meta_p = meta_p
        self.hist = {}
        self.gaps = False   # some values are named val_<k> (the names the rewriter itself hands out), with gaps
        self.used = set()
        self.f_overload = ""  # overload of the model-local function `local.f` (what an earlier as_function pass leaves behind)

    def name(self, p="t"):
        self.k += 1
        if p == "t" and self.gaps and self.rng.random() < 0.12:
            cand = f"val_{self.rng.randint(1, 6)}"
            if cand not in self.used:
                self.used.add(cand)
                self.hist["val_named"] = self.hist.get("val_named", 0) + 1
                return cand
        return f"{p}{self.k}"

    def pick(self, avail):
        r = self.rng
        if len(avail) > 2 and r.random() < 0.65:
            return r.choice(avail[-3:])
        return r.choice(avail)

    def node(self, op, ins, outs, domain="", **attrs):
        n = helper.make_node(op, ins, outs, domain=domain, **attrs)
        if self.rng.random() < self.meta_p:
            p = n.metadata_props.add()
            p.key, p.value = "src", self.rng.choice(["a", "b"])
        self.hist[op] = self.hist.get(op, 0) + 1
        return n

    def f_call(self, x, o):
        n = self.node("f", [x], [o], domain="local")
        if self.f_overload:
            n.overload = self.f_overload
            self.hist["f_overloaded_call"] = self.hist.get("f_overloaded_call", 0) + 1
        return n

    def nodes(self, avail, n, depth):
        r = self.rng
        avail = list(avail)
        out = []
        for _ in range(n):
            x = r.random()
            o = self.name()
            if x < 0.42:
                out.append(self.node(r.choice(UNARY), [self.pick(avail)], [o]))
            elif x < 0.47:
                out.append(self.node("Transpose", [self.pick(avail)], [o], perm=[0]))
            elif x < 0.72:
                out.append(self.node(r.choice(COMM + COMM + NONCOMM), [self.pick(avail), self.pick(avail)], [o]))
            elif x < 0.80 and self.with_funcs:
                o2 = self.name()
                out.append(self.node("Two", [self.pick(avail)], [o, o2], domain="local"))
                avail.append(o2)
            elif x < 0.85 and self.with_funcs:
                out.append(self.f_call(self.pick(avail), o))
            elif x < 0.88 and self.with_cond and depth < 2:
                # Loop(M=2, cond=true, v): body (i, cond_in, v_in) -> (cond_out, v_out), reading outer values too
                vin, cin, it, cout = self.name("lv"), self.name("lc"), self.name("li"), self.name("lo")
                bns, bav = self.nodes(avail + [vin], self.rng.randint(1, 4), depth + 1)
                bns = [self.node("Identity", [cin], [cout])] + bns
                body = helper.make_graph(
                    bns, self.name("loop"),
                    [helper.make_tensor_value_info(it, TensorProto.INT64, []), helper.make_tensor_value_info(cin, TensorProto.BOOL, []), VT(vin)],
                    [helper.make_tensor_value_info(cout, TensorProto.BOOL, []), VT(bns[-1].output[0])])
                self.hist["loop_d%d" % (depth + 1)] = self.hist.get("loop_d%d" % (depth + 1), 0) + 1
                out.append(self.node("Loop", ["M", "ctrue", self.pick(avail)], [o], body=body))
            elif x < 0.95 and self.with_cond and depth < 2:
                tb = self.body(avail, depth + 1, "then")
                eb = self.body(avail, depth + 1, "else")
                out.append(self.node("If", ["c"], [o], then_branch=tb, else_branch=eb))
            else:
                out.append(self.node(r.choice(UNARY + ["Identity"]), [self.pick(avail)], [o]))
            avail.append(o)
        return out, avail

    def body(self, avail, depth, tag):
        ns, av = self.nodes(avail, self.rng.randint(1, 4), depth)
        res = ns[-1].output[0]
        if self.rng.random() < 0.2:
            # an involution applied to an *outer* value (instance for `Neg(Neg(v)) -> v` with v of an enclosing graph,
            # C07-D11 region), as the body's result or as an interior value
            a, b = self.name(), self.name()
            dn = [self.node("Neg", [self.pick(list(avail))], [a]), self.node("Neg", [a], [b])]
            self.hist["body_double_neg_outer"] = self.hist.get("body_double_neg_outer", 0) + 1
            if self.rng.random() < 0.5:
                ns, res = ns + dn, b
            else:
                ns = dn + ns + [self.node("Add", [b, res], [self.name()])]
                res = ns[-1].output[0]
        self.hist["body_d%d" % depth] = self.hist.get("body_d%d" % depth, 0) + 1
        return helper.make_graph(ns, self.name(tag), [], [VT(res)])


def gen_host(rng, size: int, with_funcs: bool, with_cond: bool, extra_inits: list[str] = (), f_overload: str = "",
             force_f_call: bool = False, f_multi_shape=None):
    hg = HostGen(rng, with_funcs, with_cond)
    hg.gaps = rng.random() < 0.35
    hg.f_overload = f_overload if with_funcs else ""
    inputs = [VT("x"), VT("y")]
    avail = ["x", "y"]
    inits = []
    if rng.random() < 0.5 or extra_inits:
        for nm in ["w"] + list(extra_inits):
            val = INIT_VALUES.get(nm, np.array([3.0, -4.0], dtype=np.float32))
            if nm in INIT_VALUES and rng.random() < 0.5:
                val = np.array([5.0, 7.0], dtype=np.float32)  # same name, different value
            inits.append(onnx.numpy_helper.from_array(val, nm))
            avail.append(nm)
    if with_cond:
        inputs.append(helper.make_tensor_value_info("c", TensorProto.BOOL, []))
        inits.append(onnx.numpy_helper.from_array(np.array(2, dtype=np.int64), "M"))
        inits.append(onnx.numpy_helper.from_array(np.array(True), "ctrue"))
    pre = []
    if force_f_call and with_funcs:
        # a call of `local.f` (possibly overloaded) feeding a unary node: an instance for patterns that contain the call
        fo, uo = hg.name(), hg.name()
        pre = [hg.f_call(rng.choice(avail), fo), hg.node(rng.choice(UNARY), [fo], [uo])]
        avail = avail + [fo, uo]
    ns, av = hg.nodes(avail, size, 0)
    ns = pre + ns
    produced = [o for n in ns for o in n.output]
    outs = [produced[-1]]
    if len(produced) > 2 and rng.random() < 0.4:
        extra = rng.choice(produced[:-1])
        if extra not in outs:
            outs.append(extra)
    g = helper.make_graph(ns, "main", inputs, [VT(o) for o in outs], initializer=inits)
    funcs = []
    opsets = [helper.make_opsetid("", 18)]
    if with_funcs:
        opsets.append(helper.make_opsetid("local", 1))
        fhg = HostGen(rng, False, False)
        fhg.k = 1000
        with_aux = rng.random() < 0.4 and not f_multi_shape
        if with_aux:
            # `f` calls into a domain the main graph does not import
            fn, _ = fhg.nodes(["a", "h0"], rng.randint(1, 4), 0)
            fn = [fhg.node("h", ["a"], ["h0"], domain="aux")] + fn
            fops = [helper.make_opsetid("", 18), helper.make_opsetid("aux", 1)]
        elif f_multi_shape:
            # the C07-D3 shape inside a function: a consumer of the pattern's *second* output node precedes the first output node
            o1, o2, oc = f_multi_shape
            fn = [fhg.node(o2, ["a"], ["fm_n"]), fhg.node(oc, ["fm_n"], ["fm_u"]), fhg.node(o1, ["a"], ["fm_r"]),
                  fhg.node("Add", ["fm_u", "fm_r"], ["fm_b"])]
            fops = [helper.make_opsetid("", 18)]
            with_aux = False
        else:
            fn, _ = fhg.nodes(["a"], rng.randint(1, 4), 0)
            fops = [helper.make_opsetid("", 18)]
        ff = helper.make_function("local", "f", ["a"], [fn[-1].output[0]], fn, fops)
        if hg.f_overload:
            ff.overload = hg.f_overload
        funcs.append(ff)
        if with_aux:
            funcs.append(helper.make_function("aux", "h", ["a"], ["hb"], [helper.make_node("Abs", ["a"], ["hb"])], [helper.make_opsetid("", 18)]))
        tn, tav = fhg.nodes(["a"], rng.randint(2, 4), 0)
        funcs.append(
            helper.make_function("local", "Two", ["a"], [tn[-1].output[0], tn[-2].output[0]], tn, [helper.make_opsetid("", 18)])
        )
        for k, v in fhg.hist.items():
            hg.hist["fn_" + k] = hg.hist.get("fn_" + k, 0) + v
    m = helper.make_model(g, opset_imports=opsets, functions=funcs, ir_version=10)
    return m, hg.hist


# --------------------------------------------------------------------------- oracles (search / property)


def scope_walk(m: onnx.ModelProto) -> str | None:
    """Independent SSA/scope walker: definition before use with outer visibility, single assignment."""

    def walk(g, outer: set, what: str, ins, outs):
        seen = set(outer)
        local = set()
        for x in ins:
            if x in local:
                return f"{what}: duplicate input {x}"
            local.add(x)
        for t in getattr(g, "initializer", []):
            local.add(t.name)
        seen |= local
        for n in g.node:
            for x in n.input:
                if x and x not in seen:
                    return f"{what}: {n.op_type} reads undefined {x}"
            for a in n.attribute:
                subs = [a.g] if a.type == onnx.AttributeProto.GRAPH else list(a.graphs) if a.type == onnx.AttributeProto.GRAPHS else []
                for sg in subs:
                    r = walk(sg, seen, what + "/" + a.name, [i.name for i in sg.input], [o.name for o in sg.output])
                    if r:
                        return r
            for o in n.output:
                if o and o in seen:
                    return f"{what}: {o} assigned twice"
                if o:
                    seen.add(o)
        for o in outs:
            if o not in seen:
                return f"{what}: output {o} undefined"
        return None

    r = walk(m.graph, set(), "main", [i.name for i in m.graph.input], [o.name for o in m.graph.output])
    if r:
        return r

    def strict(g, enclosing: set):
        mine = {o for n in g.node for o in n.output if o} | {i.name for i in g.input} | {t.name for t in g.initializer}
        dup = mine & enclosing
        if dup:
            return f"SSA across scopes: {sorted(dup)[0]} is defined in a body and in an enclosing graph"
        for n in g.node:
            for a in n.attribute:
                for sg in ([a.g] if a.type == onnx.AttributeProto.GRAPH else list(a.graphs) if a.type == onnx.AttributeProto.GRAPHS else []):
                    r2 = strict(sg, enclosing | mine)
                    if r2:
                        return r2
        return None

    r = strict(m.graph, set())
    if r:
        return r
    fids = {(f.domain, f.name, f.overload) for f in m.functions}
    doms = {o.domain for o in m.opset_import}
    for f in m.functions:
        fg = onnx.GraphProto()
        fg.node.extend(f.node)
        r = walk(fg, set(), f"function {f.domain}.{f.name}:{f.overload}", list(f.input), list(f.output))
        if r:
            return r
        fd = {o.domain for o in f.opset_import}
        for n in f.node:
            if n.domain not in fd and (n.domain, n.op_type, n.overload) not in fids:
                return f"function {f.name}: no opset import for domain {n.domain!r}"
            # every operator outside the default domain is a model-local function here (hosts and rules use no other custom
            # operators): a call inside a function body must address a function of the model, overload included
            if n.domain not in ("", "ai.onnx") and (n.domain, n.op_type, n.overload) not in fids:
                return f"function {f.domain}.{f.name}:{f.overload}: call to undefined function {n.domain}.{n.op_type}:{n.overload}"

    def check_calls(g):
        for n in g.node:
            if n.domain not in ("", "ai.onnx") and (n.domain, n.op_type, n.overload) not in fids:
                return f"call to undefined function {n.domain}.{n.op_type}:{n.overload}"
            if n.domain not in doms:
                return f"no opset import for domain {n.domain!r}"
            for a in n.attribute:
                for sg in ([a.g] if a.type == onnx.AttributeProto.GRAPH else list(a.graphs)):
                    r = check_calls(sg)
                    if r:
                        return r
        return None

    return check_calls(m.graph)


def signature(m: onnx.ModelProto):
    def vi(v):
        tt = v.type.tensor_type
        return (v.name, tt.elem_type, tuple(d.dim_value for d in tt.shape.dim))

    return ([vi(v) for v in m.graph.input], [vi(v) for v in m.graph.output])


def checker_ok(m: onnx.ModelProto) -> str | None:
    try:
        onnx.checker.check_model(m)
        return None
    except Exception as e:  # noqa: BLE001
        return str(e)[:200]


def ort_run(m: onnx.ModelProto, feeds: dict):
    import onnxruntime as ort

    ort.set_default_logger_severity(4)
    so = ort.SessionOptions()
    so.graph_optimization_level = ort.GraphOptimizationLevel.ORT_DISABLE_ALL
    so.log_severity_level = 4
    sess = ort.InferenceSession(m.SerializeToString(), so, providers=["CPUExecutionProvider"])
    return sess.run(None, feeds)


def feeds_for(m: onnx.ModelProto, rng) -> dict:
    f = {}
    for i in m.graph.input:
        if i.type.tensor_type.elem_type == TensorProto.BOOL:
            f[i.name] = np.array(rng.random() < 0.5)
        else:
            f[i.name] = np.array([rng.uniform(-3, 3), rng.uniform(-3, 3)], dtype=np.float32)
    return f


def node_multiset(m: onnx.ModelProto, skip_ops: set) -> dict:
    """Multiset of nodes whose op is mentioned by no rule (they can be in no match and in no replacement)."""
    out: dict = {}

    def walk(g):
        for n in g.node:
            if (n.domain, n.op_type) not in skip_ops:
                k = (n.domain, n.op_type, len(n.input), len(n.output))
                out[k] = out.get(k, 0) + 1
            for a in n.attribute:
                for sg in ([a.g] if a.type == onnx.AttributeProto.GRAPH else list(a.graphs)):
                    walk(sg)

    walk(m.graph)
    for f in m.functions:
        fg = onnx.GraphProto()
        fg.node.extend(f.node)
        walk(fg)
    return out
