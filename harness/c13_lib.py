"""C13 library: encode protos for the Lean driver, canonicalise the exporter's text through `ast`,
execute the round trip (exec -> to_model_proto -> onnxruntime) and compare.

Nothing here imports the code under test at module import time except `onnx`.
"""
from __future__ import annotations

import ast
import importlib.util
import math
import os
import shutil
import sys
import tempfile

import numpy as np
import onnx
from onnx import AttributeProto as AP
from onnx import TensorProto as TP
from onnx import helper as H
from onnx import numpy_helper

OPTS16 = [
    dict(rename=bool(r), use_operators=bool(u), inline_const=bool(i), skip_initializers=bool(s))
    for r in (0, 1)
    for u in (0, 1)
    for i in (0, 1)
    for s in (0, 1)
]


def opts_str(o: dict) -> str:
    return "".join("1" if o[k] else "0" for k in ("rename", "use_operators", "inline_const", "skip_initializers"))


def hx(s: str) -> str:
    return "x" + s.encode("latin-1").hex()


def unhx(s: str) -> str:
    return bytes.fromhex(s[1:]).decode("latin-1")


# --------------------------------------------------------------------------- literal tokens


def _f32bits(x: float) -> int:
    return int(np.array(x, dtype=np.float32).view(np.uint32))


def lit_key_of_tensor(t: onnx.TensorProto):
    """Value identity of a small FLOAT/INT64 tensor: (dtype, rank, payload)."""
    if t.data_type not in (TP.FLOAT, TP.INT64) or len(t.dims) > 1:
        return None
    n = 1
    for d in t.dims:
        n *= d
    if n > 8:
        return None
    try:
        arr = numpy_helper.to_array(t).reshape(-1)
    except Exception:
        return None
    if t.data_type == TP.FLOAT:
        return ("f", len(t.dims), tuple(_f32bits(v) for v in arr.tolist()))
    return ("i", len(t.dims), tuple(int(v) for v in arr.tolist()))


def lit_key_of_pyvalue(v):
    """The same identity computed from the Python value a rendered literal evaluates to."""
    if isinstance(v, bool):
        return ("?",)
    if isinstance(v, int):
        return ("i", 0, (v,))
    if isinstance(v, float):
        return ("f", 0, (_f32bits(v),))
    if isinstance(v, list):
        if not v:
            return ("empty", 1, ())
        if all(isinstance(e, int) and not isinstance(e, bool) for e in v):
            return ("i", 1, tuple(v))
        if all(isinstance(e, float) for e in v):
            return ("f", 1, tuple(_f32bits(e) for e in v))
    return ("?",)


def _is_nan_bits(b: int) -> bool:
    return (b & 0x7F800000) == 0x7F800000 and (b & 0x007FFFFF) != 0


def tensor_finite(t: onnx.TensorProto) -> int:
    """np.isfinite on every element (what _get_const_repr tests); non-float tensors are finite."""
    try:
        arr = numpy_helper.to_array(t)
        if arr.dtype.kind == "f":
            return int(bool(np.all(np.isfinite(arr.astype(np.float64)))))
    except Exception:
        pass
    return 1


class Lits:
    def __init__(self):
        self.tab: dict = {}

    def tok(self, key) -> str:
        if key is None:
            return "#big"
        if key[2] == () and key[1] == 1:
            key = ("empty", 1, ())
        if key not in self.tab:
            # a leading '-' marks a text that starts with '-' (str() of a negative scalar, -0.0 and -inf included)
            neg = False
            if key[1] == 0 and key[0] == "i":
                neg = key[2][0] < 0
            elif key[1] == 0 and key[0] == "f":
                neg = bool(key[2][0] >> 31) and not _is_nan_bits(key[2][0])
            self.tab[key] = ("-" if neg else "") + f"#{len(self.tab)}"
        return self.tab[key]

    def of_py(self, v) -> str:
        key = lit_key_of_pyvalue(v)
        return self.tab.get(key, "#?" + repr(v).replace(" ", ""))


# --------------------------------------------------------------------------- encoding for the driver


def enc_tensor_attr(t: onnx.TensorProto, lits: Lits) -> list[str]:
    return ["T", str(t.data_type), str(len(t.dims)), *[str(d) for d in t.dims], str(tensor_finite(t)), hx(lits.tok(lit_key_of_tensor(t)))]


def enc_attr(a: onnx.AttributeProto, lits: Lits) -> list[str]:
    out = [hx(a.name)]
    if a.HasField("ref_attr_name") and a.ref_attr_name != "":
        return out + ["R", hx(a.ref_attr_name)]
    if a.HasField("g") and a.g.ByteSize() > 0:
        return out + ["G"] + enc_graph(a.g, lits)
    if a.HasField("t") and a.type == AP.TENSOR:
        return out + enc_tensor_attr(a.t, lits)
    if a.type in (AP.FLOAT, AP.INT, AP.STRING, AP.FLOATS, AP.INTS, AP.STRINGS):
        return out + ["P"]
    return out + ["U"]


def enc_node(n: onnx.NodeProto, lits: Lits) -> list[str]:
    out = [hx(n.op_type), hx(n.domain), hx(n.name), str(len(n.input)), *map(hx, n.input), str(len(n.output)), *map(hx, n.output)]
    out.append(str(len(n.attribute)))
    for a in n.attribute:
        out += enc_attr(a, lits)
    return out


def enc_graph(g: onnx.GraphProto, lits: Lits) -> list[str]:
    out = [str(len(g.input)), *[hx(i.name) for i in g.input], str(len(g.output)), *[hx(o.name) for o in g.output]]
    out.append(str(len(g.initializer)))
    for t in g.initializer:
        size = 1
        for d in t.dims:
            size *= d
        out += [hx(t.name), str(size), str(t.data_type), str(len(t.dims)), *[str(d) for d in t.dims], str(tensor_finite(t)), hx(lits.tok(lit_key_of_tensor(t)))]
    out.append(str(len(g.sparse_initializer)))
    out.append(str(len(g.node)))
    for n in g.node:
        out += enc_node(n, lits)
    return out


def enc_opsets(imports) -> list[str]:
    # dict semantics of `opsets[imported.domain] = imported.version`: last wins, lookup by domain
    d: dict = {}
    for i in imports:
        d[i.domain] = i.version
    out = [str(len(d))]
    for k, v in d.items():
        out += [hx(k), str(v)]
    return out


def type_names(proto) -> list[str]:
    """The type names `_import_onnx_types` imports (and reserves): of the graph inputs/outputs of a ModelProto."""
    if not isinstance(proto, onnx.ModelProto):
        return []
    out = set()
    for vi in list(proto.graph.input) + list(proto.graph.output):
        if vi.type.HasField("tensor_type"):
            out.add(TP.DataType.Name(vi.type.tensor_type.elem_type))
    return sorted(out)


def enc_model(m: onnx.ModelProto, opts: dict, lits: Lits, function_name=None, depth: int = 8) -> str:
    kind = "MF" if len(m.functions) else "M"
    tys = type_names(m)
    toks = ["export", opts_str(opts), str(depth), str(len(tys)), *map(hx, tys), kind, hx(m.graph.name), "-" if function_name is None else hx(function_name)]
    toks += enc_opsets(m.opset_import)
    toks += enc_graph(m.graph, lits)
    if kind == "MF":
        toks.append(str(len(m.functions)))
        for f in m.functions:
            used: set = set()
            used.update(f.input)
            used.update(f.output)
            for n in f.node:
                _node_names(n, used)
            toks += [hx(f.name), hx(f.domain)]
            toks += [str(len(f.input)), *map(hx, f.input), str(len(f.output)), *map(hx, f.output)]
            toks += [str(len(f.attribute)), *map(hx, f.attribute)]
            su = sorted(used)
            toks += [str(len(su)), *map(hx, su)]
            toks += enc_opsets(f.opset_import)
            toks.append(str(len(f.node)))
            for n in f.node:
                toks += enc_node(n, lits)
    return " ".join(toks)


def _graph_names(g: onnx.GraphProto, acc: set) -> None:
    acc.update(i.name for i in g.input)
    acc.update(o.name for o in g.output)
    acc.update(t.name for t in g.initializer)
    for n in g.node:
        _node_names(n, acc)


def _node_names(n: onnx.NodeProto, acc: set) -> None:
    """`_update_names_used_in_node` (empty names included, as in the exporter)"""
    acc.update(n.input)
    acc.update(n.output)
    for a in n.attribute:
        if a.HasField("g"):
            _graph_names(a.g, acc)
        for g in a.graphs:
            _graph_names(g, acc)


def enc_function(f: onnx.FunctionProto, opts: dict, lits: Lits, used_order, depth: int = 8) -> str:
    toks = ["export", opts_str(opts), str(depth), "0", "F", hx(f.name), hx(f.domain)]
    toks += [str(len(f.input)), *map(hx, f.input), str(len(f.output)), *map(hx, f.output)]
    toks += [str(len(f.attribute)), *map(hx, f.attribute)]
    toks += [str(len(used_order)), *map(hx, used_order)]
    toks += enc_opsets(f.opset_import)
    toks.append(str(len(f.node)))
    for n in f.node:
        toks += enc_node(n, lits)
    return " ".join(toks)


# --------------------------------------------------------------------------- canonical program from real text


class Unparsable(Exception):
    pass


def _lit_value(e: ast.AST):
    """Python value of a literal expression as the exporter renders inline constants."""
    if isinstance(e, ast.Constant):
        return e.value
    if isinstance(e, ast.Name) and e.id in ("nan", "inf"):
        return float(e.id)
    if isinstance(e, ast.UnaryOp) and isinstance(e.op, ast.USub):
        v = _lit_value(e.operand)
        return -v
    if isinstance(e, ast.List):
        return [_lit_value(x) for x in e.elts]
    raise Unparsable(ast.dump(e))


def _arg(e: ast.AST, lits: Lits) -> str:
    if isinstance(e, ast.Name) and e.id not in ("nan", "inf"):
        return e.id
    if isinstance(e, ast.Constant) and e.value is None:
        return "None"
    return lits.of_py(_lit_value(e))


_BIN = {ast.Add: "+", ast.Sub: "-", ast.Mult: "*", ast.MatMult: "@", ast.Div: "/", ast.Pow: "**", ast.BitAnd: "&", ast.BitOr: "|"}
_CMP = {ast.Gt: ">", ast.Eq: "==", ast.Lt: "<", ast.GtE: ">=", ast.LtE: "<="}


def _flatten_bin(e, lits):
    """`a + b` (and the left-nested `a + b + c` the exporter would print for 3 inputs)."""
    if (
        isinstance(e, ast.UnaryOp)
        and isinstance(e.op, ast.USub)
        and isinstance(e.operand, ast.BinOp)
        and isinstance(e.operand.op, ast.Pow)
    ):
        # the exporter printed `<negative literal> ** b`; Python reads it as -(lit ** b)
        left = ast.UnaryOp(op=ast.USub(), operand=e.operand.left)
        return "**", [_arg(left, lits), _arg(e.operand.right, lits)]
    if isinstance(e, ast.BinOp) and type(e.op) in _BIN:
        sym = _BIN[type(e.op)]
        left = _arg(e.left, lits)
        if sym == "**" and left.startswith("-"):
            # a negative literal as the base of ** can only have been printed in parentheses
            left = "(" + left + ")"
        return sym, [left, _arg(e.right, lits)]
    if isinstance(e, ast.Compare) and len(e.ops) == 1 and type(e.ops[0]) in _CMP:
        return _CMP[type(e.ops[0])], [_arg(e.left, lits), _arg(e.comparators[0], lits)]
    raise Unparsable(ast.dump(e))


def _stmts(body, depth, lits, out):
    for s in body:
        if isinstance(s, ast.Expr) and isinstance(s.value, ast.Constant) and isinstance(s.value.value, str):
            continue  # docstring
        if isinstance(s, ast.Assign):
            t = s.targets[0]
            outs = [x.id for x in t.elts] if isinstance(t, ast.Tuple) else [t.id]
            v = s.value
            if isinstance(v, ast.Call) and (
                (isinstance(v.func, ast.Attribute) and isinstance(v.func.value, ast.Name)) or isinstance(v.func, ast.Name)
            ):
                callee = f"{v.func.value.id}.{v.func.attr}" if isinstance(v.func, ast.Attribute) else v.func.id
                args = [_arg(a, lits) for a in v.args]
                kws = []
                for k in v.keywords:
                    if isinstance(k.value, ast.Name) and k.value.id not in ("nan", "inf"):
                        kws.append(f"{k.arg}=@{k.value.id}")
                    else:
                        kws.append(k.arg)
                out.append(f"L{depth} call {','.join(outs)} = {callee}({','.join(args)}|{','.join(kws)})")
            elif isinstance(v, ast.UnaryOp) and isinstance(v.op, ast.USub) and not isinstance(v.operand, ast.BinOp):
                # `x = -2.5`: a negative inlined constant on the right-hand side of an SSA-undoing assignment
                out.append(f"L{depth} assign {outs[0]} = {_arg(v, lits)}")
            elif isinstance(v, (ast.BinOp, ast.Compare, ast.UnaryOp)):
                sym, args = _flatten_bin(v, lits)
                out.append(f"L{depth} op {outs[0]} = {(' ' + sym + ' ').join(args)}")
            else:
                out.append(f"L{depth} assign {outs[0]} = {_arg(v, lits)}")
        elif isinstance(s, ast.If):
            out.append(f"L{depth} if {_arg(s.test, lits)}")
            _stmts(s.body, depth + 1, lits, out)
            out.append(f"L{depth} else")
            _stmts(s.orelse, depth + 1, lits, out)
        elif isinstance(s, ast.For):
            n = _arg(s.iter.args[0], lits)
            body = s.body
            b0 = body[0] if body else None
            if (
                isinstance(b0, ast.If)
                and isinstance(b0.test, ast.UnaryOp)
                and isinstance(b0.test.op, ast.Not)
                and len(b0.body) == 1
                and isinstance(b0.body[0], ast.Break)
            ):
                out.append(f"L{depth} forbreak {s.target.id} {n} {_arg(b0.test.operand, lits)}")
                body = body[1:]
            else:
                out.append(f"L{depth} for {s.target.id} {n}")
            bl = body[-1] if body else None
            if (isinstance(bl, ast.If) and isinstance(bl.test, ast.Name) and len(bl.body) == 1
                    and isinstance(bl.body[0], ast.Break) and not bl.orelse):
                # `for …: <body>; if c: break` (the form the converter accepts)
                _stmts(body[:-1], depth + 1, lits, out)
                out.append(f"L{depth + 1} breakif {bl.test.id}")
            else:
                _stmts(body, depth + 1, lits, out)
        elif isinstance(s, ast.While):
            out.append(f"L{depth} while {_arg(s.test, lits)}")
            _stmts(s.body, depth + 1, lits, out)
        elif isinstance(s, ast.Return):
            v = s.value
            names = [_arg(x, lits) for x in v.elts] if isinstance(v, ast.Tuple) else [_arg(v, lits)]
            out.append(f"L{depth} return {','.join(names)}")
        else:
            raise Unparsable(ast.dump(s)[:200])


def _is_script_fn(fd) -> bool:
    for d in fd.decorator_list:
        f = d.func if isinstance(d, ast.Call) else d
        if isinstance(f, ast.Name) and f.id == "script":
            return True
    return False


def canon_imports(src: str) -> str:
    """The opset import lines of the generated header: `alias` for `from onnxscript.onnx_opset import alias`,
    `alias=domain:version` for `alias = Opset('domain', version)`, in textual order."""
    out = []
    try:
        tree = ast.parse(src)
    except SyntaxError:
        tree = ast.parse(src.split("\n@script")[0].split("\n    @script")[0])
    for s in tree.body:
        if isinstance(s, ast.ImportFrom) and s.module == "onnxscript.onnx_opset":
            out += [a.name for a in s.names]
        elif (isinstance(s, ast.Assign) and isinstance(s.value, ast.Call) and isinstance(s.value.func, ast.Name)
              and s.value.func.id == "Opset" and len(s.value.args) == 2):
            out.append(f"{s.targets[0].id}={s.value.args[0].value}:{s.value.args[1].value}")
    return "imports " + ",".join(out)


def enc_imports(proto) -> str:
    fd = hx(proto.domain) if isinstance(proto, onnx.FunctionProto) else "-"
    toks = ["imports", fd, str(len(proto.opset_import))]
    for i in proto.opset_import:
        toks += [hx(i.domain), str(i.version)]
    return " ".join(toks)


def canon_program(src: str, lits: Lits) -> list[str]:
    """Canonical program lines of the (last) script function in the exporter's text."""
    depth = 1
    try:
        tree = ast.parse(src)
        top = tree.body
    except IndentationError:
        # skip_initializers without any skipped initializer: the function is printed one level deep
        # without the enclosing `make_model` (text is not valid Python); read it under a dummy block
        lines = src.split("\n")
        k = next((i for i, l in enumerate(lines) if l.startswith("    @script(")), None)
        if k is None:
            raise
        tree = ast.parse("\n".join(lines[:k] + ["if 1:"] + lines[k:]))
        top = [q for s in tree.body if isinstance(s, ast.If) for q in s.body]
        depth = 2
    out: list[str] = []
    targets: list = []  # (FunctionDef, enclosing make_model or None), in textual order
    for s in top:
        if isinstance(s, ast.FunctionDef) and _is_script_fn(s):
            targets.append((s, None))
        elif isinstance(s, ast.FunctionDef) and s.name == "make_model":
            for q in s.body:
                if isinstance(q, ast.FunctionDef) and _is_script_fn(q):
                    targets.append((q, s))
    if not targets:
        raise Unparsable("no script function")
    for idx, (target, wrap) in enumerate(targets):
        d = depth if idx == len(targets) - 1 else 1
        if wrap is not None:
            out.append("wrap " + ",".join(a.arg for a in wrap.args.args))
            d = 2
        plain, attrs = [], []
        for a in target.args.args:
            if isinstance(a.annotation, ast.Name) and a.annotation.id in ("float", "int", "str", "bool"):
                attrs.append(a.arg)
            elif isinstance(a.annotation, ast.Subscript) and isinstance(a.annotation.value, ast.Name) and a.annotation.value.id in ("Sequence", "List"):
                attrs.append(a.arg)
            else:
                plain.append(a.arg)
        # the decorator: `@script(<positional names>, <kw>=<name>)`
        deco_args = []
        for dd in target.decorator_list:
            if isinstance(dd, ast.Call) and isinstance(dd.func, ast.Name) and dd.func.id == "script":
                for a in dd.args:
                    deco_args.append(a.id if isinstance(a, ast.Name) else "?" + ast.dump(a)[:40])
                for k in dd.keywords:
                    deco_args.append(f"{k.arg}=" + (k.value.id if isinstance(k.value, ast.Name) else "?" + ast.dump(k.value)[:40]))
        out.append("deco " + ",".join(deco_args))
        out.append(f"sig {target.name}({','.join(plain)}|{','.join(attrs)})")
        _stmts(target.body, d, lits, out)
    return out


# --------------------------------------------------------------------------- executing the round trip

_modcount = 0


def exec_source(src: str, workdir: str):
    """Write the text to a real file, register the module, execute it.  Returns the module."""
    global _modcount
    _modcount += 1
    modname = f"ov_c13_{os.getpid()}_{_modcount}"
    path = os.path.join(workdir, modname + ".py")
    with open(path, "w") as fh:
        fh.write(src)
    spec = importlib.util.spec_from_file_location(modname, path)
    mod = importlib.util.module_from_spec(spec)
    sys.modules[modname] = mod
    try:
        spec.loader.exec_module(mod)
    except BaseException:
        sys.modules.pop(modname, None)
        raise
    return mod, modname


def release(modname: str) -> None:
    sys.modules.pop(modname, None)


def ort_run_many(model: onnx.ModelProto, feeds_list):
    """One session, several inputs."""
    import threading

    import onnxruntime as ort

    ort.set_default_logger_severity(4)
    so = ort.SessionOptions()
    so.graph_optimization_level = ort.GraphOptimizationLevel.ORT_DISABLE_ALL
    so.log_severity_level = 4
    so.intra_op_num_threads = 1
    sess = ort.InferenceSession(model.SerializeToString(), so, providers=["CPUExecutionProvider"])
    outs = []
    for feeds in feeds_list:
        ro = ort.RunOptions()
        ro.log_severity_level = 4

        def _stop(ro=ro):
            ro.terminate = True

        timer = threading.Timer(10.0, _stop)
        timer.start()
        try:
            outs.append(sess.run(None, feeds, ro))
        finally:
            timer.cancel()
    return outs


def ort_run(model: onnx.ModelProto, feeds: dict):
    import onnxruntime as ort

    ort.set_default_logger_severity(4)
    so = ort.SessionOptions()
    so.graph_optimization_level = ort.GraphOptimizationLevel.ORT_DISABLE_ALL
    so.log_severity_level = 4
    sess = ort.InferenceSession(model.SerializeToString(), so, providers=["CPUExecutionProvider"])
    ro = ort.RunOptions()
    ro.log_severity_level = 4
    import threading

    def _stop():
        ro.terminate = True

    timer = threading.Timer(10.0, _stop)  # a round-tripped while-loop that lost its exit must not hang the run
    timer.start()
    try:
        return sess.run(None, feeds, ro)
    finally:
        timer.cancel()


def type_sig(vi: onnx.ValueInfoProto):
    tt = vi.type.tensor_type
    shape = None
    if tt.HasField("shape"):
        shape = tuple(d.dim_value if d.HasField("dim_value") else (d.dim_param or None) for d in tt.shape.dim)
    return (tt.elem_type, shape)


def same_outputs(a, b) -> bool:
    if len(a) != len(b):
        return False
    for x, y in zip(a, b):
        x, y = np.asarray(x), np.asarray(y)
        if x.dtype != y.dtype or x.shape != y.shape:
            return False
        if not np.array_equal(x, y, equal_nan=(x.dtype.kind == "f")):
            return False
    return True
