"""Record the FIRST-RUN outcome of a round of seeds, measured from a frozen snapshot of /verif.

usage: python harness/seedfirst.py <snapshot-dir> <round> [<seed-id> …]
Reads <snapshot>/seeded/<id>/result.json (written by the snapshot's own harness/seedrun.py), stores it as
seeded/<id>/first_run.json here and appends the classification to meta.json coordinator_note in the wording
harness/mkdesign.py counts.
"""
import json
import shutil
import sys
from pathlib import Path

V = Path(__file__).resolve().parent.parent


def main():
    snap, rnd = Path(sys.argv[1]), int(sys.argv[2])
    ids = sys.argv[3:] or sorted(p.name for p in (snap / "seeded").iterdir() if (p / "result.json").exists())
    for sid in ids:
        mp = V / "seeded" / sid / "meta.json"
        rp = snap / "seeded" / sid / "result.json"
        if not (mp.exists() and rp.exists()):
            continue
        m = json.loads(mp.read_text())
        if m.get("round") != rnd:
            continue
        r = json.loads(rp.read_text())
        shutil.copy(rp, V / "seeded" / sid / "first_run.json")
        viol = [l for l in r.get("lines", []) if l.startswith("VIOLATION")]
        if r["exit"] == 1 and viol and "no-failing-input-found" in viol[0]:
            text = f"round {rnd}, first run: tie only (no-failing-input-found)."
        elif r["exit"] == 1 and viol:
            text = f"round {rnd}, first run: detected with concrete input."
        elif r["exit"] == 0:
            text = f"round {rnd}, first run: MISSED (exit 0)."
        else:
            text = f"round {rnd}, first run: EXIT {r['exit']} (INFRA, counted as a miss)."
        old = m.get("coordinator_note", "")
        if f"round {rnd}, first run" not in old:
            m["coordinator_note"] = (old + " " + text).strip()
            mp.write_text(json.dumps(m, indent=1))
        print(sid, text)


if __name__ == "__main__":
    main()
