"""C15 translator, second table: the proto FIELDS behind the carriers.

For every field of ModelProto / GraphProto / NodeProto / FunctionProto in the *installed* onnx descriptors this
emits one row (message, field, number, carrier the harness' differ assigns it to, status), where status is measured
by a probe on the installed onnx_ir: the field is populated with a sample value on a small valid model and the
model goes through N = serialize_model ∘ deserialize_model once:

    carried    the value is in N(M) unchanged
    lost       the field is empty / unset in N(M)
    changed    present with another value
    unprobed   the sampler has no value for this field type (a field added by a newer onnx: needs attention)

`lean/OV/Gen/C15Fields.lean` is regenerated on every run; `OV.Props.C15Fields` proves by `decide +kernel` that the
Lean model's field→carrier map (`OV.C15.fieldCarrier`) is total on these rows and agrees with the differ, that the
GraphProto fields are exactly the `inGraph` carriers (what `graph.Clear(); graph.CopyFrom(..)` replaces), and that
every field is carried or is a *listed* known loss (finding C15-SPARSE) — a field newly dropped by the serde, or a
new proto field nobody mapped, breaks a theorem.
"""
from __future__ import annotations

import hashlib

import onnx
from google.protobuf.descriptor import FieldDescriptor as FD
from onnx import TensorProto as TP
from onnx import helper

from harness import c15_cmp, core

MESSAGES = ["ModelProto", "GraphProto", "NodeProto", "FunctionProto"]
PROBE_DOMAIN = "c15.probe"


def base_model() -> onnx.ModelProto:
    """Two schema-less nodes, one initializer, one unused model-local function with an intermediate value: every probed
    message has an instance.  ir_version = the newest the installed onnx knows (fields added in IR 10 / 11 are in range)."""
    n0 = helper.make_node("Probe", ["x", "w"], ["t"], name="n0", domain=PROBE_DOMAIN)
    n1 = helper.make_node("Probe", ["t", "w"], ["y"], name="n1", domain=PROBE_DOMAIN)
    w = helper.make_tensor("w", TP.FLOAT, [2], [1.0, 2.0])
    g = helper.make_graph([n0, n1], "g", [helper.make_tensor_value_info("x", TP.FLOAT, [2])],
                          [helper.make_tensor_value_info("y", TP.FLOAT, [2])], [w])
    fn = helper.make_function(PROBE_DOMAIN, "F", ["A"], ["B"],
                              [helper.make_node("Neg", ["A"], ["ft"], name="fn0"), helper.make_node("Neg", ["ft"], ["B"], name="fn1")],
                              [helper.make_opsetid("", 20)])
    m = helper.make_model(g, opset_imports=[helper.make_opsetid("", 20), helper.make_opsetid(PROBE_DOMAIN, 1)],
                          functions=[fn], ir_version=onnx.IR_VERSION)
    m.ClearField("producer_name")
    m.ClearField("producer_version")
    return m


def _sample_message(name: str):
    """A sample element for a message-typed field, or None (unprobed)."""
    if name == "StringStringEntryProto":
        return onnx.StringStringEntryProto(key="c15k", value="c15v")
    if name == "OperatorSetIdProto":
        return helper.make_opsetid("c15.extra", 3)
    if name == "TrainingInfoProto":
        t = onnx.TrainingInfoProto()
        t.algorithm.name = "alg"
        return t
    if name == "DeviceConfigurationProto":
        return onnx.DeviceConfigurationProto(name="dev", num_devices=2)
    if name == "NodeDeviceConfigurationProto":
        return onnx.NodeDeviceConfigurationProto(configuration_id="dev", pipeline_stage=1)
    if name == "SparseTensorProto":
        sp = onnx.SparseTensorProto()
        sp.values.CopyFrom(helper.make_tensor("sw", TP.FLOAT, [1], [3.0]))
        sp.indices.CopyFrom(helper.make_tensor("sw_idx", TP.INT64, [1], [1]))
        sp.dims.append(4)
        return sp
    if name == "TensorAnnotation":
        ta = onnx.TensorAnnotation(tensor_name="x")
        e = ta.quant_parameter_tensor_names.add()
        e.key, e.value = "SCALE_TENSOR", "w"
        return ta
    if name == "ValueInfoProto":
        return helper.make_tensor_value_info("c15_vi", TP.FLOAT, [2])
    if name == "TensorProto":
        return helper.make_tensor("c15_t", TP.FLOAT, [1], [5.0])
    if name == "AttributeProto":
        return helper.make_attribute("c15_attr", 3)
    if name == "NodeProto":
        return helper.make_node("Neg", ["A"], ["c15_o"], name="c15_n")
    return None


def _populate(inst, fd) -> str:
    """Give field `fd` of `inst` a non-default sample value unless the base already populates it.  Returns '' or 'unprobed'."""
    rep = c15_cmp._is_repeated(fd)
    cur = getattr(inst, fd.name)
    if rep and len(cur):
        return ""
    if not rep and fd.type != FD.TYPE_MESSAGE and inst.HasField(fd.name) and cur != fd.default_value:
        return ""
    if not rep and fd.type == FD.TYPE_MESSAGE and inst.HasField(fd.name):
        return ""
    if fd.type == FD.TYPE_MESSAGE:
        s = _sample_message(fd.message_type.name)
        if s is not None and fd.name == "value_info":  # an annotation of a value that exists (others are not values of the graph)
            s.name = "ft" if isinstance(inst, onnx.FunctionProto) else "t"
        if s is None:
            return "unprobed"
        if rep:
            cur.add().CopyFrom(s)
        else:
            cur.CopyFrom(s)
        return ""
    v = {FD.TYPE_STRING: "c15_" + fd.name, FD.TYPE_BYTES: b"c15", FD.TYPE_BOOL: True, FD.TYPE_FLOAT: 1.5, FD.TYPE_DOUBLE: 1.5}.get(fd.type, 7)
    if fd.type == FD.TYPE_ENUM:
        v = fd.enum_type.values[-1].number
    if rep:
        cur.append(v)
    else:
        setattr(inst, fd.name, v)
    return ""


def _instance(m: onnx.ModelProto, msg: str):
    if msg == "ModelProto":
        return m
    if msg == "GraphProto":
        return m.graph
    if msg == "NodeProto":
        return m.graph.node[0] if len(m.graph.node) else None
    return m.functions[0] if len(m.functions) else None


def _status(before, after, fd) -> str:
    if after is None:
        return "lost"
    a, b = getattr(before, fd.name), getattr(after, fd.name)
    if c15_cmp._is_repeated(fd):
        if len(a) and not len(b):
            return "lost"
        ser = (lambda e: e.SerializeToString(deterministic=True)) if fd.type == FD.TYPE_MESSAGE else (lambda e: repr(e).encode())
        have = [ser(e) for e in b]
        return "carried" if all(ser(e) in have for e in a) else "changed"
    if not after.HasField(fd.name):
        return "lost"
    if fd.type == FD.TYPE_MESSAGE:
        bad = [d for d in c15_cmp.hard(c15_cmp.diff(a, b)) if d[1] in ("lost", "changed")]
        return "carried" if not bad else "changed"
    return "carried" if a == b else "changed"


def carrier_of(msg: str, field: str) -> str:
    if msg == "ModelProto":
        return "<graph>" if field == "graph" else c15_cmp.carrier_of_path(field)
    if msg == "GraphProto":
        return c15_cmp.carrier_of_path("graph." + field)
    return "nodes" if msg == "NodeProto" else "functions"


def probe() -> list:
    from onnxscript import ir

    rows = []
    for msg in MESSAGES:
        desc = getattr(onnx, msg).DESCRIPTOR
        for fd in desc.fields:
            m = base_model()
            inst = _instance(m, msg)
            st = _populate(inst, fd)
            if not st:
                try:
                    nm = ir.serde.serialize_model(ir.serde.deserialize_model(m))
                    st = _status(inst, _instance(nm, msg), fd)
                except Exception as e:  # noqa: BLE001
                    st = "refused:" + type(e).__name__
            rows.append({"msg": msg, "field": fd.name, "number": fd.number, "repeated": bool(c15_cmp._is_repeated(fd)),
                         "carrier": carrier_of(msg, fd.name), "status": st})
    return rows


def lean_text(rows: list) -> str:
    q = lambda s: '"' + s.replace("\\", "\\\\").replace('"', '\\"') + '"'
    L = ["/-! GENERATED by harness/c15_fields.py from the installed onnx descriptors + a probe of onnx_ir's serde — do not edit. -/",
         "namespace OV.Gen.C15Fields", "",
         "/-- One proto field: message, field name, field number, repeated?, the carrier the harness' differ files it under,",
         "and what one trip through `serialize_model ∘ deserialize_model` does to a populated sample of it. -/",
         "structure Row where\n  msg : String\n  field : String\n  number : Nat\n  repeated : Bool\n  carrier : String\n  status : String\n  deriving DecidableEq, Repr",
         "", "def rows : List Row := ["]
    L.append(",\n".join(f"  ⟨{q(r['msg'])}, {q(r['field'])}, {r['number']}, {'true' if r['repeated'] else 'false'}, {q(r['carrier'])}, {q(r['status'])}⟩" for r in rows))
    L += ["]", "", "end OV.Gen.C15Fields"]
    return "\n".join(L) + "\n"


def regenerate() -> dict:
    rows = probe()
    text = lean_text(rows)
    p = core.LEAN / "OV" / "Gen" / "C15Fields.lean"
    p.parent.mkdir(exist_ok=True)
    if not p.exists() or p.read_text() != text:
        with core.lake_lock():
            p.write_text(text)
    return {"rows": rows, "sha": hashlib.sha1(text.encode()).hexdigest()[:12]}


if __name__ == "__main__":
    import sys

    sys.stdout.write(lean_text(probe()))
