"""Run a property's check against each kept seeded change (seeded/<id>/patch.diff) in a scratch worktree.

usage: python harness/seedrun.py [<seed-id> …]     (default: all)
Writes seeded/<id>/result.json {exit, violation_line, wall_s}.  Never touches /repo's working tree.
"""
import json
import os
import subprocess
import sys
import time
from pathlib import Path

V = Path(__file__).resolve().parent.parent


def run(seed: Path) -> dict:
    meta = json.loads((seed / "meta.json").read_text())
    prop = meta["property"]
    wt = f"/tmp/seedrun_{seed.name}_{os.getpid()}"
    subprocess.run(["git", "-C", "/repo", "worktree", "add", "-q", "--detach", wt, "HEAD"], check=True)
    try:
        subprocess.run(["git", "-C", wt, "apply", str(seed / "patch.diff")], check=True)
        t0 = time.time()
        env = dict(os.environ, VERIF_REPO=wt, VERIF_EVIDENCE_DIR=f"{wt}/_evidence")
        p = subprocess.run([str(V / "check"), prop, "--tier", "quick"], cwd=V, env=env, capture_output=True, text=True)
        allv = [l for l in p.stdout.splitlines() if l.startswith("VIOLATION")]
        lines = allv + [l for l in p.stdout.splitlines() if l.startswith("KNOWN-FINDING")]
        detail = [l for l in p.stdout.splitlines() if l.startswith("  ")][:2]
        res = {"property": prop, "exit": p.returncode, "lines": lines[:6], "detail": detail, "wall_s": round(time.time() - t0, 1)}
        if p.returncode not in (0, 1):
            res["tail"] = (p.stdout + "\n" + p.stderr).splitlines()[-8:]
    finally:
        subprocess.run(["git", "-C", "/repo", "worktree", "remove", "--force", wt])
    (seed / "result.json").write_text(json.dumps(res, indent=1))
    return res


if __name__ == "__main__":
    ids = sys.argv[1:] or sorted(p.name for p in (V / "seeded").iterdir() if (p / "patch.diff").exists())
    for i in ids:
        try:
            r = run(V / "seeded" / i)
        except Exception as e:  # e.g. the patch no longer applies: needs a rebase
            print(i, "ERROR", str(e)[:200])
            continue
        print(i, r["exit"], (r["lines"] or ["-"])[0][:160], "|", (r["detail"] or [""])[0][:200])
