"""C08 translator: trace every covered torch_lib function on a fixed, deterministic grid of
rank / argument classes and write the emitted dataflow terms to lean/OV/Gen/C08Trace.lean.

Each row pairs the *model's* term (a Lean expression calling `OV.C08.<f>.term` with the row's
arguments) with the term the real code emitted just now.  `OV.Props.C08Trace.traces_match_models`
closes `∀ row ∈ traceTable, row.1 = row.2` by `decide +kernel`: a changed trace-time branch, a
dropped Cast, a different axis constant, a different attribute make the kernel reject the table.
"""
from __future__ import annotations

import random

from harness import core

GRID_SEED = 20260924
ROWS_PER_FN = 10
CHUNK = 32


def li(x) -> str:
    x = int(x)
    return f"({x})" if x < 0 else str(x)


def lints(l) -> str:
    return "([" + ", ".join(li(x) for x in l) + "] : List Int)"


def lopt(x) -> str:
    return "none" if x is None else f"(some {li(x)})"


def loptl(x) -> str:
    return "none" if x is None else f"(some {lints(x)})"


def lcast(c) -> str:
    return "none" if c.get("cast") is None else f"(some {c['cast']})"


def lil(a) -> str:
    if isinstance(a, int):
        return f"(OV.C08.IntOrList.int {li(a)})"
    return f"(OV.C08.IntOrList.list {lints(a)})"


def lb(b) -> str:
    return "true" if b else "false"


def lshape(s) -> str:
    return "([" + ", ".join(str(int(d)) for d in s) + "] : List Nat)"


def joined(expr: str) -> str:
    return f'(" || ".intercalate ({expr}))'


def lean_term_expr(name: str, c: dict) -> str | None:
    r = len(c["shape"]) if "shape" in c else None
    P = "OV.C08."
    if name == "flatten":
        return f"{P}flatten.term {lshape(c['shape'])} {li(c['a'])} {li(c['b'])}"
    if name == "unflatten":
        return f"{P}unflatten.term {lshape(c['shape'])} {li(c['dim'])} {lints(c['sizes'])}"
    if name == "view":
        return f"{P}view.term {lints(c['size'])}"
    if name == "reshape":
        return f"{P}reshape_.term {lints(c['size'])}"
    if name == "permute":
        return f"{P}permute.term {lints(c['dims'])}"
    if name == "transpose":
        return f"{P}transpose.term {r} {li(c['a'])} {li(c['b'])}"
    if name == "t":
        return f"{P}t.term {r}"
    if name == "squeeze":
        return f"{P}squeeze.term"
    if name == "squeeze_dim":
        return f"{P}squeeze_dim.term {lshape(c['shape'])} {li(c['dim'])}"
    if name == "unsqueeze":
        return f"{P}unsqueeze.term {li(c['dim'])}"
    if name == "expand":
        return f"{P}expand.term {lints(c['size'])}"
    if name == "broadcast_to":
        return f"{P}broadcast_to.term {lints(c['size'])}"
    if name == "slice":
        return f"{P}slice.term {li(c['dim'])} {lopt(c['start'])} {lopt(c['end'])} {lopt(c['step'])}"
    if name == "narrow":
        return f"{P}narrow.term {lshape(c['shape'])} {lb(c.get('tensor_args'))} {li(c['dim'])} {li(c['start'])} {li(c['length'])}"
    if name == "select":
        return f"{P}select.term {li(c['dim'])} {li(c['index'])}"
    if name == "index_select":
        return f"{P}index_select.term {r} {li(c['dim'])}"
    if name in ("chunk", "split"):
        sp = c["shape"]
        d = c["dim"]
        if not (-len(sp) <= d < len(sp)):
            return None
        dd = sp[d % len(sp)]
        if name == "chunk":
            return joined(f"{P}chunk.term {dd} {c['chunks']} {li(d)}")
        return f"{P}split.term {dd} {li(c['size'])} {li(d)}"
    if name == "split_with_sizes":
        return f"{P}split_with_sizes.term {lints(c['sizes'])} {li(c['dim'])}"
    if name == "unbind":
        s = c["shape"]
        d = c["dim"]
        if not (-len(s) <= d < len(s)):
            return None
        return joined(f"{P}unbind.term {s[d % len(s)]} {li(d)}")
    if name == "flip":
        return f"{P}flip.term {lints(c['dims'])}"
    if name == "roll":
        return f"{P}roll.term {lshape(c['shape'])} {lints(c['shifts'])} {lints(c['dims'])}"
    if name == "tril":
        return f"{P}trilu.term false {li(c['k'])}"
    if name == "triu":
        return f"{P}trilu.term true {li(c['k'])}"
    if name == "repeat":
        return f"{P}repeat_.term {lints(c['reps'])}"
    if name == "tile":
        return f"{P}tile.term {r} {lints(c['dims'])}"
    if name == "stack":
        return f"{P}stack.term {len(c['shapes'])} {li(c['dim'])}"
    if name == "cat":
        return f"{P}cat.term ([{', '.join(lshape(s) for s in c['shapes'])}] : List (List Nat)) {li(c['dim'])}"
    if name == "sum":
        return f"{P}sum.term {r} {lcast(c)}"
    if name == "sum_dim":
        return f"{P}sum_dim.term {r} {loptl(c['dims'])} {lb(c['keep'])} {lcast(c)}"
    if name == "mean_dim":
        return f"{P}mean_dim.term {r} {lints(c['dims'])} {lb(c['keep'])} {lcast(c)}"
    if name in ("amax", "amin"):
        return f'{P}amax.term "aten_{name}" {lints(c["dims"])} {lb(c["keep"])}'
    if name in ("all", "any"):
        return f'{P}all_.term "{"ReduceMin" if name == "all" else "ReduceMax"}" {r}'
    if name in ("all_dim", "any_dim"):
        return f'{P}all_dim.term "{"ReduceMin" if name == "all_dim" else "ReduceMax"}" {li(c["dim"])} {lb(c["keep"])}'
    if name in ("all_dims", "any_dims"):
        return f'{P}all_dims.term "{"ReduceMin" if name == "all_dims" else "ReduceMax"}" {r} {loptl(c["dims"])} {lb(c["keep"])}'
    if name in ("argmax", "argmin"):
        return f'{P}argmax.term "{"ArgMax" if name == "argmax" else "ArgMin"}" {r} {lopt(c["dim"])} {lb(c["keep"])}'
    if name == "prod":
        return f"{P}prod.term {lb(c['dtype'] in ('i64', 'i32', 'u8'))} {lcast(c)}"
    if name == "prod_dim":
        return f"{P}prod_dim.term {r} {li(c['dim'])} {lb(c['keep'])} {lcast(c)}"
    if name == "cumsum":
        cast = "none" if c.get("cast") is None else f"(some {c['cast']})"
        return f"{P}cumsum.term {r} {li(c['dim'])} {cast}"
    if name.startswith("avg_pool"):
        return f"{P}avg_pool.term {c['k']} {r} {lil(c['ks'])} {lil(c['st'])} {lil(c['pad'])} {lb(c['ceil'])} {lb(c['cip'])}"
    if name.startswith("max_pool"):
        if c.get("wi"):
            return f"{P}max_pool.termWithIndices {c['k']} {lil(c['ks'])} {lil(c['st'])} {lil(c['pad'])} {lil(c['dil'])} {lb(c['ceil'])}"
        return f"{P}max_pool.term {c['k']} {r} {lil(c['ks'])} {lil(c['st'])} {lil(c['pad'])} {lil(c['dil'])} {lb(c['ceil'])}"
    if name in ("conv1d", "conv2d", "conv3d"):
        return (f"{P}convnd.term {lshape(c['shape'])} {lshape(c['w'])} {lb(c['bias'])} {lints(c['st'])} {lints(c['pad'])} "
                f"{lints(c['dil'])} {c['g']}")
    if name == "convolution":
        return (f"{P}conv.term {lshape(c['shape'])} {lshape(c['w'])} {lil(c['st'])} {lil(c['pad'])} {lil(c['dil'])} "
                f"{lb(c['tr'])} {lints(c['op'])} {c['g']}")
    if name in ("add", "sub", "add_scalar", "sub_scalar"):
        other = '"x1"' if name in ("add", "sub") else f"(OV.C08.halfStr OV.C08.DC.{c['dtype2']} {li(c['other2'])})"
        return f"{P}addsub.term {lb(name.startswith('add'))} OV.C08.DC.{c['dtype2']} {other} {li(c['alpha2'])}"
    if name == "clamp":
        return f"{P}clamp.term OV.C08.DC.{c['dtype2']} {lopt(c['lo2'])} {lopt(c['hi2'])}"
    if name == "clamp_tensor":
        return f"{P}clamp.termTensor {lb(c['lo'] is not None)} {lb(c['hi'] is not None)}"
    if name.startswith("create_"):
        dt = "none" if c["cdt"] is None else f"(some OV.C08.DC.{c['cdt']})"
        k = name[7:]
        fn = {"full": "termFull", "zeros": "termZeros", "new_full": "termNewFull", "new_zeros": "termNewZeros"}.get(k)
        if fn:
            return f"{P}creation.{fn} {lints(c['size'])} {dt}"
        fill = {"full_like": "7", "zeros_like": "0", "ones_like": "1"}[k]
        return f'{P}creation.termLike "{fill}" {dt}'
    if name in ("mm", "bmm", "mv", "dot", "matmul"):
        return f"{P}matmul.term"
    if name in ("max_dim", "min_dim"):
        red, arg = ("ReduceMax", "ArgMax") if name == "max_dim" else ("ReduceMin", "ArgMin")
        return f'{P}max_dim.term "{red}" "{arg}" {r} {li(c["dim"])} {lb(c["keep"])}'
    if name == "logsumexp":
        return f"{P}logsumexp.term {r} {lints(c['dims'])} {lb(c['keep'])}"
    if name == "logcumsumexp":
        return f"{P}logcumsumexp.term {r} {li(c['dim'])}"
    if name == "embedding":
        return f"{P}embedding.term"
    if name in ("scatter_src", "scatter_add"):
        return f"{P}scatter.term {lb(name == 'scatter_add')} {lshape(c['idx_shape'])} {lshape(c['src'])} {li(c['dim'])}"
    if name == "pixel_shuffle":
        return f"{P}pixel_shuffle.term {lshape(c['shape'])} {li(c['factor'])}"
    if name == "pixel_unshuffle":
        return f"{P}pixel_unshuffle.term {li(c['factor'])}"
    if name in ("softmax", "_softmax", "_log_softmax"):
        kind = {"softmax": 0, "_softmax": 1, "_log_softmax": 2}[name]
        co = "none" if c.get("cast_out") is None else f"(some {c['cast_out']})"
        return f"{P}softmax.term {kind} {r} {li(c['dim'])} {lb(c['cast_in'])} {co}"
    if name == "linear":
        return f"{P}linear.term {r} {len(c['w'])} {lb(c['bias'] is not None)}"
    if name == "vector_norm":
        o = c["ord"]
        lo = "OV.C08.vector_norm.Ord.posInf" if o == "inf" else "OV.C08.vector_norm.Ord.negInf" if o == "-inf" else f"(OV.C08.vector_norm.Ord.int {li(o)})"
        return f"{P}vector_norm.term {r} {lo} {loptl(c['dims'])} {lb(c['keep'])}"
    if name == "gather":
        return f"{P}gather.term {r} {len(c['idx_shape'])} {li(c['dim'])}"
    if name == "repeat_interleave":
        return f"{P}repeat_interleave.term {lshape(c['shape'])} {li(c['reps'])} {lopt(c['dim'])}"
    if name == "select_scatter":
        return f"{P}select_scatter.term {li(c['dim'])} {li(c['index'])}"
    if name == "slice_scatter":
        return f"{P}slice_scatter.term {r} {li(c['dim'])} {lopt(c['start'])} {lopt(c['end'])} {li(c['step'])}"
    if name in ("layer_norm", "native_layer_norm"):
        return f"{P}layer_norm.term {lb(name == 'native_layer_norm')} {len(c['ns'])} {lb(c['w'] is not None)} {lb(c['b'] is not None)}"
    if name == "sort":
        return f"{P}sort.term {r} {li(c['dim'])} {lb(c['desc'])}"
    if name == "addmm":
        return f"{P}addmm.term {li(c['alpha'])} {li(c['beta'])}"
    if name == "baddbmm":
        return f"{P}baddbmm.term {lopt(c['alpha'])} {lopt(c['beta'])}"
    if name == "glu":
        return f"{P}glu.term {li(c['dim'])}"
    if name.startswith("atleast_"):
        return f"{P}atleast.term {name[8]} {r}"
    if name == "topk":
        return f"{P}topk.term {li(c['k'])} {li(c['dim'])} {lb(c['largest'])} {lb(c['sorted'])}"
    if name == "unfold":
        return f"{P}unfold_.term {r} {li(c['dim'])} {li(c['size'])} {li(c['step'])}"
    if name.startswith("upsample"):
        sc = None if c["mode"] == "linear" else c["sc"]
        return f'{P}upsample.term {lints(c["out"])} {loptl(sc)} "{c["mode"]}" "{c["ctm"]}"'
    if name == "col2im":
        return f"{P}col2im.term {lints(c['out'])} {lints(c['ks'])} {lints(c['dil'])} {lints(c['pad'])} {lints(c['st'])}"
    if name == "im2col":
        return f"{P}im2col.term {lints(c['ks'])} {lints(c['dil'])} {lints(c['pad'])} {lints(c['st'])}"
    if name == "constant_pad_nd":
        return f'{P}pad.termConst {r} {lints(c["pad"])} "1.5:FLOAT"'
    if name in ("pad", "reflection_pad1d", "reflection_pad2d", "replication_pad2d"):
        mode = c["mode"]
        if mode == "constant":
            return f'{P}pad.termMode {r} {lints(c["pad"])} "constant"'
        return f'{P}pad.termMode {r} {lints(c["pad"])} "{ {"reflect": "reflect", "replicate": "edge", "circular": "wrap"}[mode] }"'
    return None


def lstr(s: str) -> str:
    return '"' + s.replace("\\", "\\\\").replace('"', '\\"') + '"'


def build_rows(table_b: bool = False):
    """table_b=False: the table of rounds 1-4 (every family outside c08_cases.TABLE_B, plus the integer-arithmetic rows);
    table_b=True: the round-5 families only (OV.Gen.C08TraceB*, importing OV.Model.C08Norm only)."""
    from harness import c08_cases, c08_lib as L

    FAM = c08_cases.FAMILIES
    core_mod = L._mods()["core"]
    rows = []
    skipped = 0
    for name in sorted(n for n in FAM if (n in c08_cases.TABLE_B) == table_b):
        rng = random.Random(f"{GRID_SEED}:{name}")
        seen = set()
        tries = 0
        while len(seen) < ROWS_PER_FN and tries < ROWS_PER_FN * 6:
            tries += 1
            c = FAM[name]["gen"](rng)
            expr = lean_term_expr(name, c)
            if expr is None or expr in seen:
                continue
            fn = L.find_fn(FAM[name]["fnname"])
            args, kwargs = FAM[name]["call"](c)
            try:
                model, feeds, outs, _ = L.trace(fn, args, kwargs)
            except Exception:
                skipped += 1
                continue
            seen.add(expr)
            rows.append((name, expr, " || ".join(L.render_outputs(model, outs))))
    if table_b:
        return rows, skipped
    # integer-arithmetic terms (dtype classes)
    import numpy as np
    a = np.array([7, -7], dtype=np.int64)
    for fnname, args, expr in [
        ("aten_floor_divide", [a, a], 'OV.C08.IntArith.floorDivideTerm "i64"'),
        ("aten_floor_divide", [a.astype(np.int32), a.astype(np.int32)], 'OV.C08.IntArith.floorDivideTerm "i32"'),
        ("aten_floor_divide", [a.astype(np.uint8), a.astype(np.uint8)], 'OV.C08.IntArith.floorDivideTerm "u8"'),
        ("aten_remainder", [a, a], '"Mod(x0,x1;fmod=0)"'),
        ("aten_fmod", [a, a], '"Mod(x0,x1;fmod=1)"'),
        ("aten_arange_start_step", [2, 9, 3], "OV.C08.arange.termStep 2 9 3 false"),
        ("aten_arange_start_step", [9, 2, -3], "OV.C08.arange.termStep 9 2 (-3) false"),
        ("aten_arange_start", [2, 7], "OV.C08.arange.termStart 2 7 false"),
        ("aten_arange", [5], "OV.C08.arange.termEnd 5 false"),
    ]:
        model, feeds, outs, _ = L.trace(getattr(core_mod, fnname), args, {})
        rows.append((fnname, expr, " || ".join(L.render_outputs(model, outs))))
    for fnname, args, kw, expr in [
        ("aten_arange", [5], {"dtype": 7}, "OV.C08.arange.termEnd 5 true"),
        ("aten_arange_start", [2, 7], {"dtype": 7}, "OV.C08.arange.termStart 2 7 true"),
        ("aten_arange_start_step", [2, 9, 3], {"dtype": 7}, "OV.C08.arange.termStep 2 9 3 true"),
    ]:
        model, feeds, outs, _ = L.trace(getattr(core_mod, fnname), args, kw)
        rows.append((fnname, expr, " || ".join(L.render_outputs(model, outs))))
    return rows, skipped


def regenerate() -> dict:
    rows, skipped = build_rows()
    chunks = [rows[i:i + CHUNK] for i in range(0, len(rows), CHUNK)]
    gen = core.LEAN / "OV" / "Gen"
    gen.mkdir(exist_ok=True)
    names = []
    for k, ch in enumerate(chunks):
        body = ["import OV.Model.C08View", "import OV.Model.C08Slice", "import OV.Model.C08Repl", "import OV.Model.C08Reduce",
                "import OV.Model.C08IntArith", "import OV.Model.C08Creation", "import OV.Model.C08Attr", "import OV.Model.C08Misc", "import OV.Model.C08Scalar", "import OV.Model.C08Linalg",
                "/-! GENERATED by harness/extract_torchlib.py from /repo's working tree — do not edit. -/",
                "namespace OV.Gen.C08Trace", "",
                f"/-- (model term, term emitted by the real torch_lib function) — chunk {k}. -/",
                f"def table{k} : List (String × String) := ["]
        body.append(",\n".join(f"  ({e},\n   {lstr(t)})" for _, e, t in ch))
        body += ["]", "",
                 f"/-- kernel-checked: every row's model term is the emitted term (chunks build in parallel). -/",
                 f"theorem ok{k} : ∀ e ∈ table{k}, e.1 = e.2 := by decide +kernel", "",
                 "end OV.Gen.C08Trace", ""]
        text = "\n".join(body)
        p = gen / f"C08Trace{k}.lean"
        if not p.exists() or p.read_text() != text:
            p.write_text(text)
        names.append(f"C08Trace{k}")
    for p in gen.glob("C08Trace*.lean"):
        if p.stem not in names and p.stem != "C08Trace" and not p.stem.startswith("C08TraceB"):
            p.unlink()
    n = len(chunks)
    root = "\n".join([f"import OV.Gen.{nm}" for nm in names] + [
        "/-! GENERATED — the whole trace table. -/", "namespace OV.Gen.C08Trace",
        "def traceTable : List (String × String) := " + " ++ (".join(f"table{k}" for k in range(n)) + ")" * (n - 1),
        f"def nRows : Nat := {len(rows)}", "",
        "theorem ok_all : ∀ e ∈ traceTable, e.1 = e.2 := by",
        "  intro e he",
        "  simp only [traceTable, List.mem_append] at he",
        "  rcases he with " + " | ".join(["he"] * n) if n > 1 else "  skip",
        "  all_goals first " + " ".join(f"| exact ok{k} e he" for k in range(n)),
        "end OV.Gen.C08Trace", ""])
    p = gen / "C08Trace.lean"
    if not p.exists() or p.read_text() != root:
        p.write_text(root)
    fns = sorted({nm for nm, _, _ in rows})
    info_b = regenerate_b()
    return {"rows": len(rows), "chunks": n, "functions": len(fns), "skipped_trace_errors": skipped, "table_b": info_b}


def regenerate_b() -> dict:
    """Second table (round-5 families): OV/Gen/C08TraceB{k}.lean + C08TraceB.lean, same row format and closing tactic."""
    rows, skipped = build_rows(table_b=True)
    chunks = [rows[i:i + CHUNK] for i in range(0, len(rows), CHUNK)]
    gen = core.LEAN / "OV" / "Gen"
    names = []
    for k, ch in enumerate(chunks):
        body = ["import OV.Model.C08Norm",
                "/-! GENERATED by harness/extract_torchlib.py from /repo's working tree — do not edit. -/",
                "namespace OV.Gen.C08TraceB", "",
                f"/-- (model term, term emitted by the real torch_lib function) — second table, chunk {k}. -/",
                f"def table{k} : List (String × String) := ["]
        body.append(",\n".join(f"  ({e},\n   {lstr(t)})" for _, e, t in ch))
        body += ["]", "", f"theorem ok{k} : ∀ e ∈ table{k}, e.1 = e.2 := by decide +kernel", "", "end OV.Gen.C08TraceB", ""]
        text = "\n".join(body)
        p = gen / f"C08TraceB{k}.lean"
        if not p.exists() or p.read_text() != text:
            p.write_text(text)
        names.append(f"C08TraceB{k}")
    for p in gen.glob("C08TraceB*.lean"):
        if p.stem not in names and p.stem != "C08TraceB":
            p.unlink()
    n = len(chunks)
    root = "\n".join([f"import OV.Gen.{nm}" for nm in names] + [
        "/-! GENERATED — the second trace table (round-5 families). -/", "namespace OV.Gen.C08TraceB",
        "def traceTable : List (String × String) := " + " ++ (".join(f"table{k}" for k in range(n)) + ")" * (n - 1),
        f"def nRows : Nat := {len(rows)}", "",
        "theorem ok_all : ∀ e ∈ traceTable, e.1 = e.2 := by",
        "  intro e he",
        "  simp only [traceTable, List.mem_append] at he",
        "  rcases he with " + " | ".join(["he"] * n) if n > 1 else "  skip",
        "  all_goals first " + " ".join(f"| exact ok{k} e he" for k in range(n)),
        "end OV.Gen.C08TraceB", ""])
    p = gen / "C08TraceB.lean"
    if not p.exists() or p.read_text() != root:
        p.write_text(root)
    return {"rows": len(rows), "chunks": n, "functions": len({nm for nm, _, _ in rows}), "skipped_trace_errors": skipped}


if __name__ == "__main__":
    print(regenerate())
