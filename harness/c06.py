"""C06 — the pattern matcher reports a match exactly when the subgraph is an instance.

Proof obligations: lean/OV/Props/C06.lean (models: OV/Model/C06Pattern, C06Match, C06Spec, C06Commute).
Tie: correspondence, three voices.  Every generated (pattern, host graph, root, remove_nodes) goes through
  * the real `onnxscript.rewriter.pattern.Pattern.match` (pattern built with the public pattern API),
  * `patternMatch` — the Lean transcription of SimplePatternMatcher + Pattern.match post-processing,
  * `solve` — the exhaustive instance search defining the property's meaning (the oracle),
and truthiness / bindings / nodes / outputs are compared.  `GraphPattern.commute()` is compared with the
Lean `commute` variant by variant.
"""
from __future__ import annotations

import json
import multiprocessing as mp
import os
import subprocess
import time
from collections import Counter

from harness import c06_gen as G
from harness import c06_lib as L
from harness import core

PROP_MODULES = ["OV.Props.C06"]
CORPUS = core.VERIF / "harness" / "corpus_c06.jsonl"
_DRV_PATH = None

# --------------------------------------------------------------------------- features / predicates


def walk_vpats(p):
    """yield (vpat, context) for every value-pattern occurrence; context = 'alt' inside a BacktrackingOr"""

    def rec(v, ctx):
        yield v, ctx
        if v[0] == "OR":
            inner = ctx if L.or_is_dispatch(v, p) else "alt"
            for a in v[5]:
                yield from rec(a, inner)

    for n in p["nodes"]:
        for i in n["inputs"]:
            if i is not None:
                yield from rec(i, "top")
    for o in p["outputs"]:
        yield from rec(o, "out")


def has_backtracking_or(p) -> bool:
    return any(v[0] == "OR" and not L.or_is_dispatch(v, p) for v, _ in walk_vpats(p))


def has_tagged_dispatch(p) -> bool:
    """the pattern is outside `backOk`: some OpIdDispatchOr has a tag variable"""
    return any(v[0] == "OR" and v[3] and L.or_is_dispatch(v, p) for v, _ in walk_vpats(p))


def has_or(p) -> bool:
    return any(v[0] == "OR" for v, _ in walk_vpats(p))


def _strmatch(sp, s):
    return s == sp[1] if sp[0] == "e" else s.startswith(sp[1])


def pred_extra_outputs(case) -> bool:
    """some pattern node asks for more outputs than a host node with a matching operator has"""
    for n in case["pattern"]["nodes"]:
        for h in case["graph"]["nodes"]:
            if _strmatch(n["op"], h["op"]) and _strmatch(n["dom"], h["dom"]) and len(n["outputs"]) > len(h["outputs"]):
                return True
    return False


def pred_named_var_check(case) -> bool:
    """a *named* Var carries a check that fails (checks only run for unnamed value patterns)"""
    return any(v[0] == "V" and v[2] is not None and v[4] is False for v, _ in walk_vpats(case["pattern"]))


def nodes_reachable_in_alt(p):
    """node patterns reachable from inside a BacktrackingOr alternative"""
    out = set()

    def node(np_i):
        if np_i in out:
            return
        out.add(np_i)
        for i in p["nodes"][np_i]["inputs"]:
            if i is not None:
                val(i)

    def val(v):
        if v[0] == "O":
            node(v[1])
        elif v[0] == "OR":
            for a in v[5]:
                val(a)

    for v, ctx in walk_vpats(p):
        if ctx == "alt" and v[0] == "O":
            node(v[1])
    return out


def pred_check_in_alt(case) -> bool:
    """a failing node/value check sits inside a BacktrackingOr alternative (merge drops node/value bindings)"""
    p = case["pattern"]
    inner = nodes_reachable_in_alt(p)
    if any(p["nodes"][i].get("check") is False for i in inner):
        return True

    def bad(v):
        if (v[0] == "V" and v[4] is False) or (v[0] == "W" and v[2] is False):
            return True
        return v[0] == "OR" and any(bad(a) for a in v[5])

    for i in inner:
        if any(v is not None and bad(v) for v in p["nodes"][i]["inputs"]):
            return True
    return any(ctx == "alt" and bad(v) for v, ctx in walk_vpats(p))


def pred_alt_node_shared(case) -> bool:
    """a node pattern (or unnamed value pattern) matched inside a BacktrackingOr alternative is referenced
    again: its binding was dropped by merge, so it is re-matched, possibly against another node"""
    p = case["pattern"]
    inner = nodes_reachable_in_alt(p)
    refs = Counter()
    for v, _ in walk_vpats(p):
        if v[0] == "O":
            refs[v[1]] += 1
    if any(refs[i] > 1 for i in inner):
        return True
    def is_leaf(v):
        return v[0] in ("K", "OR") or (v[0] == "V" and v[2] is None)

    total = Counter()
    in_alt = set()
    for v, ctx in walk_vpats(p):
        if is_leaf(v):
            total[v[1]] += 1
            if ctx == "alt":
                in_alt.add(v[1])

    def collect(v):
        if is_leaf(v):
            in_alt.add(v[1])
        if v[0] == "OR":
            for a in v[5]:
                collect(a)

    for i in inner:  # leaves in the inputs of node patterns matched inside an alternative
        for v in p["nodes"][i]["inputs"]:
            if v is not None:
                collect(v)
    return any(total[i] > 1 for i in in_alt)


def pred_prefix_multi(case) -> bool:
    """candidate lists of the output nodes after the first: (a) >= 2 of them without an operator identifier share
    one exhausted iterator; (b) the op-identifier filter includes the overload, which NodePattern.matches ignores"""
    p = case["pattern"]
    outs = []
    for o in p["outputs"]:
        if o[0] == "O" and o[1] not in outs:
            outs.append(o[1])
    if sum(1 for i in outs[1:] if L.op_identifier(p["nodes"][i]) is None) >= 2:
        return True
    for i in outs[1:]:
        n = p["nodes"][i]
        if L.op_identifier(n) is not None and any(
            h.get("ov") and h["op"] == n["op"][1] and h["dom"] == n["dom"][1] for h in case["graph"]["nodes"]
        ):
            return True
    return False


def pred_tagged_backtracking_or(case) -> bool:
    """a BacktrackingOr with a tag variable: binding the tag a second time with another value fails the
    sub-match and merge_current_match raises ValueError"""
    p = case["pattern"]
    return any(v[0] == "OR" and v[3] and not L.or_is_dispatch(v, p) for v, _ in walk_vpats(p))


def pred_tagged_dispatch_in_alt(case) -> bool:
    """an OpIdDispatchOr with a tag variable is matched inside a BacktrackingOr alternative (directly, or in the
    inputs of a node pattern reached from one): _match_value ignores the result of bind(tag_var, i), so a clash
    leaves the sub-match failed while True is returned, and merge_current_match raises ValueError (finding C06-F9)"""
    p = case["pattern"]

    def tagged(v):
        if v[0] != "OR":
            return False
        if v[3] and L.or_is_dispatch(v, p):
            return True
        return any(tagged(a) for a in v[5])

    for i in nodes_reachable_in_alt(p):
        if any(v is not None and tagged(v) for v in p["nodes"][i]["inputs"]):
            return True
    return any(ctx == "alt" and v[0] == "OR" and v[3] and L.or_is_dispatch(v, p) for v, ctx in walk_vpats(p))


def pred_tagged_dispatch_and_backtracking(case) -> bool:
    """an OpIdDispatchOr with a tag variable and a BacktrackingOr in one pattern: after an ignored tag clash at top
    level the current partial match is failed while matching goes on; merging the next successful BacktrackingOr
    alternative into it raises NotImplementedError('Merging failed matches is not yet supported.') (C06-F9)"""
    p = case["pattern"]
    return has_backtracking_or(p) and any(
        v[0] == "OR" and v[3] and L.or_is_dispatch(v, p) for v, _ in walk_vpats(p))


def exception_explained(case, body: str) -> bool:
    """the real matcher raised where the model (which has no exception channel) goes on: open finding C06-F9, and
    the predicate of the repaired C06-F8 (a regression of F8 is caught by its probe)"""
    if body.startswith("EXC:ValueError"):
        return pred_tagged_backtracking_or(case) or pred_tagged_dispatch_in_alt(case)
    if body.startswith("EXC:NotImplementedError"):
        return pred_tagged_dispatch_and_backtracking(case)
    return False


def shared_tag_vars(p) -> bool:
    """some tag variable is used by two OR values, or is also the name of a value pattern"""
    seen = Counter()
    names = set()
    ids = set()
    for v, _ in walk_vpats(p):
        if v[0] == "OR":
            if v[3] and v[1] not in ids:
                seen[v[3]] += 1
            ids.add(v[1])
            if v[2]:
                names.add(v[2])
        elif v[0] == "V" and v[2]:
            names.add(v[2])
    return any(n > 1 or t in names for t, n in seen.items())


KNOWN = [
    # id, direction ("miss" = real reports no match although an instance exists; "bogus" = real reports a
    # match that is no instance), predicate
    ("C06-D11", "miss", lambda c: has_backtracking_or(c["pattern"])),
    ("C06-F5", "miss", pred_prefix_multi),
    ("C06-F2", "bogus", pred_named_var_check),
    ("C06-F3", "bogus", pred_check_in_alt),
    ("C06-F4", "bogus", pred_alt_node_shared),
    ("C06-F8", "exception:ValueError", pred_tagged_backtracking_or),
    ("C06-F9", "exception:ValueError", pred_tagged_dispatch_in_alt),
    ("C06-F9", "exception:NotImplementedError", pred_tagged_dispatch_and_backtracking),
]

# --------------------------------------------------------------------------- evaluation (worker side)


def _ask_driver(lines):
    p = subprocess.run([_DRV_PATH], input="".join("C06 " + l + "\n" for l in lines), capture_output=True, text=True,
                       timeout=1200)
    out = p.stdout.split("\n")
    if out and out[-1] == "":
        out.pop()
    if p.returncode != 0 or len(out) != len(lines):
        raise core.Infra(f"C06 driver failed rc={p.returncode} {len(out)}/{len(lines)}: {p.stderr[-300:]}")
    return out


def eval_cases(args):
    """Worker: run the three voices on a list of cases. Returns list of dicts (one per case)."""
    cases, do_commute = args
    res = []
    lines = []
    pcache: dict = {}
    cases_by_res: dict = {}
    for c in cases:
        key = L.dumps(c["pattern"])
        if key not in pcache:
            if len(pcache) > 2000:
                pcache.clear()
            try:
                pcache[key] = (L.build_pattern(c["pattern"]), L.enc_pattern(c["pattern"]))
            except Exception as e:  # noqa: BLE001 - generator produced something the API refuses
                pcache[key] = (None, f"BUILD-EXC:{type(e).__name__}:{e}")
        bp, pt = pcache[key]
        if bp is None:
            res.append({"refused": pt})
            continue
        bg = L.build_graph(c["graph"])
        gt = L.enc_graph(c["graph"])
        r = {"real": L.run_real(bp, bg, c["root"], c["rm"])}
        # `implx` = OV.C06.patternMatchX, the matcher with its exception channel (equal to `impl` = patternMatch
        # wherever it returns: theorem matchX_refines)
        lines.append(L.case_line("implx", c, pt, gt))
        lines.append(L.case_line("spec", c, pt, gt))
        if has_tagged_dispatch(c["pattern"]):
            # outside `backOk` no theorem relates the total model `patternMatch` (the subject of match_sound) to
            # `patternMatchX`: it is compared with the code as well, wherever the code returns
            r["want_pure"] = True
            lines.append(L.case_line("impl", c, pt, gt))
        if do_commute and c.get("commute"):
            r["real_commute"] = L.run_real_commute(bp, bg, c["root"], c["rm"], c["pattern"]["cond"])
            lines.append(L.case_line("commute", c, pt, gt))
            if L.commute_oracle_applies(c["pattern"]):
                # the property's oracle for commute: the instances of the pattern with operands swapped
                r["commute_spec"] = []
                for m in L.commute_masks(c["pattern"]):
                    lines.append(L.case_line("spec", c, L.enc_pattern(L.swapped_pattern(c["pattern"], m)), gt))
        if c.get("hist"):
            # the SAME Pattern object and the SAME ir.Graph object: edit in place, match again
            r["hist"] = []
            for st in c["hist"]:
                L.rebuild_in_place(bg, st["graph"])
                sub = {"pattern": c["pattern"], "graph": st["graph"], "root": st["root"], "rm": st["rm"]}
                r["hist"].append({"real": L.run_real(bp, bg, st["root"], st["rm"])})
                gt2 = L.enc_graph(st["graph"])
                lines.append(L.case_line("implx", sub, pt, gt2))
                lines.append(L.case_line("spec", sub, pt, gt2))
        cases_by_res[id(r)] = c
        res.append(r)
    outs = _ask_driver(lines) if lines else []
    k = 0
    for r in res:
        if "refused" in r:
            continue
        r["impl"] = outs[k]
        r["spec"] = outs[k + 1]
        k += 2
        if r.pop("want_pure", False):
            r["impl_pure"] = outs[k]
            k += 1
        if "real_commute" in r:
            r["commute"] = outs[k]
            k += 1
            if "commute_spec" in r:
                nm = len(L.commute_masks(cases_by_res[id(r)]["pattern"]))
                r["commute_spec"] = outs[k : k + nm]
                k += nm
        for h in r.get("hist", []):
            h["impl"] = outs[k]
            h["spec"] = outs[k + 1]
            k += 2
    return res


# --------------------------------------------------------------------------- comparison


def parse_match(s: str):
    """'M1 | b | n | o' -> (dict, frozenset(nodes), tuple(outputs), list(nodes))"""
    parts = s.split(" | ")
    b = dict(kv.split("=", 1) for kv in parts[1].split()) if len(parts) > 1 and parts[1].strip() else {}
    nodes = [x for x in parts[2].split(",") if x != ""] if len(parts) > 2 else []
    outs = tuple(parts[3].split()) if len(parts) > 3 else ()
    return b, frozenset(nodes), outs, nodes


def parse_spec(s: str):
    parts = s.split(" || ")
    sols = []
    for q in parts[1:]:
        f = q.split(" | ")
        b = dict(kv.split("=", 1) for kv in f[0].split()) if f[0].strip() else {}
        nodes = frozenset(x for x in f[1].split(",") if x != "") if len(f) > 1 else frozenset()
        outs = tuple(f[2].split()) if len(f) > 2 else ()
        sols.append((b, nodes, outs))
    return sols


def judge(case, r, stats: Counter):
    """Returns (tie_problem|None, property_problem|None, direction|None)."""
    real, impl, spec = r["real"], r["impl"], r["spec"]
    tie = None
    if real != impl:
        tie = f"real={real} ; model={impl}"
    if "impl_pure" in r and "EXC:" not in real:
        stats["total_model_compared_outside_backOk"] += 1
        if r["impl_pure"] != real:
            tie = (tie + " ; " if tie else "") + f"total model: real={real} ; patternMatch={r['impl_pure']}"
    if real == "CTOR-ERR" or impl == "CTOR-ERR":
        stats["ctor_refused"] += 1
        return tie, None, None
    body = real.split(" ", 1)[1] if real.startswith("on=") else real
    if body.startswith("EXC:"):
        stats["real_exception"] += 1
        stats["real_exception_" + body[4:]] += 1
        if real == impl:
            stats["exception_model_agrees"] += 1
        # the model restates the raise sites of merge_current_match (OV.Model.C06Exc), so the tie is compared
        # here as everywhere else; for the property a raise is a failure (open finding C06-F9)
        return tie, f"the matcher raised {body[4:]}", "exception:" + body[4:]
    sols = parse_spec(spec)
    stats["spec_instances_" + ("0" if not sols else "1" if len(sols) == 1 else "many")] += 1
    if body.startswith("M1"):
        stats["real_match"] += 1
        b, nodes, outs, nlist = parse_match(body)
        if len(nlist) != len(nodes):
            stats["dup_nodes_in_match"] += 1
        else:
            stats["dup_nodes_free_match"] += 1
        if (b, nodes, outs) in sols:
            return tie, None, None
        if not sols:
            return tie, f"match reported but no instance exists: {body}", "bogus"
        return tie, f"match reported with bindings/nodes/outputs that are no instance: {body} ; instances: {spec}", "bogus"
    stats["real_nomatch"] += 1
    if sols:
        return tie, f"no match reported although an instance exists: {spec}", "miss"
    return tie, None, None


def commute_agree(case, real: str, model: str) -> bool:
    """every variant, exceptions included (the driver matches the variants with patternMatchX)"""
    return real == model


def judge_commute(case, r, findings, stats: Counter):
    """with commute=True the matches are exactly those of the pattern under swaps of commutative operands:
    variant k of GraphPattern.commute() against the instances of the k-th swapped pattern"""
    parts = r["real_commute"].split(" || ")
    masks = L.commute_masks(case["pattern"])
    if not parts[0].startswith("K") or len(parts) - 1 != len(masks) or len(r["commute_spec"]) != len(masks):
        return []
    out = []
    for k, (variant, spec, mask) in enumerate(zip(parts[1:], r["commute_spec"], masks)):
        body = variant.split(" #K ")[0]
        stats["commute_oracle_variants"] += 1
        if body.startswith("EXC:"):
            continue
        sols = parse_spec(spec)
        direction = None
        if body.startswith("M1"):
            b, nodes, outs_, _ = parse_match(body)
            if (b, nodes, outs_) not in sols:
                direction, what = "bogus", f"match reported that is no instance of the swapped pattern: {body} ; instances: {spec[:300]}"
        elif sols:
            direction, what = "miss", f"no match although the swapped pattern has an instance: {spec[:300]}"
        if direction:
            vcase = dict(case, pattern=L.swapped_pattern(case["pattern"], mask))
            fid = classify(vcase, direction, findings)
            out.append((fid, f"commute variant {k} (swaps {[i for i, s in enumerate(mask) if s]}): {what}"))
    return out


def classify(case, direction, findings):
    for fid, d, pred in KNOWN:
        if d == direction and fid in findings and pred(case):
            return fid
    return None


def repeated_none_vars(p) -> set:
    """names of can_match_none variables (value patterns / attribute variables) that occur at least twice"""
    occ = Counter()
    for v, _ in walk_vpats(p):
        if v[0] == "V" and v[3] and v[2]:
            occ[v[2]] += 1
    for n in p["nodes"]:
        for _, a in n["attrs"]:
            if a[0] == "v" and a[1] and a[2]:
                occ[a[1]] += 1
    return {k for k, n in occ.items() if n >= 2}


def removable_json(g, nodes, outs) -> bool:
    """the property's reading of `_valid_to_replace` on the case's graph: no value computed by a matched node,
    other than the match outputs, is a graph output or has a consumer outside the match"""
    keep = set(outs)
    matched = set(nodes)
    for i in matched:
        for o in g["nodes"][i]["outputs"]:
            if f"v{o}" in keep:
                continue
            if o in g["outputs"] or o in g.get("ext", []):
                return False
            if any(o in nd["inputs"] for j, nd in enumerate(g["nodes"]) if j not in matched):
                return False
    return True


def features_of(case, stats: Counter):
    p = case["pattern"]
    stats[f"pattern_nodes_{min(len(p['nodes']), 6)}"] += 1
    stats[f"graph_nodes_{min(len(case['graph']['nodes']), 8) if len(case['graph']['nodes']) < 8 else '8+'}"] += 1
    kinds = Counter()
    for v, ctx in walk_vpats(p):
        if v[0] == "OR":
            kinds["or_dispatch" if L.or_is_dispatch(v, p) else "or_backtracking"] += 1
            if v[3]:
                kinds["or_tagvar"] += 1
                if L.or_is_dispatch(v, p):
                    kinds["or_dispatch_tagvar"] += 1
        else:
            kinds["vp_" + v[0]] += 1
            if v[0] == "V" and v[3]:
                kinds["var_can_match_none"] += 1
    for n in p["nodes"]:
        if None in n["inputs"]:
            kinds["input_none"] += 1
        if n["attrs"]:
            kinds["attrs"] += 1
            for _, a in n["attrs"]:
                kinds["attr_" + a[0]] += 1
        if n.get("aoa") is False:
            kinds["allow_other_attributes_false"] += 1
        if n.get("aoi"):
            kinds["allow_other_inputs"] += 1
        if n.get("check") is not None:
            kinds["node_check"] += 1
        if len(n["outputs"]) > 1:
            kinds["multi_output_node"] += 1
        if n["op"][0] == "p" or n["dom"][0] == "p":
            kinds["prefix_pattern"] += 1
    outs = {o[1] for o in p["outputs"] if o[0] == "O"}
    if len(outs) > 1:
        kinds["multi_output_nodes_pattern"] += 1
    if kinds["or_tagvar"] and shared_tag_vars(p):
        kinds["or_tagvar_shared"] += 1
    if case["rm"]:
        kinds["remove_nodes"] += 1
    if p.get("via") == "callable":
        kinds["via_pattern_function"] += 1
    if case["graph"].get("foreign"):
        kinds["foreign_values"] += 1
    if case["graph"].get("ext"):
        kinds["external_uses"] += 1
    for k in kinds:
        stats["feat_" + k] += 1


# --------------------------------------------------------------------------- main


_ENUM = {}


def enum_tables():
    if not _ENUM:
        _ENUM["pats2"] = list(G.enum_patterns(2))
        _ENUM["pats"] = _ENUM["pats2"] + list(G.enum_patterns(3, features=False))
        _ENUM["graphs"] = list(G.enum_graphs(3))
        _ENUM["g3"] = [g for g in _ENUM["graphs"] if len(g["nodes"]) == 3]
        _ENUM["g2"] = [g for g in _ENUM["graphs"] if len(g["nodes"]) <= 2]
        _ENUM["core2"] = list(G.enum_patterns(2, features=False))
    return _ENUM


def root_op(p):
    return p["nodes"][p["outputs"][0][1]]["op"][1]


def make_cases(job):
    """cases of one job; everything random derives from the job's seed (drawn from run.rng)"""
    import random

    kind = job[0]
    if kind == "cases":
        return job[1]
    rng = random.Random(job[1])
    n = job[2]
    out = []
    if kind == "random":
        for _ in range(n):
            c = G.gen_case(rng, big=job[3])
            c["commute"] = rng.random() < (0.1 if job[3] else 0.25)
            out.append(c)
    elif kind == "history":
        out = G.history_cases(rng, n)
    elif kind == "enum_sample":
        T = enum_tables()
        for _ in range(n):
            p = rng.choice(T["pats"])
            g = G.extend_graph(rng.choice(T["g3"]), rng) if rng.random() < 0.3 else rng.choice(T["graphs"])
            want = root_op(p)
            roots = [i for i, nd in enumerate(g["nodes"]) if nd["op"] == want]
            root = rng.choice(roots) if roots and rng.random() < 0.85 else rng.randrange(len(g["nodes"]))
            out.append({"pattern": p, "graph": g, "root": root, "rm": rng.random() < 0.6, "commute": rng.random() < 0.1})
    elif kind == "enum_full3":
        # patterns job[1]..job[2] of the table of core patterns with exactly 3 node patterns (no feature variants)
        # against every <=2-node graph, every root whose operator equals the pattern root's, remove_nodes=True
        T = enum_tables()
        for p in T["pats"][len(T["pats2"]):][job[1] : job[2]]:
            want = root_op(p)
            for g in T["g2"]:
                for root, nd in enumerate(g["nodes"]):
                    if nd["op"] == want:
                        out.append({"pattern": p, "graph": g, "root": root, "rm": True})
    elif kind == "enum_full_g3":
        # core patterns job[1]..job[2] with <=2 node patterns (no feature variants) against every graph with exactly
        # 3 nodes, root = the last node when its operator equals the pattern root's, remove_nodes=True
        T = enum_tables()
        for p in T["core2"][job[1] : job[2]]:
            want = root_op(p)
            for g in T["g3"]:
                if g["nodes"][-1]["op"] == want:
                    out.append({"pattern": p, "graph": g, "root": len(g["nodes"]) - 1, "rm": True})
    elif kind == "enum_full":
        # patterns job[1]..job[2] of the <=2-node pattern table against every <=2-node graph, every root whose
        # operator equals the pattern root's (all other roots fail the very first test), both remove_nodes
        T = enum_tables()
        for p in T["pats2"][job[1] : job[2]]:
            want = root_op(p)
            for g in T["g2"]:
                for root, nd in enumerate(g["nodes"]):
                    if nd["op"] == want:
                        out.append({"pattern": p, "graph": g, "root": root, "rm": True})
                        out.append({"pattern": p, "graph": g, "root": root, "rm": False})
    return out


def work(args):
    """Worker: generate the job's cases, run the three voices, judge. Returns merged statistics."""
    job, findings = args
    cases = make_cases(job)
    stats: Counter = Counter()
    problems: list = []
    known_counts: Counter = Counter()
    for k in range(0, len(cases), 500):
        chunk = cases[k : k + 500]
        res = eval_cases((chunk, True))
        for case, r in zip(chunk, res):
            if "refused" in r:
                stats["generator_refused"] += 1
                stats["refused:" + r["refused"][:60]] += 1
                continue
            stats["cases"] += 1
            features_of(case, stats)
            tie, prop, direction = judge(case, r, stats)
            rn = repeated_none_vars(case["pattern"])
            if rn:
                stats["feat_can_match_none_var_repeated"] += 1
                body0 = r["real"].split(" ", 1)[-1]
                if body0.startswith("M1"):
                    b0 = parse_match(body0)[0]
                    if any(b0.get(nm) == "N" for nm in rn):
                        stats["feat_repeated_var_bound_none_match"] += 1
            if "commute" in r:
                if not case["rm"]:
                    # remove_nodes=False & a SWAPPED variant matches & the matched nodes are not removable
                    for vk, variant in enumerate(r["real_commute"].split(" || ")[2:]):
                        vb = variant.split(" #K ")[0]
                        if vb.startswith("M1"):
                            stats["commute_swapped_variant_match_keep_nodes"] += 1
                            _, _, vouts, vnodes = parse_match(vb)
                            if all(isinstance(x, int) or str(x).isdigit() for x in vnodes) and not removable_json(
                                    case["graph"], [int(x) for x in vnodes], vouts):
                                stats["commute_swapped_match_keep_nodes_unremovable"] += 1
                stats["commute_cases"] += 1
                stats["commute_" + r["real_commute"].split(" ", 1)[0][:14]] += 1
                if not commute_agree(case, r["real_commute"], r["commute"]):
                    problems.append((case, "tie-commute", f"real={r['real_commute']} ; model={r['commute']}"))
                if "commute_spec" in r:
                    for fid, what in judge_commute(case, r, findings, stats):
                        if fid:
                            known_counts[fid] += 1
                            if known_counts[fid] == 1:
                                problems.append((case, "known:" + fid, what))
                        else:
                            problems.append((case, "property", what))
            if "hist" in r:
                stats["hist_cases"] += 1
                multi = "," in r["real"].split(" ", 1)[0]
                stats["hist_multi_output_pattern"] += multi
                stats["hist_same_node_count"] += bool(case.get("hist_same_count"))
                for hk, (st, rr) in enumerate(zip(case["hist"], r["hist"])):
                    sub = {"pattern": case["pattern"], "graph": st["graph"], "root": st["root"], "rm": st["rm"]}
                    stats["hist_calls"] += 1
                    t2, p2, d2 = judge(sub, rr, stats)
                    if " M1" in rr["real"]:
                        stats["hist_later_call_match"] += 1
                        stats["hist_multi_later_call_match"] += multi
                        stats["hist_multi_same_count_later_match"] += multi and bool(case.get("hist_same_count"))
                    where = f"call {hk + 2} on the re-used Pattern object after an in-place edit of the graph: "
                    if t2:
                        problems.append((case, "tie-history", where + t2))
                    if p2:
                        fid = classify(sub, d2, findings)
                        if fid:
                            known_counts[fid] += 1
                            if known_counts[fid] == 1:
                                problems.append((sub, "known:" + fid, p2))
                        else:
                            problems.append((case, "property", where + p2))
            if tie:
                problems.append((case, "tie", tie))
            if prop:
                fid = classify(case, direction, findings)
                if fid:
                    known_counts[fid] += 1
                    if known_counts[fid] == 1:
                        problems.append((case, "known:" + fid, prop))
                else:
                    problems.append((case, "property", prop))
    samples = [L.case_line("impl", c)[:500] for c in cases[:1]]
    return stats, problems[:50], known_counts, samples


def run_jobs(pool, jobs, stats, problems, findings, known_counts, samples):
    args = [(j, findings) for j in jobs]
    it = pool.imap_unordered(work, args) if pool else map(work, args)
    for st, pr, kc, sm in it:
        stats.update(st)
        for fid, n in kc.items():
            if known_counts[fid] > 0:
                pr = [p for p in pr if p[1] != "known:" + fid]
            known_counts[fid] += n
        problems.extend(pr)
        if len(samples) < 6:
            samples.extend(sm)


def run_stream(pool, cases, stats, problems, findings, known_counts, do_commute=True, chunk=400):
    run_jobs(None, [("cases", cases)], stats, problems, findings, known_counts, [])


def size_of(case):
    return len(case["pattern"]["nodes"]) * 10 + len(case["graph"]["nodes"]) + len(L.dumps(case)) / 1000.0


def shrink_case(case, still_fails):
    """greedy: drop host nodes that nothing depends on, drop graph decorations"""
    if case.get("hist"):
        return case  # a history is replayed as it is (its graphs must keep their leaves)
    cur = json.loads(L.dumps(case))
    for key in ("ext", "foreign"):
        if cur["graph"].get(key):
            cand = json.loads(L.dumps(cur))
            cand["graph"][key] = []
            if still_fails(cand):
                cur = cand
    changed = True
    while changed:
        changed = False
        nodes = cur["graph"]["nodes"]
        for i in reversed(range(len(nodes))):
            if i == cur["root"] or len(nodes) <= 1:
                continue
            outs = set(nodes[i]["outputs"])
            if any(outs & {x for x in n["inputs"] if x is not None} for n in nodes):
                continue
            cand = json.loads(L.dumps(cur))
            del cand["graph"]["nodes"][i]
            cand["graph"]["outputs"] = [o for o in cand["graph"]["outputs"] if o not in outs]
            if cand["root"] > i:
                cand["root"] -= 1
            if still_fails(cand):
                cur = cand
                changed = True
                break
    return cur


def main(run: core.Run) -> None:
    global _DRV_PATH
    run.assumptions += [
        "A-ir: onnx_ir's Value.producer/index/uses/is_graph_output/graph/const_value and Attr.__eq__ are what the "
        "host-graph model says (every case executes the real onnx_ir)",
        "numeric tolerance of Constant patterns is an abstract relation `close` in the theorems; the driver and the "
        "generated cases use small integers, where math.isclose is equality (C05 judges the tolerance itself)",
        "check callbacks and the condition function are opaque booleans (constant per pattern object)",
        "exceptions: the tie is against OV.C06.patternMatchX, which restates the raise statements of "
        "merge_current_match / PartialMatchResult.merge (ValueError, NotImplementedError; open finding C06-F9) — an "
        "exception of any other type, or at another place, breaks the tie; exceptions raised by user callbacks are "
        "not modelled (callbacks are constant booleans)",
    ]
    audit = run.prove(PROP_MODULES)
    drv = core.Driver("C06")
    _DRV_PATH = str(drv.path)
    stats: Counter = Counter()
    problems: list = []
    known_counts: Counter = Counter()
    findings = {f["id"] for f in run.open_findings()}
    check_fixed_findings(run, probe=not run.replay_path)

    if run.replay_path:
        body = json.loads(open(run.replay_path).read())
        case = body["case"].get("case") or body["case"]
        case.setdefault("commute", True)
        run_stream(None, [case], stats, problems, findings, known_counts)
        bad = [p for p in problems if not p[1].startswith("known:")]
        for c, kind, detail in problems:
            print(f"REPLAY {kind}: {detail}")
        if bad:
            run.violation({"case": case, "problems": [p[2] for p in bad]}, "replayed case still fails: " + bad[0][2][:300],
                          no_input=all(p[1].startswith("tie") for p in bad))
        run.coverage.update(evaluations=1, distinct_nontrivial=1)
        return

    # shared machine: at most 4 worker processes (VERIF_C06_WORKERS lowers it, e.g. for two concurrent runs)
    workers = max(1, min(4, int(os.environ.get("VERIF_C06_WORKERS", "4")), (os.cpu_count() or 2) - 1))
    drift = fingerprint_drift()
    run.coverage["fingerprint_drift"] = drift
    scale = 2 if (drift and run.tier == "quick") else 1

    corpus = [json.loads(l) for l in CORPUS.read_text().splitlines() if l.strip()] if CORPUS.exists() else []
    for c in corpus:
        c.setdefault("commute", True)

    n_random = run.size(80000, 300000) * scale
    n_big = run.size(5000, 20000) * scale
    n_enum = run.size(90000, 400000) * scale
    T = enum_tables()
    jobs = []
    per = 2500
    for _ in range(n_random // per):
        jobs.append(("random", run.rng.getrandbits(48), per, False))
    for _ in range(max(1, n_big // 500)):
        jobs.append(("random", run.rng.getrandbits(48), 500, True))
    for _ in range(n_enum // per):
        jobs.append(("enum_sample", run.rng.getrandbits(48), per))
    for _ in range(run.size(4, 16) * scale):
        jobs.append(("history", run.rng.getrandbits(48), 1000))
    exhaustive = run.tier == "thorough"
    if exhaustive:
        for k in range(0, len(T["pats2"]), 20):
            jobs.append(("enum_full", k, min(k + 20, len(T["pats2"]))))
    else:
        # a seeded slice of the exhaustive stream
        for _ in range(6):
            k = run.rng.randrange(len(T["pats2"]) - 3)
            jobs.append(("enum_full", k, k + 3))

    special_witnesses(run, findings)
    samples: list = []
    ctx = mp.get_context("fork")
    run_jobs(None, [("cases", corpus), ("cases", G.tolerance_cases()), ("cases", G.tag_cases())], stats, problems, findings, known_counts, samples)
    with ctx.Pool(workers) as pool:
        run_jobs(pool, jobs, stats, problems, findings, known_counts, samples)
        # second exhaustive block (thorough): 3-node core patterns x <=2-node graphs, dispatched in slices while
        # the time budget lasts; the evidence says how much of it was enumerated
        block2_total = len(T["pats"]) - len(T["pats2"])
        block2_done = 0
        if exhaustive:
            step = 40 * workers
            limit_s = float(os.environ.get("VERIF_C06_BLOCK2_LIMIT_S", "1000"))
            while block2_done < block2_total and run.elapsed() < limit_s:
                hi = min(block2_done + step, block2_total)
                run_jobs(pool, [("enum_full3", k, min(k + 40, hi)) for k in range(block2_done, hi, 40)],
                         stats, problems, findings, known_counts, samples)
                block2_done = hi
        stats["block2_patterns_done"] = block2_done
        stats["block2_patterns_total"] = block2_total
        # third exhaustive block (thorough): <=2-node core patterns x all 3-node graphs, root = last node
        block3_total = len(T["core2"])
        block3_done = 0
        if exhaustive and block2_done == block2_total:
            limit3_s = float(os.environ.get("VERIF_C06_BLOCK3_LIMIT_S", "1060"))
            while block3_done < block3_total and run.elapsed() < limit3_s:
                hi = min(block3_done + 2 * workers, block3_total)
                run_jobs(pool, [("enum_full_g3", k, k + 1) for k in range(block3_done, hi)],
                         stats, problems, findings, known_counts, samples)
                block3_done = hi
        stats["block3_patterns_done"] = block3_done
        stats["block3_patterns_total"] = block3_total
    for sm in samples[:6]:
        run.sample(sm)

    if os.environ.get("VERIF_DEBUG"):
        for c, kind, detail in problems:
            if not kind.startswith("known:"):
                print("DEBUG", kind, detail[:600])
                print("DEBUG", L.dumps(c)[:2500])
    # ---- verdict
    known = [p for p in problems if p[1].startswith("known:")]
    for c, kind, detail in known:
        fid = kind.split(":", 1)[1]
        run.known(fid, f"{detail[:260]} (x{known_counts[fid]} in this run)")
    for fid, n in known_counts.items():
        stats["known_" + fid] = n
    prop_fail = sorted([p for p in problems if p[1] == "property"], key=lambda p: size_of(p[0]))
    tie_fail = sorted([p for p in problems if p[1].startswith("tie")], key=lambda p: size_of(p[0]))
    stats["property_failures"] = len(prop_fail)
    stats["tie_failures"] = len(tie_fail)

    def fails_property(c):
        st, pr, kc = Counter(), [], Counter()
        run_stream(None, [dict(c, commute=False)], st, pr, findings, kc)
        return any(k == "property" for _, k, _ in pr)

    def fails_tie(c):
        st, pr, kc = Counter(), [], Counter()
        run_stream(None, [dict(c, commute=True)], st, pr, findings, kc)
        return any(k.startswith("tie") for _, k, _ in pr)

    if prop_fail:
        c, kind, detail = prop_fail[0]
        c = shrink_case(c, fails_property)
        run.violation({"case": c, "detail": detail, "others": len(prop_fail) - 1,
                       "line": L.case_line("impl", c)},
                      "real Pattern.match disagrees with the instance oracle: " + detail[:400])
    elif tie_fail:
        c, kind, detail = tie_fail[0]
        c = shrink_case(c, fails_tie)
        run.violation({"case": c, "detail": detail, "kind": kind, "others": len(tie_fail) - 1,
                       "broken": "correspondence OV.C06.patternMatch / OV.C06.commute vs implementation",
                       "line": L.case_line("impl", c)},
                      f"correspondence broken ({kind}): {detail[:400]}; on every explored case the implementation "
                      "still agrees with the instance oracle outside the listed findings",
                      no_input=True)
    if not audit["ok"]:
        run.violation({"broken": "proof obligations of OV.Props.C06", "problems": audit["problems"],
                       "log": audit["build_log"][-1500:]},
                      "Lean proof obligations for C06 do not check: " + "; ".join(audit["problems"][:3]), no_input=True)

    total = stats["cases"]
    run.coverage.update(
        evaluations=total,
        distinct_nontrivial=stats["real_match"] + stats["spec_instances_1"] + stats["spec_instances_many"],
        rule="cases where the real matcher reports a match or the oracle finds at least one instance (the rest are "
        "agreed non-matches); every case is run through real Pattern.match, Lean patternMatch and Lean solve",
        traces_validated_against_impl=total + stats["commute_cases"],
        distribution=dict(stats),
        exhaustive=exhaustive,
        explanation=(f"bounded enumeration over the alphabet {{Neg (unary), Add (commutative), Sub, D2 (two outputs)}}, leaves "
                     f"a, b and a constant: {len(T['pats2'])} patterns with <=2 node patterns (each core pattern + one feature "
                     f"variant at a time: attr const, attr var + allow_other_attributes=False, allow_other_inputs, optional "
                     f"None input, OrValue backtracking / dispatch with tag, two outputs) x {len(T['g2'])} host graphs with <=2 "
                     "nodes x every root whose operator equals the pattern root's x remove_nodes: "
                     + ("enumerated completely" if exhaustive else "a seeded slice in this tier (complete in the thorough tier)")
                     + (f"; second block: the first {block2_done} of {block2_total} core patterns with exactly 3 node patterns "
                        f"(enumeration order of c06_gen.enum_patterns(3, features=False)) x the same {len(T['g2'])} graphs x roots "
                        "with the pattern root's operator x remove_nodes=True, "
                        + ("enumerated completely" if block2_done == block2_total else "stopped by the time budget")
                        + f"; third block: the first {block3_done} of {block3_total} core patterns with <=2 node patterns "
                        f"(enumeration order of c06_gen.enum_patterns(2, features=False)) x all {len(T['g3'])} graphs with "
                        "exactly 3 nodes x root = the last node when it has the pattern root's operator x remove_nodes=True, "
                        + ("enumerated completely" if block3_done == block3_total else "stopped by the time budget")
                        if exhaustive else "")
                     + f"; {len(T['pats'])} patterns with <=3 node patterns x {len(T['graphs'])} graphs with <=3 nodes (+ their "
                     f"4-node extensions): sampled ({n_enum}); plus {n_random + n_big} seeded random pattern/graph pairs "
                     "(patterns up to 8 nodes, derived host graphs up to ~20 nodes)"),
    )
    if total and stats["generator_refused"] > 0.3 * (total + stats["generator_refused"]):
        raise core.Infra("generator degenerated: >30% of patterns refused by the pattern API")
    if total and stats["real_match"] < 0.03 * total:
        raise core.Infra("generator degenerated: <3% of cases match")
    required = ["feat_or_backtracking", "feat_or_dispatch", "feat_or_tagvar", "feat_or_dispatch_tagvar",
                "feat_or_tagvar_shared", "feat_multi_output_nodes_pattern",
                "feat_multi_output_node", "feat_input_none", "feat_attr_c", "feat_attr_v",
                "feat_allow_other_attributes_false", "feat_allow_other_inputs", "feat_node_check", "feat_prefix_pattern",
                "feat_foreign_values", "feat_external_uses", "feat_var_can_match_none", "feat_vp_K", "feat_vp_A",
                "feat_vp_W", "feat_remove_nodes", "feat_via_pattern_function", "commute_cases", "commute_oracle_variants", "commute_K2",
                "spec_instances_many", "dup_nodes_free_match", "ctor_refused",
                "known_C06-D11",
                # the exception channel (OV.Model.C06Exc): both raise sites reached on the real matcher, and the
                # model agreeing there
                "real_exception_ValueError", "real_exception_NotImplementedError", "exception_model_agrees",
                "total_model_compared_outside_backOk",
                # histories: one Pattern object and one graph object, edited in place between the calls; the
                # conjunction "several output nodes & node count unchanged & a later call matches" must occur
                # a can_match_none variable used twice and bound to None in a reported match; RewriteRule.commute with
                # remove_nodes=False where a swapped variant matches nodes that could not be removed
                "feat_can_match_none_var_repeated", "feat_repeated_var_bound_none_match",
                "commute_swapped_variant_match_keep_nodes", "commute_swapped_match_keep_nodes_unremovable",
                "hist_cases", "hist_calls", "hist_multi_output_pattern", "hist_same_node_count",
                "hist_later_call_match", "hist_multi_later_call_match", "hist_multi_same_count_later_match"]
    missing = [k for k in required if not stats.get(k)]
    run.coverage["required_counters_missing"] = missing
    if missing and not run.replay_path and not run.violations:
        raise core.Infra("generator degenerated: required coverage counters are zero: " + ", ".join(missing))


FINGERPRINTED = [
    ("onnxscript/rewriter/_matcher.py", ["_valid_to_replace", "SimplePatternMatcher"]),
    ("onnxscript/rewriter/_basics.py", ["MatchResult", "PartialMatchResult"]),
    ("onnxscript/rewriter/_pattern_ir.py", ["NodePattern", "GraphPattern", "OrValue", "OpIdDispatchOr", "BacktrackingOr",
                                            "AttrConstantPattern", "ValuePattern", "Var", "Constant",
                                            "NodeOutputPattern", "AnyValue", "StringConstantPattern", "PrefixPattern",
                                            "OpPatternBuilder", "_to_value_pattern", "_to_attr_pattern"]),
    ("onnxscript/rewriter/_rewrite_rule.py", ["Pattern"]),
]
FP_FILE = core.VERIF / "harness" / "c06_fingerprints.json"


def current_fingerprints():
    return {rel: core.source_fingerprint(rel, names) for rel, names in FINGERPRINTED}


def fingerprint_drift():
    """modelled classes/functions whose normalised AST differs from the recorded one (escalates sample sizes)"""
    if not FP_FILE.exists():
        return []
    rec = json.loads(FP_FILE.read_text())
    cur = current_fingerprints()
    return [f"{rel}:{q}" for rel, d in cur.items() for q, h in d.items() if rec.get(rel, {}).get(q) not in (None, h)]


FLAG_IDS = ["C06-F1", "C06-F7a", "C06-F3", "C06-F7b", "C06-F8", "C06-F2", "C06-F5", "C06-F5b", "C06-F7c"]  # order of the digits in L.FLAGS


def fixed_ids() -> set:
    """ids in the `fixed` lists of known_findings (+ VERIF_C06_FIXED for trying a proposed fix on a worktree)"""
    out = set()
    for f in [core.VERIF / "known_findings.json"] + sorted((core.VERIF / "known_findings.d").glob("*.json")):
        if f.exists():
            out |= {e["id"] for e in json.loads(f.read_text()).get("fixed", []) if isinstance(e, dict) and "id" in e}
    out |= {x for x in os.environ.get("VERIF_C06_FIXED", "").split(",") if x}
    return out


def _node(op, ins, outs=(None,), **kw):
    d = {"dom": ["e", ""], "op": ["e", op], "aoa": None, "aoi": None, "check": None, "inputs": ins,
         "attrs": [], "outputs": list(outs)}
    d.update(kw)
    return d


def fixed_probes():
    """witness and pre-fix behaviour of every finding that has a repair: id -> (case, kind, is_prefix(output))"""
    x = ["V", 1, "x", False, None]
    y = ["V", 2, "y", False, None]
    z = ["V", 3, "z", False, None]
    g1 = {"nodes": [{"dom": "", "op": "D2", "ov": "", "inputs": [0], "attrs": [], "outputs": [1]}],
          "outputs": [1], "consts": [], "foreign": [], "foreign_kind": "free", "ext": []}
    gna = {"nodes": [{"dom": "", "op": "Neg", "ov": "", "inputs": [0], "attrs": [], "outputs": [1]},
                     {"dom": "", "op": "Add", "ov": "", "inputs": [1, 1], "attrs": [], "outputs": [2]}],
           "outputs": [2], "consts": [], "foreign": [], "foreign_kind": "free", "ext": []}
    gr = {"nodes": [{"dom": "", "op": "R", "ov": "", "inputs": [0], "attrs": [["axes", "is", [1]]], "outputs": [1]}],
          "outputs": [1], "consts": [], "foreign": [], "foreign_kind": "free", "ext": []}
    orx = ["OR", 4, None, None, None, [["O", 0, 0], x]]

    def case(p, g, root, commute=False):
        return {"pattern": p, "graph": g, "root": root, "rm": False, "commute": commute}

    def pat(nodes, ins, out):
        return {"cond": True, "inputs": ins, "nodes": nodes, "outputs": [out]}

    f8 = None
    if CORPUS.exists():
        for l in CORPUS.read_text().splitlines():
            if l.strip() and json.loads(l).get("finding") == "C06-F8":
                f8 = json.loads(l)
    probes = {
        "C06-F1": (case(pat([_node("D2", [x], (None, None))], ["x"], ["O", 0, 0]), g1, 0), "match", lambda o: " M1" in o),
        "C06-F7a": (case(pat([_node("Neg", [x]), _node("Add", [orx, y])], ["x", "y"], ["O", 1, 0]), g1, 0, True),
                    "commute", lambda o: o == "ERR:valueerror"),
        "C06-F2": (case(pat([_node("Neg", [["V", 1, "x", False, False]])], ["x"], ["O", 0, 0]), gna, 0), "match",
                   lambda o: " M1" in o),
        "C06-F3": (case(pat([_node("Neg", [x], check=False), _node("Add", [orx, z])], ["x", "z"], ["O", 1, 0]), gna, 1),
                   "match", lambda o: " M1" in o),
        "C06-F6": (case(pat([_node("R", [x], attrs=[["axes", ["c", 1]]])], ["x"], ["O", 0, 0]), gr, 0), "match",
                   lambda o: "EXC:TypeError" in o),
        "C06-F7b": (case(pat([_node("Max", [x, y, z])], ["x", "y", "z"], ["O", 0, 0]), g1, 0, True), "commute",
                    lambda o: o == "ERR:assertion"),
    }
    if f8 is not None:
        probes["C06-F8"] = (f8, "match", lambda o: "EXC:ValueError" in o)
    g5 = {"nodes": [{"dom": "", "op": "Neg", "ov": "ov", "inputs": [0], "attrs": [], "outputs": [1]},
                    {"dom": "", "op": "Abs", "ov": "", "inputs": [0], "attrs": [], "outputs": [2]}],
          "outputs": [1, 2], "consts": [], "foreign": [], "foreign_kind": "free", "ext": []}
    p5 = {"cond": True, "inputs": ["x"], "nodes": [_node("Neg", [x]), _node("Abs", [x])],
          "outputs": [["O", 1, 0], ["O", 0, 0]]}
    probes["C06-F5"] = (case(p5, g5, 1), "match", lambda o: " M0" in o)
    orv = ["OR", 4, None, None, None, [["O", 0, 0], ["O", 1, 0]]]
    p7c = {"cond": True, "inputs": ["x", "y"],
           "nodes": [_node("Neg", [x]), _node("Abs", [x]), _node("Add", [orv, y])], "outputs": [["O", 2, 0], orv]}
    probes["C06-F7c"] = (case(p7c, g1, 0, True), "commute", lambda o: o == "ERR:notimplemented")
    probes["C06-F5b"] = (case(pat([_node("Add", [x, y])], ["x", "y"], ["O", 0, 0]), g1, 0, True), "opid",
                         lambda o: o == "None")
    return probes


def run_probe(case, kind) -> str:
    bp, bg = L.build_pattern(case["pattern"]), L.build_graph(case["graph"])
    if kind == "commute":
        return L.run_real_commute(bp, bg, case["root"], case["rm"], True)
    if kind == "opid":  # operator identifier of the first node of the first swapped variant
        vs = bp.graph_pattern.commute()
        return str(list(vs[1])[0].op_identifier()) if len(vs) > 1 else "no-variant"
    return L.run_real(bp, bg, case["root"], case["rm"])


def check_fixed_findings(run, probe: bool = True) -> None:
    """A fixed entry suppresses nothing: the model restates the repaired revision of every finding listed as fixed
    (L.FLAGS); if the working tree shows the pre-fix behaviour of such a finding, that is a violation with its witness."""
    fixed = fixed_ids()
    L.FLAGS = "".join("1" if i in fixed else "0" for i in FLAG_IDS)
    G.ALLOW_SCALAR_VS_LIST_ATTR = "C06-F6" in fixed
    report = {}
    for fid, (case, kind, is_prefix) in fixed_probes().items():
        if fid not in fixed or not probe:
            continue
        out = run_probe(case, kind)
        report[fid] = "repaired" if not is_prefix(out) else "PRE-FIX BEHAVIOUR"
        if is_prefix(out):
            run.violation({"case": case, "detail": out, "finding": fid + " (listed as fixed)"},
                          f"fixed finding {fid} is back: {out[:200]}")
    run.coverage["fixed_findings_probe"] = report
    run.coverage["model_revision_flags"] = dict(zip(FLAG_IDS, L.FLAGS))


def special_witnesses(run, findings):
    """findings whose witness is an exception (kept out of the correspondence stream)"""
    def node(op, ins, outs=(None,), attrs=()):
        return {"dom": ["e", ""], "op": ["e", op], "aoa": None, "aoi": None, "check": None, "inputs": ins,
                "attrs": [list(a) for a in attrs], "outputs": list(outs)}

    x = ["V", 1, "x", False, None]
    y = ["V", 2, "y", False, None]
    z = ["V", 3, "z", False, None]
    g = {"nodes": [{"dom": "", "op": "R", "ov": "", "inputs": [0], "attrs": [["axes", "is", [1]]], "outputs": [1]}],
         "outputs": [1], "consts": [], "foreign": [], "foreign_kind": "free", "ext": []}
    if "C06-F6" in findings:
        p = {"cond": True, "inputs": ["x"], "nodes": [node("R", [x], attrs=[("axes", ["c", 1])])], "outputs": [["O", 0, 0]]}
        r = L.run_real(L.build_pattern(p), L.build_graph(g), 0, False)
        if "EXC:TypeError" in r:
            run.known("C06-F6", "op.R(x, axes=1) against a node whose `axes` is INTS [1]: Pattern.match raises "
                      "TypeError ('int' object is not iterable) instead of reporting no match")
    if "C06-F7" in findings:
        orv = ["OR", 4, None, None, None, [["O", 0, 0], ["O", 1, 0]]]
        p2 = {"cond": True, "inputs": ["x", "y"],
              "nodes": [node("Neg", [x]), node("Abs", [x]), node("Add", [orv, y])], "outputs": [["O", 2, 0], orv]}
        r2 = L.run_real_commute(L.build_pattern(p2), L.build_graph(g), 0, False, True)
        if r2 == "ERR:notimplemented":
            run.known("C06-F7", "GraphPattern.commute() raises NotImplementedError for a pattern that returns an OrValue "
                      "(s = Add(OrValue([Neg(x), Abs(x)]), y); return s, the OrValue): the output is cloned separately")


def itertools_islice(it, n):
    import itertools

    return itertools.islice(it, n)
