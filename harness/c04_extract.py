"""C04 translator: the pass order of `optimize_ir`, read off the source with `ast`, written as a Lean table.

Regenerated on every run into lean/OV/Gen/C04Pipeline.lean; `OV.Props.C04.pipeline_order_matches_source` (`decide`)
states that the table is the order `OV.C03.optimizeSpec` interprets (which `optimizeSpec_eq` proves equal to `optimizeIr`).
What is read:
  * `passes = [PassManager([...], steps=<name>, early_stop=<name>), <pass>(), ...]`  -> loop list, the two option names, tail list
  * `if <name>: passes = [<pass>(), *passes]`                                        -> guard name, prefix list (must end in *passes)
  * `FoldConstantsPass.call`: `if self._modified: …NameFixPass()(model)`               -> the fold pass fixes names itself when modified
  * default values of `num_iterations`, `stop_if_no_change`, `inline` in `optimize_ir`
"""
from __future__ import annotations

import ast
from pathlib import Path

from harness import core

GEN = Path(__file__).resolve().parent.parent / "lean" / "OV" / "Gen" / "C04Pipeline.lean"


def _last(n: ast.AST) -> str:
    if isinstance(n, ast.Call):
        return _last(n.func)
    if isinstance(n, ast.Attribute):
        return n.attr
    if isinstance(n, ast.Name):
        return n.id
    raise core.Infra(f"c04_extract: unexpected element in the pass list: {ast.dump(n)[:120]}")


def extract(repo: Path | None = None) -> dict:
    repo = Path(repo or core.REPO)
    src = (repo / "onnxscript" / "optimizer" / "_optimizer.py").read_text()
    tree = ast.parse(src)
    fn = next((n for n in ast.walk(tree) if isinstance(n, ast.FunctionDef) and n.name == "optimize_ir"), None)
    if fn is None:
        raise core.Infra("c04_extract: optimize_ir not found")
    out = {"loop": [], "tail": [], "steps": "?", "early_stop": "?", "guard": "?", "prefix": [], "prefix_then_rest": False,
           "other_statements": 0}
    defaults = {}
    kw = fn.args.kwonlyargs
    for a, d in list(zip(fn.args.args[-len(fn.args.defaults):] if fn.args.defaults else [], fn.args.defaults)) + list(zip(kw, fn.args.kw_defaults)):
        if d is not None and isinstance(d, ast.Constant):
            defaults[a.arg] = d.value
    out["defaults"] = {k: defaults.get(k) for k in ("num_iterations", "stop_if_no_change", "inline")}
    seen_list = False
    for st in fn.body:
        if isinstance(st, ast.Assign) and len(st.targets) == 1 and isinstance(st.targets[0], ast.Name) and st.targets[0].id == "passes" \
                and isinstance(st.value, ast.List):
            if seen_list:
                out["other_statements"] += 1
            seen_list = True
            for el in st.value.elts:
                if _last(el) == "PassManager":
                    if out["loop"]:
                        out["other_statements"] += 1
                    inner = el.args[0]
                    out["loop"] = [_last(x) for x in inner.elts]
                    for k in el.keywords:
                        if k.arg == "steps":
                            out["steps"] = _last(k.value)
                        elif k.arg == "early_stop":
                            out["early_stop"] = _last(k.value)
                        else:
                            out["other_statements"] += 1
                    if out["tail"]:
                        out["other_statements"] += 1  # something runs before the loop
                else:
                    out["tail"].append(_last(el))
        elif isinstance(st, ast.If) and seen_list:
            ok = (isinstance(st.test, ast.Name) and not st.orelse and len(st.body) == 1 and isinstance(st.body[0], ast.Assign)
                  and isinstance(st.body[0].value, ast.List) and _last(st.body[0].targets[0]) == "passes")
            if not ok:
                out["other_statements"] += 1
                continue
            out["guard"] = st.test.id
            elts = st.body[0].value.elts
            out["prefix"] = [_last(x) for x in elts if not isinstance(x, ast.Starred)]
            out["prefix_then_rest"] = bool(elts) and isinstance(elts[-1], ast.Starred) and _last(elts[-1].value) == "passes" \
                and sum(isinstance(x, ast.Starred) for x in elts) == 1
    # FoldConstantsPass.call: NameFixPass under `if self._modified`
    csrc = (repo / "onnxscript" / "optimizer" / "_constant_folding.py").read_text()
    ctree = ast.parse(csrc)
    fold_fix = False
    for cls in (n for n in ast.walk(ctree) if isinstance(n, ast.ClassDef) and n.name == "FoldConstantsPass"):
        for f in (n for n in cls.body if isinstance(n, ast.FunctionDef) and n.name == "call"):
            for st in ast.walk(f):
                if isinstance(st, ast.If) and isinstance(st.test, ast.Attribute) and st.test.attr == "_modified" and not st.orelse:
                    calls = [_last(c) for b in st.body for c in ast.walk(b) if isinstance(c, ast.Call)]
                    if "NameFixPass" in calls:
                        fold_fix = True
    out["fold_fixes_names_when_modified"] = fold_fix
    return out


def _lst(xs) -> str:
    return "[" + ", ".join(f'"{x}"' for x in xs) + "]"


def render(t: dict) -> str:
    d = t["defaults"]
    return f'''/-! GENERATED by harness/c04_extract.py from onnxscript/optimizer/_optimizer.py and _constant_folding.py — do not edit. -/
namespace OV.Gen.C04Pipeline

/-- passes of the iterated PassManager, in source order -/
def loopPasses : List String := {_lst(t["loop"])}
/-- option names given as `steps=` / `early_stop=` -/
def loopSteps : String := "{t["steps"]}"
def loopEarlyStop : String := "{t["early_stop"]}"
/-- passes after the PassManager, in source order -/
def tailPasses : List String := {_lst(t["tail"])}
/-- `if <guard>: passes = [<prefix…>, *passes]` -/
def prefixGuard : String := "{t["guard"]}"
def prefixPasses : List String := {_lst(t["prefix"])}
def prefixThenRest : Bool := {"true" if t["prefix_then_rest"] else "false"}
/-- statements of `optimize_ir` that touch `passes` in a way the translator does not understand -/
def otherStatements : Nat := {t["other_statements"]}
/-- `FoldConstantsPass.call` runs NameFixPass when (and only when) it modified the model -/
def foldFixesNamesWhenModified : Bool := {"true" if t["fold_fixes_names_when_modified"] else "false"}
/-- defaults of `num_iterations`, `stop_if_no_change`, `inline` -/
def defaultNumIterations : Nat := {int(d["num_iterations"]) if isinstance(d["num_iterations"], int) else 0}
def defaultStopIfNoChange : Bool := {"true" if d["stop_if_no_change"] is True else "false"}
def defaultInline : Bool := {"true" if d["inline"] is True else "false"}

end OV.Gen.C04Pipeline
'''


def regenerate() -> dict:
    t = extract()
    text = render(t)
    GEN.parent.mkdir(exist_ok=True)
    changed = not GEN.exists() or GEN.read_text() != text
    if changed:
        GEN.write_text(text)
    t["changed"] = changed
    return t


if __name__ == "__main__":
    print(regenerate())
