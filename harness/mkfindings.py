"""Merge known_findings.d/*.json (the per-property source files) into the single committed
known_findings.json.  Never run by a check: the checks only READ known_findings.json."""
import json
from pathlib import Path

V = Path(__file__).resolve().parent.parent


def main():
    findings, fixed = [], []
    seen_o, seen_f = {}, {}
    for f in sorted((V / "known_findings.d").glob("*.json")):
        d = json.loads(f.read_text())
        for e in d.get("findings", []):
            e = dict(e)
            e.setdefault("status", "open")
            e["source"] = f.name
            if e["id"] in seen_o:
                # the same defect seen from two properties: merge the property lists, keep both views
                o = seen_o[e["id"]]
                o["properties"] = sorted(set(o.get("properties", [])) | set(e.get("properties", [])))
                o.setdefault("other_views", []).append({k: e[k] for k in e if k not in ("id", "properties")})
            else:
                seen_o[e["id"]] = e
                findings.append(e)
        for e in d.get("fixed", []):
            e = dict(e)
            e["status"] = "fixed"
            e["source"] = f.name
            if e["id"] in seen_f:
                o = seen_f[e["id"]]
                o["properties"] = sorted(set(o.get("properties", [])) | set(e.get("properties", [])))
                o.setdefault("other_views", []).append({k: e[k] for k in e if k not in ("id", "properties")})
            else:
                seen_f[e["id"]] = e
                fixed.append(e)
    out = {
        "comment": "Genuine defects of microsoft/onnxscript reproduced on the real code. `findings` (status open): the owning "
        "check prints KNOWN-FINDING for failures inside the recorded predicate and exits 0; anything else is a VIOLATION. "
        "`fixed`: repaired in /repo by the named commit; suppresses nothing (witness kept as a regression case). "
        "Generated from known_findings.d/*.json by harness/mkfindings.py; never written at run time.",
        "findings": findings,
        "fixed": fixed,
    }
    (V / "known_findings.json").write_text(json.dumps(out, indent=1) + "\n")
    print("open:", len(findings), "fixed:", len(fixed))


if __name__ == "__main__":
    main()
