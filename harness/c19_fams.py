"""C19 families: builders of pattern instances and near-misses (see c19_lib)."""
from __future__ import annotations

import math

import numpy as np

from harness.c19_lib import DT, DTNUM, NP, G, dims_str, f32, fbits

FLOATS = ("f32", "f16", "f64")


def b(x) -> str:
    return "1" if x else "0"


def rand_arr(rng: np.random.Generator, shape, dt, scale=1.0):
    if dt in ("i64", "i32"):
        return rng.integers(0, 4, size=shape).astype(NP[dt])
    return (rng.standard_normal(shape) * scale).astype(NP[dt])


def concrete(shape, sym):
    """Replace symbolic / unknown dims by concrete runtime sizes from `sym` (dict name->int, '?'->list)."""
    out = []
    for d in shape:
        if isinstance(d, int):
            out.append(d)
        elif d is None:
            out.append(sym["?"])
        else:
            out.append(sym[d])
    return out


# =========================================================================== RMS normalization


class Rms:
    name = "rms"
    ops = {"SimplifiedLayerNormalization"}

    @staticmethod
    def gen(rng):
        rank = rng.choice([1, 2, 3, 3, 3, 4])
        xshape = [rng.choice([1, 2, 3, 4, 5, 8]) for _ in range(rank)]
        D = xshape[-1]
        xdt = rng.choice(["f32", "f32", "f16", "f64"])
        cast_in = rng.random() < (0.8 if xdt == "f16" else 0.25)
        cdt = rng.choice(["f32", "f32", "f32", "f64", "f16"]) if cast_in else xdt
        cast_out = rng.random() < (0.7 if cast_in else 0.1)
        tdt = (xdt if rng.random() < 0.8 else rng.choice(FLOATS)) if cast_out else cdt
        scale_cast = rng.random() < 0.25
        sdt = rng.choice(FLOATS) if scale_cast else tdt
        # after the optional cast the scale must have the type of `normalized` (tdt)
        eps_kind = rng.choice(["s", "s", "s", "v1", "m11", "input", "v2", "int"])
        sshape = rng.choice([[D], [D], [D], [1], [], xshape[-2:] if rank >= 2 else [D], list(xshape)])
        hi_rank_scale = rng.random() < 0.07
        c = {
            "fam": "rms", "xshape": xshape, "xdt": xdt, "cast_in": cast_in, "cdt": cdt, "cast_out": cast_out,
            "tdt": tdt, "scale_cast": scale_cast, "sdt": sdt, "mul_order": rng.random() < 0.5,
            "inner_swap": rng.random() < 0.1, "eps_kind": eps_kind,
            "eps": rng.choice([1e-6, 1e-5, 1e-12, 0.001, 0.5]),
            "axes": rng.choice([[-1]] * 6 + [[rank - 1], [0], [-1, -1][:1]]),
            "pow": rng.choice([2.0] * 8 + [3.0, 2.00001, 2.001]), "pow_rank1": rng.random() < 0.06,
            "keepdims": rng.choice([1] * 9 + [None]), "noop": rng.choice([0] * 4 + [None]),
            "sshape": list(sshape),
        }
        if rng.random() < 0.45:  # structurally nominal instance: only the dtype / cast / order knobs vary
            c.update(inner_swap=False, eps_kind=rng.choice(["s", "v1"]), axes=[-1], pow=2.0, pow_rank1=False,
                     keepdims=1, noop=0, sshape=[D])
        if hi_rank_scale:
            c["sshape"] = [2] + list(xshape)  # scale of higher rank than x (must not fuse)
        return c

    @staticmethod
    def build(c):
        g = G()
        x = g.inp("x", c["xdt"], c["xshape"])
        scale = g.inp("scale", c["sdt"], c["sshape"])
        cdt = c["cdt"]
        xc = g.op("Cast", x, to=DT[cdt]) if c["cast_in"] else x
        two = g.const(np.array([c["pow"]] if c["pow_rank1"] else c["pow"], dtype=np.float32))
        xsq = g.op("Pow", xc, two)
        axes = g.const(np.array(c["axes"], dtype=np.int64))
        ms = g.op("ReduceMean", xsq, axes, keepdims=c["keepdims"], noop_with_empty_axes=c["noop"])
        ek = c["eps_kind"]
        if ek == "input":
            eps = g.inp("eps", cdt, [])
        elif ek == "int":
            # an integer-valued epsilon of the compute dtype is still a float constant: use a *float* 1.0
            eps = g.const(np.array(1.0, dtype=NP[cdt]))
        else:
            shape = {"s": [], "v1": [1], "m11": [1, 1], "v2": [c["xshape"][-1]]}[ek]
            eps = g.const(np.full(shape, c["eps"], dtype=NP[cdt]))
        mse = g.op("Add", ms, eps)
        rms = g.op("Sqrt", mse)
        rr = g.op("Reciprocal", rms)
        n = g.op("Mul", rr, xc) if c["inner_swap"] else g.op("Mul", xc, rr)
        if c["cast_out"]:
            n = g.op("Cast", n, to=DT[c["tdt"]])
        sc = g.op("Cast", scale, to=DT[c["tdt"]]) if c["scale_cast"] else scale
        y = g.op("Mul", n, sc, name="y") if c["mul_order"] else g.op("Mul", sc, n, name="y")
        g.out("y")
        return g.model()

    @staticmethod
    def valid(c):
        """Well-typed original?  (scale after optional cast must be tdt; the pattern's scale cast goes to compute dtype)"""
        if not c["scale_cast"] and c["sdt"] != c["tdt"]:
            return False
        return True

    @staticmethod
    def line(c):
        ek = c["eps_kind"]
        eps_val = 1.0 if ek == "int" else float(np.asarray(c["eps"], dtype=NP[c["cdt"]]))
        eps_size = {"s": 1, "v1": 1, "m11": 1, "v2": c["xshape"][-1], "input": 1, "int": 1}[ek]
        # the scale Cast in the graph goes to tdt; the pattern variable compute_dtype is shared with the input cast
        return " ".join([
            "rms", f"xdt={DTNUM[c['xdt']]}", f"sdt={DTNUM[c['sdt']]}", f"cast_in={b(c['cast_in'])}", f"cdt={DTNUM[c['cdt']]}",
            f"cast_out={b(c['cast_out'])}", f"tdt={DTNUM[c['tdt']]}", f"scale_cast={b(c['scale_cast'])}",
            f"mul_order={b(c['mul_order'])}", f"inner_swap={b(c['inner_swap'])}", f"eps_const={b(ek != 'input')}",
            f"eps_size={eps_size}", f"eps={fbits(eps_val)}", f"axes={','.join(map(str, c['axes']))}",
            f"pow={fbits(f32(c['pow']))}", f"pow_rank={1 if c['pow_rank1'] else 0}",
            f"keepdims={'none' if c['keepdims'] is None else c['keepdims']}",
            f"noop={'none' if c['noop'] is None else c['noop']}",
            f"xrank={len(c['xshape'])}", f"srank={len(c['sshape'])}",
            f"epsrank={ {'s': 0, 'v1': 1, 'm11': 2, 'v2': 1, 'input': 0, 'int': 0}[ek] }",
        ])

    @staticmethod
    def fuse(model):
        from onnxscript.rewriter.ort_fusions.rms_normalization import fuse_rms_normalization

        return fuse_rms_normalization(model)

    @staticmethod
    def feeds(c, rng):
        f = {"x": rand_arr(rng, c["xshape"], c["xdt"]), "scale": rand_arr(rng, c["sshape"], c["sdt"])}
        if c["eps_kind"] == "input":
            f["eps"] = np.asarray(c["eps"], dtype=NP[c["cdt"]])
        return f

    @staticmethod
    def out_dt(c):
        return "f16" if "f16" in (c["xdt"], c["tdt"], c["sdt"], c["cdt"]) else "f32"


# =========================================================================== Skip(Simplified)LayerNormalization


def _bshape(a, bsh):
    """numpy-style broadcast of two static/symbolic shapes (lists); None if incompatible/unknown."""
    ra, rb = list(a)[::-1], list(bsh)[::-1]
    out = []
    for i in range(max(len(ra), len(rb))):
        x = ra[i] if i < len(ra) else 1
        y = rb[i] if i < len(rb) else 1
        if x == 1:
            out.append(y)
        elif y == 1 or x == y:
            out.append(x)
        else:
            return None
    return out[::-1]


class Skip:
    name = "skip"
    ops = {"SkipSimplifiedLayerNormalization", "SkipLayerNormalization", "SimplifiedLayerNormalization", "LayerNormalization"}

    @staticmethod
    def gen(rng):
        kind = rng.choice(["rms", "layer"])
        symbolic = rng.random() < 0.3
        unknown = rng.random() < 0.12
        Bd = rng.choice([1, 2, 3])
        Sd = rng.choice([1, 2, 4])
        D = rng.choice([2, 4, 8])
        if unknown:
            base = [None, None, D]
        elif symbolic:
            base = ["B", "S", D]
        else:
            base = [Bd, Sd, D]

        def variant(full_p=0.8):
            r = rng.random()
            if r < full_p:
                return list(base)
            return rng.choice([[1] + base[1:], base[1:], [D], [1, 1, D], [base[0], base[1], 1],
                               (["B2", "S", D] if symbolic else list(base))])

        in_shape = variant(0.9)
        skip_shape = variant(0.75)
        # the Add must stay broadcast-valid and produce the full [B,S,D] (LayerNorm input)
        gamma_shape = rng.choice([[D]] * 6 + [[1, D], [1], [1, 1, D]])
        beta_shape = rng.choice([[D]] * 7 + [[1, D], [1]])
        has_bias = rng.choice(["none", "none", "pre", "post"])
        bias_shape = rng.choice([[D]] * 5 + [[1, D], [1], list(base)])
        c = {
            "fam": "skip", "kind": kind, "in_shape": in_shape, "skip_shape": skip_shape, "gamma_shape": gamma_shape,
            "beta_shape": beta_shape, "has_bias": has_bias, "bias_shape": bias_shape,
            "add_order": rng.choice(["skip_in", "in_skip"]), "bias_first": rng.random() < 0.2,
            "stash": rng.choice([None, None, 1, 1, 11]), "eps": rng.choice([None, 1e-5, 1e-6, 0.01]),
            "axis": rng.choice([-1] * 6 + [None, 2]), "use_sum": rng.random() < 0.4,
            "no_beta": kind == "layer" and rng.random() < 0.1, "dt": rng.choice(["f32", "f32", "f16"]),
            "rt": {"B": Bd, "S": Sd, "B2": 1, "?": rng.choice([1, 2])},
            # low-magnitude rows (mean square / variance ~1e-6) make the epsilon the fused node carries observable
            "mag": rng.choice([1.0, 1.0, 1e-3]),
        }
        if rng.random() < 0.14:  # directed: the DEFAULT epsilon must be observable (low-magnitude float32 rows)
            c.update(in_shape=list(base), skip_shape=list(base), gamma_shape=[D], beta_shape=[D], bias_shape=[D],
                     bias_first=False, stash=rng.choice([None, 1]), axis=-1, no_beta=False, eps=None, mag=1e-3, dt="f32")
            return c
        if rng.random() < 0.4:  # nominal shapes / attributes: only bias placement, orders, eps, dtype vary
            c.update(in_shape=list(base), skip_shape=list(base), gamma_shape=[D], beta_shape=[D], bias_shape=[D],
                     bias_first=False, stash=rng.choice([None, 1]), axis=-1, no_beta=False)
        return c

    @staticmethod
    def build(c):
        g = G(17 if c["kind"] == "layer" else 18)
        dt = c["dt"]
        x = g.inp("input", dt, c["in_shape"])
        skip = g.inp("skip", dt, c["skip_shape"])
        gamma = g.inp("gamma", dt, c["gamma_shape"])
        beta = g.inp("beta", dt, c["beta_shape"]) if c["kind"] == "layer" and not c["no_beta"] else None
        bias = g.inp("bias", dt, c["bias_shape"]) if c["has_bias"] != "none" else None
        a = x
        if c["has_bias"] == "pre":
            a = g.op("Add", bias, x, name="pre") if c["bias_first"] else g.op("Add", x, bias, name="pre")
        s = g.op("Add", skip, a, name="sum") if c["add_order"] == "skip_in" else g.op("Add", a, skip, name="sum")
        if c["has_bias"] == "post":
            s = g.op("Add", bias, s, name="post") if c["bias_first"] else g.op("Add", s, bias, name="post")
        attrs = dict(axis=c["axis"], epsilon=c["eps"], stash_type=c["stash"])
        if c["kind"] == "layer":
            ins = [s, gamma] + ([beta] if beta else [])
            y = g.op("LayerNormalization", *ins, name="y", **attrs)
        else:
            y = g.op("SimplifiedLayerNormalization", s, gamma, name="y", **attrs)
        g.out("y", dt, None)
        if c["use_sum"]:
            g.op("Identity", s, name="sum_out")
            g.out("sum_out")
        return g.model()

    @staticmethod
    def valid(c):
        return True

    @staticmethod
    def shapes(c):
        """Inferred shapes of the intermediate Adds (the same rule ONNX shape inference uses)."""
        a = c["in_shape"]
        pre = post = None
        if c["has_bias"] == "pre":
            pre = _bshape(a, c["bias_shape"])
            a = pre
        s = _bshape(c["skip_shape"], a) if a is not None else None
        if c["has_bias"] == "post" and s is not None:
            post = _bshape(s, c["bias_shape"])
        return pre, s, post

    @staticmethod
    def line(c, shapes=None):
        """`shapes`: dict value-name -> shape (list) as seen by the real code after shape inference."""
        sh = shapes or {}

        def S(n):
            return dims_str(sh.get(n))

        return " ".join([
            "skip", f"kind={c['kind']}", f"has_bias={c['has_bias']}", f"add_order={c['add_order']}",
            f"bias_first={b(c['bias_first'])}", f"input={S('input')}", f"skip={S('skip')}", f"gamma={S('gamma')}",
            f"beta={S('beta') if c['kind'] == 'layer' and not c['no_beta'] else 'absent'}",
            f"bias={S('bias') if c['has_bias'] != 'none' else 'absent'}", f"pre={S('pre')}", f"sum={S('sum')}",
            f"post={S('post')}", f"stash={'none' if c['stash'] is None else c['stash']}",
            f"eps={'none' if c['eps'] is None else fbits(f32(c['eps']))}",
            f"axis={'none' if c['axis'] is None else c['axis']}",
        ])

    @staticmethod
    def fuse(model):
        from onnxscript.rewriter.ort_fusions.skip_normalization import (
            fuse_skip_layer_normalization,
            fuse_skip_rms_normalization,
        )

        return fuse_skip_layer_normalization(model) + fuse_skip_rms_normalization(model)

    @staticmethod
    def feeds(c, rng):
        rt = c["rt"]
        f = {}
        mag = c.get("mag", 1.0) if c["dt"] == "f32" else 1.0
        for n, k in [("input", "in_shape"), ("skip", "skip_shape"), ("gamma", "gamma_shape"), ("beta", "beta_shape"),
                     ("bias", "bias_shape")]:
            f[n] = rand_arr(rng, concrete(c[k], rt), c["dt"], mag if n in ("input", "skip", "bias") else 1.0)
        return f

    @staticmethod
    def out_dt(c):
        return c["dt"]


# =========================================================================== Gelu (tanh / erf / erfgelu)

_S2PI = math.sqrt(2.0 / math.pi)
_S2 = math.sqrt(2.0)


class Gelu:
    name = "gelu"
    ops = {"FastGelu", "Gelu"}

    @staticmethod
    def gen(rng):
        form = rng.choice(["tanh", "erf", "eg1", "eg2"])
        # per-node operand order flags: 0 = the pattern's order, 1 = swapped
        nflags = {"tanh": 6, "erf": 3, "eg1": 3, "eg2": 3}[form]
        sw = [1 if rng.random() < 0.08 else 0 for _ in range(nflags)]
        pert = rng.choice(["none"] * 6 + ["tol", "far", "rank1"])
        which = rng.randrange(4)
        return {"fam": "gelu", "form": form, "sw": sw, "pert": pert, "which": which, "dt": rng.choice(["f32", "f32", "f16"]),
                "shape": [rng.choice([1, 2, 3, 5]) for _ in range(rng.choice([1, 2, 3]))]}

    @staticmethod
    def consts(c):
        """The constants of the form, after perturbation, as float32 values (what the graph holds)."""
        form = c["form"]
        base = {"tanh": [3.0, 0.044715, _S2PI, 1.0, 0.5], "erf": [_S2, 1.0, 0.5], "eg1": [_S2, 1.0, 0.5],
                "eg2": [_S2, 1.0, 0.5]}[form]
        vals = [f32(v) for v in base]
        i = c["which"] % len(vals)
        if c["pert"] == "tol":
            vals[i] = f32(vals[i] * (1 + 4e-6))
        elif c["pert"] == "far":
            vals[i] = f32(vals[i] * 1.01)
        return vals, (i if c["pert"] == "rank1" else -1)

    @staticmethod
    def build(c):
        g = G()
        dt = c["dt"]
        x = g.inp("x", dt, c["shape"])
        vals, r1 = Gelu.consts(c)
        cs = [g.const(np.array([v] if k == r1 else v, dtype=NP[dt])) for k, v in enumerate(vals)]
        sw = c["sw"]

        def bin(op, i, a, b_, **kw):
            return g.op(op, b_, a, **kw) if sw[i] else g.op(op, a, b_, **kw)

        if c["form"] == "tanh":
            t1 = g.op("Pow", x, cs[0])
            t2 = bin("Mul", 0, cs[1], t1)
            t3 = bin("Add", 1, x, t2)
            t4 = bin("Mul", 2, cs[2], t3)
            t5 = g.op("Tanh", t4)
            t6 = bin("Add", 3, t5, cs[3])
            t7 = bin("Mul", 4, cs[4], t6)
            bin("Mul", 5, x, t7, name="y")
        elif c["form"] == "erf":
            t1 = g.op("Div", x, cs[0])
            t2 = g.op("Erf", t1)
            t3 = bin("Add", 0, t2, cs[1])
            t4 = bin("Mul", 1, x, t3)
            bin("Mul", 2, t4, cs[2], name="y")
        elif c["form"] == "eg1":
            t3 = bin("Add", 0, g.op("Erf", g.op("Div", x, cs[0])), cs[1])
            t4 = bin("Mul", 1, x, t3)
            bin("Mul", 2, cs[2], t4, name="y")
        else:
            t3 = bin("Add", 0, g.op("Erf", g.op("Div", x, cs[0])), cs[1])
            t4 = bin("Mul", 1, cs[2], t3)
            bin("Mul", 2, x, t4, name="y")
        g.out("y")
        return g.model()

    @staticmethod
    def line(c):
        vals, r1 = Gelu.consts(c)
        # the real code sees the constants at the tensor's dtype
        seen = [float(np.asarray(v, dtype=NP[c["dt"]])) for v in vals]
        return " ".join(["gelu", f"form={c['form']}", "sw=" + ",".join(map(str, c["sw"])),
                         "consts=" + ",".join(fbits(v) for v in seen), f"rank1={r1}"])

    @staticmethod
    def fuse(model):
        from onnxscript.rewriter.ort_fusions.erfgelu import fuse_erfgelu
        from onnxscript.rewriter.ort_fusions.gelu import fuse_gelu

        return fuse_erfgelu(model) + fuse_gelu(model)

    @staticmethod
    def feeds(c, rng):
        return {"x": rand_arr(rng, c["shape"], c["dt"], 2.0)}

    @staticmethod
    def out_dt(c):
        return c["dt"]


# =========================================================================== BiasGelu


class BiasGelu:
    name = "biasgelu"
    ops = {"BiasGelu", "Gelu"}

    @staticmethod
    def gen(rng):
        D = rng.choice([1, 2, 4, 8])
        rank = rng.choice([1, 2, 3, 3])
        full = [rng.choice([1, 2, 3]) for _ in range(rank - 1)] + [D]
        a_shape = rng.choice([full] * 5 + [[D], [1], full[:-1] + [1]])
        b_shape = rng.choice([[D]] * 6 + [[1], [1, D], full, full, []])
        if rng.random() < 0.12:  # the commuted rule: 1-D first operand, full-rank second
            a_shape, b_shape = [D], (full if len(full) > 1 else [2, D])
        return {"fam": "biasgelu", "contrib": rng.random() < 0.5, "approx": rng.choice([None, None, "none", "tanh"]),
                "a_shape": list(a_shape), "b_shape": list(b_shape), "dt": rng.choice(["f32", "f32", "f16"]),
                "unknown_rank": rng.random() < 0.05}

    @staticmethod
    def build(c):
        g = G(20)
        a = g.inp("a", c["dt"], c["a_shape"])
        bb = g.inp("b", c["dt"], None if c["unknown_rank"] else c["b_shape"])
        s = g.op("Add", a, bb)
        if c["contrib"]:
            g.op("Gelu", s, domain="com.microsoft", name="y")
        else:
            g.op("Gelu", s, name="y", approximate=c["approx"])
        g.out("y", c["dt"], None)
        return g.model()

    @staticmethod
    def valid(c):
        return _bshape(c["a_shape"], c["b_shape"]) is not None

    @staticmethod
    def line(c):
        return " ".join(["biasgelu", f"contrib={b(c['contrib'])}",
                         f"approx={'none' if (c['approx'] is None or c['contrib']) else 'q' + c['approx']}",
                         f"a={dims_str(c['a_shape'])}", f"b={dims_str(None if c['unknown_rank'] else c['b_shape'])}"])

    @staticmethod
    def fuse(model):
        from onnxscript.rewriter.ort_fusions.bias_gelu import fuse_bias_gelu

        return fuse_bias_gelu(model)

    @staticmethod
    def feeds(c, rng):
        return {"a": rand_arr(rng, c["a_shape"], c["dt"]), "b": rand_arr(rng, c["b_shape"], c["dt"])}

    @staticmethod
    def out_dt(c):
        return c["dt"]


# =========================================================================== Softmax (fp32 upcast removal)


class Softmax:
    name = "softmax"
    ops = {"Softmax", "Cast"}

    @staticmethod
    def gen(rng):
        rank = rng.choice([1, 2, 3, 4])
        return {"fam": "softmax", "dt": rng.choice(["f16", "f16", "f32", "f64"]), "up": rng.choice(["f32"] * 5 + ["f64", "f16"]),
                "down": rng.choice(["f16"] * 5 + ["f32"]), "axis": rng.choice([None, -1, 0, rank - 1, -rank]),
                "shape": [rng.choice([1, 2, 3, 5]) for _ in range(rank)], "opset": rng.choice([13, 18])}

    @staticmethod
    def build(c):
        g = G(c["opset"])
        x = g.inp("x", c["dt"], c["shape"])
        u = g.op("Cast", x, to=DT[c["up"]])
        s = g.op("Softmax", u, axis=c["axis"])
        g.op("Cast", s, to=DT[c["down"]], name="y")
        g.out("y")
        return g.model()

    @staticmethod
    def line(c):
        return " ".join(["softmax", f"dt={DTNUM[c['dt']]}", f"up={DTNUM[c['up']]}", f"down={DTNUM[c['down']]}",
                         f"axis={'none' if c['axis'] is None else c['axis']}"])

    @staticmethod
    def fuse(model):
        from onnxscript.rewriter.ort_fusions import softmax

        return softmax.rules.apply_to_model(model)

    @staticmethod
    def feeds(c, rng):
        return {"x": rand_arr(rng, c["shape"], c["dt"], 3.0)}

    @staticmethod
    def out_dt(c):
        return "f16" if "f16" in (c["dt"], c["up"], c["down"]) else "f32"


# =========================================================================== FusedMatMul rule set


def perm_named(kind: str, n: int):
    r = list(range(n))
    if kind == "none":
        return None
    if kind == "id":
        return r
    if kind == "swap":
        return r[:-2] + [r[-1], r[-2]] if n >= 2 else r
    if kind == "rotL":
        return r[1:] + r[:1]
    if kind == "rotR":
        return r[-1:] + r[:-1]
    if kind == "bp":  # [1,...,N-2,0,N-1]
        return r[1:-1] + [r[0], r[-1]]
    if kind == "bpinv":  # [N-2,0,...,N-3,N-1]
        return [r[-2]] + r[:-2] + [r[-1]]
    if kind == "sw0L":  # [N-1,1,...,N-2,0]
        return [r[-1]] + r[1:-1] + [r[0]] if n >= 2 else r
    if kind == "rev":
        return r[::-1]
    if kind == "bswap":  # last two swapped AND the leading (batch) axes permuted: [1,0,…,N-1,N-2]
        return [1, 0] + r[2:-2] + [r[-1], r[-2]] if n >= 4 else (r[:-2] + [r[-1], r[-2]] if n >= 2 else r)
    if kind == "brot":  # batch axes rotated, last two kept: [1,…,N-3,0,N-2,N-1]
        return r[1:-2] + [0] + r[-2:] if n >= 4 else r
    raise ValueError(kind)


class Fmm:
    name = "fmm"
    ops = {"FusedMatMul", "MatMul", "Transpose", "Div"}

    @staticmethod
    def gen(rng):
        kind = rng.choice(["div", "t1", "t2", "mt", "t1", "t2"])
        rank = rng.choice([2, 2, 3, 3, 4])
        fused = rng.random() < 0.6
        inner = None
        if fused:
            inner = {"transA": rng.choice([None, 0, 1, 1]), "transB": rng.choice([None, 0, 1, 1]),
                     "transBatchA": rng.choice([None, 0, 0, 1]) if rank >= 3 else None,
                     "transBatchB": rng.choice([None, 0, 0, 1]) if rank >= 3 else None,
                     "alpha": rng.choice([None, 1.0, 0.5, 2.5])}
        pk = rng.choice(["none", "id", "swap", "swap", "rotL", "rotR", "bp", "bpinv", "sw0L", "rev", "bswap", "bswap",
                         "brot"])
        if pk in ("bswap", "brot"):
            rank = 4  # needs two batch axes
            if inner is not None and inner["transBatchA"] is None:
                inner.update(transBatchA=rng.choice([None, 0, 0, 1]), transBatchB=rng.choice([None, 0, 0, 1]))
        c = {"fam": "fmm", "kind": kind, "rank": rank, "n": rng.choice([2, 3]), "inner": inner, "perm_kind": pk,
             "perm": perm_named(pk, rank), "cst_shape": rng.choice([[], [], [1], [1, 1], [2]]),
             "cst": rng.choice([2.0, 0.5, 8.0, -3.0, 1.0]), "cst_const": rng.random() < 0.9,
             "noncube": False}
        # directed: Transpose AFTER the product, rank 2 (the only case (Fused)MatMulTranspose accepts)
        if rng.random() < 0.06:
            if inner is not None:
                inner.update(transBatchA=None, transBatchB=None)
            pk = rng.choice(["swap", "none"])
            c.update(kind="mt", rank=2, perm_kind=pk, perm=perm_named(pk, 2))
            return c
        # directed: the three batch-transpose rules on equal-rank operands
        if rng.random() < 0.10:
            kind = rng.choice(["t1", "t2"])
            rank = rng.choice([3, 4])
            tb = rng.choice([None, 0, 1])
            pk = rng.choice(["bp", "rotL"] if not tb else ["bpinv", "rotR", "sw0L"])
            inner = {"transA": rng.choice([None, 0, 1]), "transB": rng.choice([None, 0, 1]), "transBatchA": None,
                     "transBatchB": None, "alpha": rng.choice([None, 0.5])}
            inner["transBatchA" if kind == "t1" else "transBatchB"] = tb
            c.update(kind=kind, rank=rank, inner=inner, perm_kind=pk, perm=perm_named(pk, rank))
            return c
        # directed: a perm-less Transpose (reverses every axis) next to an operand of another rank — the rule must
        # look at the rank of the TRANSPOSED operand (x for the first-operand rules, y for the second-operand rules)
        if rng.random() < 0.2:
            kind = rng.choice(["t1", "t2"])
            hi = rng.choice([3, 3, 4])
            tr_rank, other = rng.choice([(hi, 2), (2, hi)])
            xr, yr = (tr_rank, other) if kind == "t1" else (other, tr_rank)
            if inner is not None:
                inner.update(transBatchA=None, transBatchB=None)
            c.update(kind=kind, xrank=xr, yrank=yr, perm_kind="none", perm=None)
            return c
        # mixed ranks (2 vs >= 3, both operand positions), incl. perm-less Transposes that reverse every axis
        if kind in ("t1", "t2", "mt") and rng.random() < 0.35:
            xr, yr = rng.choice([(2, 3), (3, 2), (2, 4), (4, 2), (3, 4)])
            opr = xr if kind == "t1" else yr if kind == "t2" else max(xr, yr)
            pk = rng.choice(["none", "none", "swap", "rev", "id", "rotL", "bswap"])
            c.update(xrank=xr, yrank=yr, perm_kind=pk, perm=perm_named(pk, opr))
            if inner is not None:
                inner.update(transBatchA=None, transBatchB=None)
            return c
        # a few non-cube instances of the basic rules (shapes derivable by hand)
        if kind in ("t1", "t2") and inner is None and pk in ("swap", "none") and rng.random() < 0.7:
            if pk == "swap" or rank == 2:
                c["noncube"] = True
                c["mkn"] = [rng.choice([1, 2, 3]), rng.choice([2, 4]), rng.choice([1, 3, 5])]
        return c

    @staticmethod
    def shapes(c):
        r, n = c["rank"], c["n"]
        if c.get("noncube"):
            M, K, N = c["mkn"]
            bt = [2] * (r - 2)
            if c["kind"] == "t1":
                return bt + [K, M], bt + [K, N]
            return bt + [M, K], bt + [N, K]
        return [n] * c.get("xrank", r), [n] * c.get("yrank", r)

    @staticmethod
    def build(c):
        g = G()
        xs, ys = Fmm.shapes(c)
        x = g.inp("x", "f32", xs)
        y = g.inp("y", "f32", ys)

        def mm(a, b_, name=None):
            if c["inner"] is None:
                return g.op("MatMul", a, b_, name=name)
            return g.op("FusedMatMul", a, b_, domain="com.microsoft", name=name, **c["inner"])

        k = c["kind"]
        if k == "div":
            if c["cst_const"]:
                cst = g.const(np.full(c["cst_shape"], c["cst"], dtype=np.float32))
            else:
                cst = g.inp("cst", "f32", c["cst_shape"])
            g.op("Div", mm(x, y), cst, name="out")
        elif k == "t1":
            mm(g.op("Transpose", x, perm=c["perm"]), y, name="out")
        elif k == "t2":
            mm(x, g.op("Transpose", y, perm=c["perm"]), name="out")
        else:
            g.op("Transpose", mm(x, y), perm=c["perm"], name="out")
        g.out("out", "f32", None)
        return g.model()

    @staticmethod
    def line(c):
        i = c["inner"]

        def o(v):
            return "none" if v is None else str(v)

        inner = "none" if i is None else ",".join(
            [o(i["transA"]), o(i["transB"]), o(i["transBatchA"]), o(i["transBatchB"]),
             "none" if i["alpha"] is None else fbits(f32(i["alpha"]))])
        return " ".join(["fmm", f"kind={c['kind']}", f"rank={c['rank']}", f"xrank={c.get('xrank', c['rank'])}",
                         f"yrank={c.get('yrank', c['rank'])}", f"inner={inner}",
                         "perm=" + ("none" if c["perm"] is None else ",".join(map(str, c["perm"]))),
                         f"cst_const={b(c['cst_const'])}", f"cst_shape={dims_str(c['cst_shape'])}",
                         f"cst={fbits(f32(c['cst']))}"])

    @staticmethod
    def fuse(model):
        from onnxscript.rewriter.ort_fusions.fused_matmul_rule_sets import fused_matmul_rule_sets

        return fused_matmul_rule_sets().apply_to_model(model)

    @staticmethod
    def feeds(c, rng):
        xs, ys = Fmm.shapes(c)
        f = {"x": rand_arr(rng, xs, "f32"), "y": rand_arr(rng, ys, "f32")}
        if not c["cst_const"]:
            f["cst"] = np.full(c["cst_shape"], c["cst"], dtype=np.float32)
        return f

    @staticmethod
    def out_dt(c):
        return "f32"


# =========================================================================== Rotary embedding pipeline

I64MAX = 9223372036854775807


class Rope:
    """x*cos + rotate_half(x)*sin with the HF cos/sin computation: fuse_rotary_embedding ->
    fuse_cos_sin_cache -> CSE -> fuse_partial_rotary_embedding (the order of fuse_xformers)."""

    name = "rope"
    ops = {"RotaryEmbedding"}

    @staticmethod
    def gen(rng):
        E = rng.choice([2, 4, 6, 8, 5, 3])
        partial = rng.random() < 0.3
        rd = E
        if partial:
            rd = rng.choice([d for d in (2, 4, 6) if d < E] or [E])
            partial = rd < E
        half = rd // 2
        near = rng.choice(["none"] * 7 + ["end1", "start2", "start1", "end2"])
        s1, e1, s2, e2 = 0, half, half, rng.choice([rd, I64MAX, rd + 3])
        if near == "end1" and half > 1:
            e1 = half - 1
        elif near == "start2":
            s2 = half + 1
        elif near == "start1":
            s1 = 1
        elif near == "end2" and rd > half + 1:
            e2 = rd - 1
        B = rng.choice([1, 2])
        return {"fam": "rope", "B": B, "H": rng.choice([1, 2, 4]), "S": rng.choice([1, 3, 4]), "E": E, "rd": rd,
                "partial": partial, "sl": [s1, e1, s2, e2], "pos_rank": rng.choice([1, 2, 2]) if B == 1 else 2,
                "symB": rng.random() < 0.25, "symH": rng.random() < 0.08, "symE": rng.random() < 0.06,
                "expand": rng.random() < 0.2, "cast": rng.choice([None, None, None, "f32", "f16"]),
                "pos_const": rng.random() < 0.12, "x_rank3": False,
                "p_end1": rng.choice([rd] * 6 + [rd - 1, rd + 1]), "p_start2": rd,
                "max_pos": rng.choice([None, None, 16])}

    @staticmethod
    def valid(c):
        s1, e1, s2, e2 = c["sl"]
        rd = c["rd"]
        n1 = max(0, min(e1, rd) - s1)
        n2 = max(0, min(e2, rd) - s2)
        if n1 + n2 != rd or rd % 2 != 0 and False:
            return False
        if c["partial"] and (c["p_end1"] != rd):
            # the first slice must still be rd wide for the rotary part to type-check
            return False
        return rd >= 2

    @staticmethod
    def build(c):
        g = G()
        B, H, S, E, rd = c["B"], c["H"], c["S"], c["E"], c["rd"]
        Bs = "B" if c["symB"] else B
        xshape = [Bs, "H" if c["symH"] else H, S, "E" if c["symE"] else E]
        if c["x_rank3"]:
            xshape = xshape[1:]
        xdt = "f16" if c.get("cast") == "f16" else "f32"
        x = g.inp("x", xdt, xshape)
        if c.get("pos_const"):
            pv = np.arange(S, dtype=np.int64)
            pos = g.const(np.stack([pv + i for i in range(B)]) if c["pos_rank"] == 2 else pv, name="position_ids")
        else:
            pos = g.inp("position_ids", "i64", [Bs, S] if c["pos_rank"] == 2 else [S])
        half = rd // 2
        nf = max(1, (rd + 1) // 2) if rd % 2 else half
        inv = g.const((1.0 / (10.0 ** (np.arange(nf, dtype=np.float32) / max(nf, 1)))).reshape(1, nf, 1), name="inv_freq")
        pe = g.op("Unsqueeze", pos, g.const(np.array([1] if c["pos_rank"] == 2 else [0, 1], dtype=np.int64)))
        pf = g.op("Cast", pe, to=DT["f32"])
        invx = inv
        if c["expand"]:
            invx = g.op("Expand", inv, g.const(np.array([B, nf, 1], dtype=np.int64)))
        fr = g.op("MatMul", invx, pf)
        fr = g.op("Transpose", fr, perm=[0, 2, 1])
        emb = g.op("Concat", fr, fr, axis=-1)
        if rd % 2:
            emb = g.op("Slice", emb, g.const(np.array([0], dtype=np.int64)), g.const(np.array([rd], dtype=np.int64)),
                       g.const(np.array([2], dtype=np.int64)))
        cosv, sinv = g.op("Cos", emb), g.op("Sin", emb)
        if c.get("cast"):
            cosv = g.op("Cast", cosv, to=DT[c["cast"]])
            sinv = g.op("Cast", sinv, to=DT[c["cast"]])
        cos = g.op("Unsqueeze", cosv, g.const(np.array([1], dtype=np.int64)))
        sin = g.op("Unsqueeze", sinv, g.const(np.array([1], dtype=np.int64)))
        ax3 = np.array([3], dtype=np.int64)
        one = np.array([1], dtype=np.int64)

        def sl(v, a, b_, name=None):
            return g.op("Slice", v, g.const(np.array([a], dtype=np.int64)), g.const(np.array([b_], dtype=np.int64)),
                        g.const(ax3), g.const(one), name=name)

        if c["partial"]:
            xe = sl(x, 0, c["p_end1"], name="xe")
            xu = sl(x, c["p_start2"], I64MAX)
        else:
            xe = x
        s1, e1, s2, e2 = c["sl"]
        x1 = sl(xe, s1, e1)
        x2 = sl(xe, s2, e2)
        rot = g.op("Concat", g.op("Neg", x2), x1, axis=-1)
        emb_x = g.op("Add", g.op("Mul", xe, cos), g.op("Mul", rot, sin), name=("emb" if c["partial"] else "out"))
        if c["partial"]:
            g.op("Concat", emb_x, xu, axis=-1, name="out")
        g.out("out", xdt, None)
        return g.model()

    @staticmethod
    def line(c, shapes=None):
        sh = shapes or {}
        return " ".join(["rope", f"x={dims_str(sh.get('x'))}", f"xe={dims_str(sh.get('xe' if c['partial'] else 'x'))}",
                         "sl=" + ",".join(map(str, c["sl"])), f"partial={b(c['partial'])}",
                         f"p_end1={c['p_end1']}", f"p_start2={c['p_start2']}", f"pos_rank={c['pos_rank']}",
                         f"inv0={c['B'] if c['expand'] else 1}", f"cast16={b(c.get('cast') == 'f16')}",
                         f"pos_const={b(c.get('pos_const'))}", f"odd={b(c['rd'] % 2)}"])

    @staticmethod
    def fuse(model):
        import onnx_ir.passes.common as common_passes

        from onnxscript.optimizer import optimize
        from onnxscript.rewriter.ort_fusions.cos_sin_cache import fuse_cos_sin_cache
        from onnxscript.rewriter.ort_fusions.rotary_embedding import (
            fuse_partial_rotary_embedding,
            fuse_rotary_embedding,
        )

        optimize(model)
        c1 = fuse_rotary_embedding(model)
        c2 = fuse_cos_sin_cache(model)
        common_passes.CommonSubexpressionEliminationPass()(model)
        c3 = fuse_partial_rotary_embedding(model)
        optimize(model)
        return f"{c1}/{c2}/{c3}"

    @staticmethod
    def feeds(c, rng):
        B, H, S, E = c["B"], c["H"], c["S"], c["E"]
        xs = [B, H, S, E][1 if c["x_rank3"] else 0:]
        pos = np.arange(S, dtype=np.int64)
        if c["pos_rank"] == 2:
            pos = np.stack([pos + i for i in range(B)])
        return {"x": rand_arr(rng, xs, "f16" if c.get("cast") == "f16" else "f32"), "position_ids": pos}

    @staticmethod
    def out_dt(c):
        return "f16" if c.get("cast") == "f16" else "f32"


# =========================================================================== SDPA (+ replace_sdpa_by_mha)


class Sdpa:
    name = "sdpa"
    ops = {"SDPA", "MultiHeadAttention"}

    @staticmethod
    def gen(rng):
        Dh = rng.choice([2, 4, 8, 16])

        def scaling(p):
            if rng.random() > p:
                return None
            return {"op": rng.choice(["Mul", "Div"]), "rank1": rng.random() < 0.15, "v": None, "const": rng.random() < 0.93}

        sc = {"q": scaling(0.3), "k": scaling(0.3), "qk": scaling(0.6)}
        # pick values so that the overall scale is the default 1/sqrt(Dh) about half of the time
        default = rng.random() < 0.5
        present = [k for k in ("q", "k", "qk") if sc[k]]
        target = 1.0 / math.sqrt(Dh) if default else rng.choice([0.1, 0.25, 1.0, 1.0 / math.sqrt(Dh) * 1.00002, 0.3])
        for k in present:
            f = target ** (1.0 / len(present))
            sc[k]["v"] = f if sc[k]["op"] == "Mul" else 1.0 / f
        B, H, S, Skv = rng.choice([1, 2]), rng.choice([1, 2, 3]), rng.choice([1, 2, 4]), rng.choice([1, 3, 4])
        mask = rng.choice(["none", "none", "S,Skv", "1,1,S,Skv", "B,1,S,Skv", "B,H,S,Skv", "1,1,1,Skv", "Skv"])
        return {"fam": "sdpa", "B": B, "H": H, "S": S, "Skv": Skv, "Dh": Dh, "Dv": rng.choice([Dh, Dh, 2, 6]),
                "kpat": rng.choice([1, 1, 2, 3]), "sc": sc, "mask": mask, "nan_guard": rng.random() < 0.5,
                "miss": rng.choice(["none"] * 8 + ["kB", "vB", "kH", "perm"]), "sym": rng.random() < 0.2,
                "symDh": rng.random() < 0.06, "dt": rng.choice(["f32", "f32", "f32", "f16"])}

    @staticmethod
    def shapes(c, runtime=False):
        B, H, S, Skv, Dh, Dv = (c[k] for k in ("B", "H", "S", "Skv", "Dh", "Dv"))
        Bq = Bk = Bv = ("B" if c["sym"] and not runtime else B)
        Hk = H
        if c["miss"] == "kB" and B > 1:
            Bk = 1
        if c["miss"] == "vB" and B > 1:
            Bv = 1
        if c["miss"] == "kH" and H > 1:
            Hk = 1
        Dhs = "Dh" if (c["symDh"] and not runtime) else Dh
        q = [Bq, H, S, Dhs]
        k = [Bk, Skv, Hk, Dhs] if c["kpat"] == 3 else [Bk, Hk, Skv, Dhs]
        v = [Bv, H, Skv, Dv]
        return q, k, v

    @staticmethod
    def build(c):
        g = G()
        dt = c["dt"]
        qs, ks, vs = Sdpa.shapes(c)
        q = g.inp("query", dt, qs)
        k = g.inp("key", dt, ks)
        v = g.inp("value", dt, vs)
        B, H, S, Skv, Dh = (c[x] for x in ("B", "H", "S", "Skv", "Dh"))
        mask = None
        if c["mask"] != "none":
            env = {"B": B, "H": H, "S": S, "Skv": Skv, "1": 1}
            mask = g.inp("mask", dt, [env[t] for t in c["mask"].split(",")])
        kp = c["kpat"]
        if kp == 1:
            kt = g.op("Transpose", k, perm=[0, 1, 3, 2] if c["miss"] != "perm" else [1, 0, 3, 2])
        elif kp == 2:
            k3 = g.op("Reshape", k, g.const(np.array([-1, Skv, Dh], dtype=np.int64)))
            k3t = g.op("Transpose", k3, perm=[0, 2, 1])
            kt = g.op("Reshape", k3t, g.const(np.array([ks[0] if isinstance(ks[0], int) else -1, ks[1], Dh, Skv], dtype=np.int64)))
        else:
            kt = g.op("Transpose", k, perm=[0, 2, 3, 1])

        def scale(val, s):
            if s is None:
                return val
            arr = np.array([s["v"]] if s["rank1"] else s["v"], dtype=NP[dt])
            cst = g.const(arr) if s["const"] else g.inp(g.fresh("scale_in"), dt, list(arr.shape))
            return g.op(s["op"], val, cst)

        qq = scale(q, c["sc"]["q"])
        kt = scale(kt, c["sc"]["k"])
        att = scale(g.op("MatMul", qq, kt), c["sc"]["qk"])
        if mask is not None:
            att = g.op("Add", att, mask)
        w = g.op("Softmax", att, axis=-1)
        if c["nan_guard"]:
            w = g.op("Where", g.op("IsNaN", w), g.const(np.array(0.0, dtype=NP[dt])), w)
        g.op("MatMul", w, v, name="out")
        g.out("out", dt, None)
        return g.model()

    @staticmethod
    def valid(c):
        return not (c["symDh"] and c["kpat"] == 2)

    @staticmethod
    def line(c):
        qs, ks, vs = Sdpa.shapes(c)
        parts = ["sdpa", f"q={dims_str(qs)}", f"k={dims_str(ks)}", f"v={dims_str(vs)}", f"kpat={c['kpat']}",
                 f"perm_ok={b(c['miss'] != 'perm' or c['kpat'] != 1)}", f"mask={b(c['mask'] != 'none')}"]
        for key in ("q", "k", "qk"):
            s = c["sc"][key]
            if s is None:
                parts.append(f"{key}_sc=none")
            else:
                seen = float(np.asarray(s["v"], dtype=NP[c["dt"]]))
                parts.append(f"{key}_sc={s['op']}:{b(s['const'])}:{1 if s['rank1'] else 0}:{fbits(seen)}")
        return " ".join(parts)

    @staticmethod
    def fuse(model):
        from onnxscript.rewriter.ort_fusions.sdpa import fuse_sdpa
        from onnxscript.rewriter.ort_fusions.sdpa_via_mha import replace_sdpa_by_mha

        c1 = fuse_sdpa(model, apply_shape_inference=True)
        mid = observe_mid(model, {"SDPA"})
        c2 = replace_sdpa_by_mha(model)
        return f"{c1}/{c2} {mid} ;{via_mha(model)}"

    @staticmethod
    def feeds(c, rng):
        qs, ks, vs = Sdpa.shapes(c, runtime=True)
        dt = c["dt"]
        f = {"query": rand_arr(rng, qs, dt), "key": rand_arr(rng, ks, dt), "value": rand_arr(rng, vs, dt)}
        if c["mask"] != "none":
            env = {"B": c["B"], "H": c["H"], "S": c["S"], "Skv": c["Skv"], "1": 1}
            f["mask"] = rand_arr(rng, [env[t] for t in c["mask"].split(",")], dt)
        for key in ("q", "k", "qk"):
            s = c["sc"][key]
        return f

    @staticmethod
    def extra_feeds(c, mp):
        f = {}
        vals = [c["sc"][k] for k in ("q", "k", "qk") if c["sc"][k] is not None and not c["sc"][k]["const"]]
        names = [i.name for i in mp.graph.input if i.name.startswith("scale_in")]
        for n, s in zip(names, vals):
            f[n] = np.array([s["v"]] if s["rank1"] else s["v"], dtype=NP[c["dt"]])
        return f

    @staticmethod
    def out_dt(c):
        return c["dt"]


def via_mha(model) -> str:
    """How `replace_sdpa_by_mha` brings the 4-D SDPA operands to MHA's 3-D layout and the result back:
    per operand `T<perm>R<shape>` (Transpose then Reshape with that constant shape), `|`-separated, then the output
    path `R<shape>T<perm>`."""
    def const_list(v):
        cv = v.const_value if v is not None else None
        return "/".join(str(int(x)) for x in cv.numpy().reshape(-1)) if cv is not None else "?"

    for n in model.graph:
        if n.op_type == "MultiHeadAttention":
            parts = []
            for v in list(n.inputs)[:3]:
                p = v.producer() if v is not None else None
                if p is None or p.op_type != "Reshape":
                    parts.append("-")
                    continue
                t = p.inputs[0].producer()
                tp = "T" + "".join(str(x) for x in t.attributes.get_ints("perm")) if t is not None and t.op_type == "Transpose" else ""
                parts.append(f"{tp}R{const_list(p.inputs[1])}")
            out = "-"
            uses = list(n.outputs[0].uses())
            if uses and uses[0][0].op_type == "Reshape":
                r = uses[0][0]
                u2 = list(r.outputs[0].uses())
                tp = "T" + "".join(str(x) for x in u2[0][0].attributes.get_ints("perm")) if u2 and u2[0][0].op_type == "Transpose" else ""
                out = f"R{const_list(r.inputs[1])}{tp}"
            return " via=" + "|".join(parts + [out])
    return ""


def observe_mid(model, ops):
    from harness.c19_lib import observe

    known = {v.name for v in model.graph.inputs}
    return observe(model, "", ops, known).replace("count= ", "").replace("count=", "")


# =========================================================================== MultiHeadAttention (SDPA -> MHA)


class Mha:
    """(B,S,D) -> Reshape -> Transpose -> [past concat] -> SDPA pattern -> Transpose -> Reshape;
    fuse_sdpa, then fuse_mha1 (with past) and fuse_mha2 (without), as fuse_xformers orders them."""

    name = "mha"
    ops = {"MultiHeadAttention", "RotaryEmbedding"}
    key_op = "MultiHeadAttention"

    @staticmethod
    def gen(rng):
        H = rng.choice([1, 2, 4])
        Dh = rng.choice([2, 4, 8])
        B, S = rng.choice([1, 2]), rng.choice([1, 2, 3])
        past = rng.random() < 0.35
        Skv = S if past or rng.random() < 0.7 else rng.choice([1, 4])
        P = rng.choice([1, 2, 3]) if past else 0
        return {"fam": "mha", "B": B, "S": S, "Skv": Skv, "H": H, "Dh": Dh, "past": past, "P": P,
                "key_t": rng.random() < 0.6, "mask": rng.choice(["none", "none", "S,St", "1,1,S,St", "B,1,S,St",
                                                                  "B,H,S,St", "1,1,1,St", "1,St", "St", "1,H,1,St"]),
                "scale": rng.choice(["default", "default", "custom", "none"]), "sym": rng.random() < 0.25,
                "q_perm": rng.choice([[0, 2, 1, 3]] * 9 + [[0, 1, 2, 3]]), "kH": rng.choice(["same"] * 8 + ["one"]),
                "dt": "f32", "rotary": rng.random() < 0.3, "rot_il": rng.choice([None, None, 1]),
                # cross-attention: key/value arrive already as (B,H,Skv,Dh) (e.g. an encoder cache)
                "cross": (not past) and rng.random() < 0.2}

    @staticmethod
    def build(c):
        g = G()
        B, S, Skv, H, Dh, P = (c[k] for k in ("B", "S", "Skv", "H", "Dh", "P"))
        D = H * Dh
        Bs = "B" if c["sym"] else B
        q = g.inp("query", "f32", [Bs, S, D])
        cross = bool(c.get("cross"))
        k = g.inp("key", "f32", [Bs, H, Skv, Dh] if cross else [Bs, Skv, D])
        v = g.inp("value", "f32", [Bs, H, Skv, Dh] if cross else [Bs, Skv, D])
        shp = lambda s: g.const(np.array(s, dtype=np.int64))
        q4 = g.op("Reshape", q, shp([0, 0, H, Dh]), name="q4")
        qh = g.op("Transpose", q4, perm=c["q_perm"])
        if cross:
            k4, vh = None, v
        else:
            k4 = g.op("Reshape", k, shp([0, 0, H, Dh]), name="k4")
            v4 = g.op("Reshape", v, shp([0, 0, H, Dh]), name="v4")
            vh = g.op("Transpose", v4, perm=[0, 2, 1, 3])
        St = Skv + P
        rot = c.get("rotary") and Dh % 2 == 0 and not cross

        def rope(x4, name, seq):
            import onnx.helper as oh_

            o = g.op("RotaryEmbedding", x4, "position_ids", "cos", "sin", domain="com.microsoft", name=name,
                     interleaved=c.get("rot_il"))
            g.vinfo.append(oh_.make_tensor_value_info(name, DT["f32"], [Bs, H, seq, Dh]))
            return o

        if rot:
            g.inp("position_ids", "i64", [Bs, S])
            g.inp("cos", "f32", [S + 4, Dh // 2])
            g.inp("sin", "f32", [S + 4, Dh // 2])
            qh = rope(qh, "q_rope", S)
        if cross:
            kt = g.op("Transpose", k, perm=[0, 1, 3, 2])
        elif c["key_t"] or c["past"] or rot:
            kh = g.op("Transpose", k4, perm=[0, 2, 1, 3])
            if rot:
                kh = rope(kh, "k_rope", Skv)
            if c["past"]:
                pk = g.inp("past_key", "f32", [Bs, H, P, Dh])
                pv = g.inp("past_value", "f32", [Bs, H, P, Dh])
                kh = g.op("Concat", pk, kh, axis=-2, name="present_key")
                vh = g.op("Concat", pv, vh, axis=-2, name="present_value")
            kt = g.op("Transpose", kh, perm=[0, 1, 3, 2])
        else:
            kt = g.op("Transpose", k4, perm=[0, 2, 3, 1])
        att = g.op("MatMul", qh, kt)
        if c["scale"] != "none":
            sv = 1.0 / math.sqrt(Dh) if c["scale"] == "default" else 0.3
            att = g.op("Mul", att, g.const(np.array(sv, dtype=np.float32)))
        if c["mask"] != "none":
            env = {"B": B, "H": H, "S": S, "St": St, "1": 1}
            m = g.inp("mask", "f32", [env[t] for t in c["mask"].split(",")])
            att = g.op("Add", att, m)
        w = g.op("Softmax", att, axis=-1)
        o = g.op("MatMul", w, vh)
        ot = g.op("Transpose", o, perm=[0, 2, 1, 3])
        g.op("Reshape", ot, shp([0, 0, D]), name="out")
        g.out("out", "f32", None)
        if c["past"]:
            g.out("present_key", "f32", None)
            g.out("present_value", "f32", None)
        return g.model()

    @staticmethod
    def valid(c):
        if c.get("rotary") and c["Skv"] != c["S"]:
            return False  # one position_ids tensor serves query and key
        return c["q_perm"] == [0, 2, 1, 3] or c["S"] == c["H"]

    @staticmethod
    def line(c, shapes=None):
        sh = shapes or {}
        rot = c.get("rotary") and c["Dh"] % 2 == 0 and not c.get("cross")
        parts = ["mha", f"past={b(c['past'])}", f"cross={b(c.get('cross'))}", f"key_t={b(c['key_t'] or c['past'] or rot)}", f"rotary={b(rot)}", f"rot_il={c.get('rot_il') or 0}",
                 f"q_perm_ok={b(c['q_perm'] == [0, 2, 1, 3])}",
                 "scale=" + {"default": "none", "custom": fbits(f32(0.3)), "none": fbits(1.0)}[c["scale"]]]
        for n in ("query", "key", "value", "q4", "past_key", "past_value", "mask"):
            parts.append(f"{n}={dims_str(sh.get(n)) if n in sh else 'absent'}")
        return " ".join(parts)

    @staticmethod
    def fuse(model):
        from onnxscript.optimizer import optimize
        from onnxscript.rewriter.ort_fusions.mha import fuse_mha1, fuse_mha2
        from onnxscript.rewriter.ort_fusions.sdpa import fuse_sdpa

        c0 = fuse_sdpa(model, apply_shape_inference=True)
        c1 = fuse_mha1(model)
        c2 = fuse_mha2(model)
        return f"{c0}/{c1}/{c2}"

    @staticmethod
    def post(model):
        """Make a model with a leftover SDPA runnable (as fuse_xformers does)."""
        from onnxscript.rewriter.ort_fusions.sdpa_via_mha import replace_sdpa_by_mha

        replace_sdpa_by_mha(model)

    @staticmethod
    def feeds(c, rng):
        B, S, Skv, H, Dh, P = (c[k] for k in ("B", "S", "Skv", "H", "Dh", "P"))
        D = H * Dh
        kv = [B, H, Skv, Dh] if c.get("cross") else [B, Skv, D]
        f = {"query": rand_arr(rng, [B, S, D], "f32"), "key": rand_arr(rng, kv, "f32"), "value": rand_arr(rng, kv, "f32")}
        if c["past"]:
            f["past_key"] = rand_arr(rng, [B, H, P, Dh], "f32")
            f["past_value"] = rand_arr(rng, [B, H, P, Dh], "f32")
        if c["mask"] != "none":
            env = {"B": B, "H": H, "S": S, "St": Skv + P, "1": 1}
            f["mask"] = rand_arr(rng, [env[t] for t in c["mask"].split(",")], "f32")
        if c.get("rotary") and not c.get("cross"):
            f["position_ids"] = np.tile(np.arange(S, dtype=np.int64), (B, 1))
            f["cos"] = rng.random((S + 4, max(Dh // 2, 1))).astype(np.float32)
            f["sin"] = rng.random((S + 4, max(Dh // 2, 1))).astype(np.float32)
        return f

    @staticmethod
    def out_dt(c):
        return "f32"


# =========================================================================== InstanceNorm -> GroupNorm


class I2g:
    name = "i2g"
    ops = {"GroupNorm", "InstanceNormalization"}

    @staticmethod
    def gen(rng):
        g_ = rng.choice([1, 2, 4])
        cpg = rng.choice([1, 2, 3])
        C = g_ * cpg
        N, Hh, W = rng.choice([1, 2]), rng.choice([1, 2, 3]), rng.choice([1, 2])
        return {"fam": "i2g", "N": N, "C": C, "Hh": Hh, "W": W, "g": g_,
                "w_ones": rng.random() < 0.85, "b_zeros": rng.random() < 0.85, "wn_const": rng.random() < 0.92,
                "wf_shape": rng.choice([[C, 1, 1]] * 6 + [[C], [1, C, 1, 1], [C, 1, W], [C, Hh, 1]]),
                "bf_shape": rng.choice([[C, 1, 1]] * 6 + [[C], [1, C, 1, 1], [C, 1, W]]),
                "adj": rng.choice(["0g-1"] * 6 + ["Ng-1", "0g*", "dyn"]), "orig": rng.choice(["ok"] * 6 + ["-1", "dyn"]),
                "x_rank": rng.choice([4] * 8 + [3, 5]), "eps": rng.choice([1e-5, 1e-3]), "symN": rng.random() < 0.15}

    @staticmethod
    def xshape(c, runtime=False):
        N, C, Hh, W = c["N"], c["C"], c["Hh"], c["W"]
        n = N if (runtime or not c["symN"]) else "N"
        return {3: [n, C, Hh * W], 4: [n, C, Hh, W], 5: [n, C, Hh, W, 1]}[c["x_rank"]]

    @staticmethod
    def build(c):
        g = G()
        N, C, Hh, W, gg = c["N"], c["C"], c["Hh"], c["W"], c["g"]
        xs = I2g.xshape(c)
        x = g.inp("x", "f32", xs)
        L = (C // gg) * Hh * W
        adj = {"0g-1": [0, gg, -1], "Ng-1": [N, gg, -1], "0g*": [0, gg, L]}.get(c["adj"])
        adjv = g.const(np.array(adj, dtype=np.int64)) if adj is not None else g.inp("adj", "i64", [3])
        wn = np.ones(gg, np.float32) if c["w_ones"] else np.full(gg, 2.0, np.float32)
        bn = np.zeros(gg, np.float32) if c["b_zeros"] else np.full(gg, 0.5, np.float32)
        wnv = g.const(wn, name="wn") if c["wn_const"] else g.inp("wn", "f32", [gg])
        bnv = g.const(bn, name="bn")
        wf = g.inp("weight_full", "f32", c["wf_shape"])
        bf = g.inp("bias_full", "f32", c["bf_shape"])
        a = g.op("Reshape", x, adjv)
        inorm = g.op("InstanceNormalization", a, wnv, bnv, epsilon=c["eps"])
        rt = I2g.xshape(c, runtime=True)
        if c["orig"] == "ok":
            ov = g.const(np.array(rt, dtype=np.int64))
        elif c["orig"] == "-1":
            ov = g.const(np.array([-1] + rt[1:], dtype=np.int64))
        else:
            ov = g.inp("orig_shape", "i64", [len(rt)])
        r = g.op("Reshape", inorm, ov)
        g.op("Add", g.op("Mul", r, wf), bf, name="out")
        g.out("out", "f32", None)
        return g.model()

    @staticmethod
    def valid(c):
        xs = I2g.xshape(c, runtime=True)
        s1 = _bshape(xs, c["wf_shape"])
        return s1 is not None and _bshape(s1, c["bf_shape"]) is not None

    @staticmethod
    def line(c):
        rt = I2g.xshape(c, runtime=True)
        L = (c["C"] // c["g"]) * c["Hh"] * c["W"]
        adj = {"0g-1": [0, c["g"], -1], "Ng-1": [c["N"], c["g"], -1], "0g*": [0, c["g"], L]}.get(c["adj"])
        orig = {"ok": rt, "-1": [-1] + rt[1:]}.get(c["orig"])
        return " ".join(["i2g", f"x={dims_str(I2g.xshape(c))}", f"g={c['g']}", f"wn_const={b(c['wn_const'])}",
                         f"w_ones={b(c['w_ones'])}", f"b_zeros={b(c['b_zeros'])}", f"wf={dims_str(c['wf_shape'])}",
                         f"bf={dims_str(c['bf_shape'])}",
                         "adj=" + ("dyn" if adj is None else ",".join(map(str, adj))),
                         "orig=" + ("dyn" if orig is None else ",".join(map(str, orig))),
                         f"eps={fbits(f32(c['eps']))}"])

    @staticmethod
    def fuse(model):
        from onnxscript.rewriter.ort_fusions import instance_to_group_normalization as m

        return m.rules.apply_to_model(model)

    @staticmethod
    def feeds(c, rng):
        rt = I2g.xshape(c, runtime=True)
        f = {"x": rand_arr(rng, rt, "f32"), "weight_full": rand_arr(rng, c["wf_shape"], "f32"),
             "bias_full": rand_arr(rng, c["bf_shape"], "f32"), "wn": np.ones(c["g"], np.float32) if c["w_ones"] else np.full(c["g"], 2.0, np.float32),
             "orig_shape": np.array(rt, dtype=np.int64),
             "adj": np.array([0, c["g"], -1], dtype=np.int64)}
        return f

    @staticmethod
    def out_dt(c):
        return "f32"


# =========================================================================== Attention (packed QKV MatMul + MHA -> Attention)


class Attn:
    name = "attn"
    ops = {"Attention", "MultiHeadAttention"}

    @staticmethod
    def gen(rng):
        H = rng.choice([1, 2])
        Dh = rng.choice([2, 4])
        Dq = H * Dh
        Dv = rng.choice([Dq, Dq, H * 2])
        D = rng.choice([4, 8])
        miss = rng.choice(["none"] * 8 + ["gap", "start1", "end3"])
        return {"fam": "attn", "B": rng.choice([1, 2]), "S": rng.choice([1, 3]), "D": D, "H": H, "Dq": Dq, "Dv": Dv,
                "no_slice": rng.random() < 0.35, "past": rng.random() < 0.35, "P": rng.choice([1, 2]), "bias": True,
                "miss": miss, "end3": rng.choice(["exact", "max"]), "sym": rng.random() < 0.2,
                "scale": rng.choice([None, None, 0.4])}

    @staticmethod
    def build(c):
        g = G()
        B, S, D, H, Dq, Dv = (c[k] for k in ("B", "S", "D", "H", "Dq", "Dv"))
        Bs = "B" if c["sym"] else B
        tot = 2 * Dq + Dv
        x = g.inp("input", "f32", [Bs, S, D])
        bias = g.inp("bias", "f32", [tot])
        i64 = lambda v: g.const(np.array(v, dtype=np.int64))
        if c["no_slice"]:
            wq = g.inp("wq", "f32", [D, Dq])
            wk = g.inp("wk", "f32", [D, Dq])
            wv = g.inp("wv", "f32", [D, Dv])
            q, k, v = g.op("MatMul", x, wq), g.op("MatMul", x, wk), g.op("MatMul", x, wv)
        else:
            w = g.inp("weight", "f32", [D, tot])
            p = g.op("MatMul", x, w, name="projected")
            s1, e1, s2, e2, s3 = 0, Dq, Dq, 2 * Dq, 2 * Dq
            e3 = tot if c["end3"] == "exact" else I64MAX
            if c["miss"] == "start1":
                s1 = 1
            if c["miss"] == "gap":
                s2 = Dq + 1
            if c["miss"] == "end3":
                e3 = tot - 1
            q = g.op("Slice", p, i64([s1]), i64([e1]), i64([2]), name="q_s")
            k = g.op("Slice", p, i64([s2]), i64([e2]), i64([2]), name="k_s")
            v = g.op("Slice", p, i64([s3]), i64([e3]), i64([2]), name="v_s")
        if c["past"]:
            past = g.inp("past", "f32", [2, Bs, H, c["P"], Dq // H])
            pk = g.op("Squeeze", g.op("Slice", past, i64([0]), i64([1]), i64([0])), i64([0]))
            pv = g.op("Squeeze", g.op("Slice", past, i64([1]), i64([2]), i64([0])), i64([0]))
            o, prk, prv = g.op("MultiHeadAttention", q, k, v, bias, None, None, pk, pv, domain="com.microsoft", outs=3,
                               num_heads=H, scale=c["scale"])
            pr = g.op("Concat", g.op("Unsqueeze", prk, i64([0])), g.op("Unsqueeze", prv, i64([0])), axis=0, name="present")
            g.op("Identity", o, name="out")
            g.out("present", "f32", None)
            g.out("out", "f32", None)
        else:
            g.op("MultiHeadAttention", q, k, v, bias, domain="com.microsoft", name="out", num_heads=H, scale=c["scale"])
            g.out("out", "f32", None)
        return g.model()

    @staticmethod
    def valid(c):
        if c["past"] and c["Dv"] != c["Dq"]:
            return False
        if c["miss"] != "none" and c["no_slice"]:
            return False
        return True

    @staticmethod
    def line(c, shapes=None):
        sh = shapes or {}
        Dq, Dv = c["Dq"], c["Dv"]
        tot = 2 * Dq + Dv
        s1, e1, s2, e2, s3 = 0, Dq, Dq, 2 * Dq, 2 * Dq
        e3 = tot if c["end3"] == "exact" else I64MAX
        if c["miss"] == "start1":
            s1 = 1
        if c["miss"] == "gap":
            s2 = Dq + 1
        if c["miss"] == "end3":
            e3 = tot - 1
        parts = ["attn", f"no_slice={b(c['no_slice'])}", f"past={b(c['past'])}", f"heads={c['H']}",
                 f"sl={s1},{e1},{s2},{e2},{s3},{e3}", f"scale={'none' if c['scale'] is None else fbits(f32(c['scale']))}"]
        for n in ("input", "weight", "projected", "q_s", "k_s", "v_s", "wq", "wk", "wv"):
            parts.append(f"{n}={dims_str(sh.get(n)) if n in sh else 'absent'}")
        return " ".join(parts)

    @staticmethod
    def fuse(model):
        from onnxscript.rewriter.ort_fusions.attention import fuse_attention

        return fuse_attention(model)

    @staticmethod
    def feeds(c, rng):
        B, S, D, H, Dq, Dv = (c[k] for k in ("B", "S", "D", "H", "Dq", "Dv"))
        tot = 2 * Dq + Dv
        f = {"input": rand_arr(rng, [B, S, D], "f32"), "bias": rand_arr(rng, [tot], "f32"),
             "weight": rand_arr(rng, [D, tot], "f32"), "wq": rand_arr(rng, [D, Dq], "f32"),
             "wk": rand_arr(rng, [D, Dq], "f32"), "wv": rand_arr(rng, [D, Dv], "f32"),
             "past": rand_arr(rng, [2, B, H, c["P"], Dq // H], "f32")}
        return f

    @staticmethod
    def out_dt(c):
        return "f32"


# =========================================================================== GroupQueryAttention (repo builder, own sizes)


class Gqa:
    """The source model of `gqa_test.GQAFusionTest` (Phi-style GQA with rotary, past, causal mask) built by the
    repo's own script with OUR sizes, plus near-misses made by editing the proto; optimize → fuse_sdpa → fuse_gqa."""

    name = "gqa"
    ops = {"GroupQueryAttention"}

    @staticmethod
    def gen(rng):
        Hkv = rng.choice([1, 2, 3])
        G_ = rng.choice([1, 2, 4])
        return {"fam": "gqa", "S": rng.choice([1, 2, 4]), "P": rng.choice([1, 3, 8]), "Dh": rng.choice([16, 16, 32, 8, 4]),
                "H": Hkv * G_, "Hkv": Hkv,
                "miss": rng.choice(["none"] * 6 + ["il_q", "il_both", "past_B", "k_S", "mask_op", "no_q4"])}

    @staticmethod
    def build(c):
        import onnx

        from onnxscript import FLOAT
        from onnxscript.rewriter.ort_fusions import gqa_test as T

        S, P, Dh, H, Hkv = c["S"], c["P"], c["Dh"], c["H"], c["Hkv"]
        t = T.GQAFusionTest("test_fusion")
        t.batchsize, t.seqlen, t.kv_seqlen, t.past_seqlen, t.head_size, t.num_heads, t.kv_num_heads = 1, S, S, P, Dh, H, Hkv
        t.hidden_size, t.kv_hidden_size, t.num_groups, t.total_seqlen = Dh * H, Dh * Hkv, H // Hkv, S + P
        D, Dkv = Dh * H, Dh * Hkv
        pB = 1 if c["miss"] == "past_B" else "B"
        kS = "S2" if c["miss"] == "k_S" else "S"
        it = (FLOAT["B", "S", D], FLOAT["B", kS, Dkv], FLOAT["B", "S", Dkv], FLOAT[pB, Hkv, "P", Dh],
              FLOAT["B", Hkv, "P", Dh], FLOAT["max_seqlen", Dh // 2], FLOAT["max_seqlen", Dh // 2])
        ot = (FLOAT["B", "S", D], FLOAT["B", Hkv, "T", Dh], FLOAT["B", Hkv, "T", Dh])
        mp = t.source_model_script().to_model_proto(input_types=it, output_types=ot)
        vi = lambda n, sh: onnx.helper.make_tensor_value_info(n, onnx.TensorProto.FLOAT, sh)
        infos = [vi("query_BHSDh_rope", ["B", H, S, Dh]), vi("key_BHkvSDh_rope", ["B", Hkv, S, Dh]),
                 vi("key_BHSDh", ["B", H, S + P, Dh]), vi("key_BSHkvDh", ["B", S, Hkv, Dh]),
                 vi("key_transposed", ["B", H, Dh, S + P]), vi("value_BHSDh", ["B", H, S + P, Dh])]
        infos.append(vi("query_BSHDh", ["B", S, "Hq" if c["miss"] == "no_q4" else H, Dh]))
        mp.graph.value_info.extend(infos)
        for n in mp.graph.node:
            if n.op_type == "RotaryEmbedding":
                isq = n.output[0] == "query_BHSDh_rope"
                if c["miss"] == "il_both" or (c["miss"] == "il_q" and isq):
                    n.attribute.append(onnx.helper.make_attribute("interleaved", 1))
            if c["miss"] == "mask_op" and n.op_type == "Greater":
                n.op_type = "GreaterOrEqual"
        return mp

    @staticmethod
    def line(c, shapes=None):
        sh = shapes or {}
        ilq = 1 if c["miss"] in ("il_q", "il_both") else 0
        ilk = 1 if c["miss"] == "il_both" else 0
        return " ".join(["gqa", f"query={dims_str(sh.get('query'))}", f"key={dims_str(sh.get('key'))}",
                         f"value={dims_str(sh.get('value'))}", f"past_key={dims_str(sh.get('past_key'))}",
                         f"past_value={dims_str(sh.get('past_value'))}", f"q4={dims_str(sh.get('query_BSHDh'))}",
                         f"k4={dims_str(sh.get('key_BSHkvDh'))}", f"ilq={ilq}", f"ilk={ilk}",
                         f"mask_ok={b(c['miss'] != 'mask_op')}"])

    @staticmethod
    def fuse(model):
        from onnxscript.optimizer import optimize
        from onnxscript.rewriter.ort_fusions.gqa import fuse_gqa
        from onnxscript.rewriter.ort_fusions.sdpa import fuse_sdpa

        optimize(model)
        c1 = fuse_sdpa(model)
        c2 = fuse_gqa(model)
        return f"{c1}/{c2}"

    @staticmethod
    def post(model):
        from onnxscript.rewriter.ort_fusions.sdpa_via_mha import replace_sdpa_by_mha

        replace_sdpa_by_mha(model)

    @staticmethod
    def feeds(c, rng):
        S, P, Dh, H, Hkv = c["S"], c["P"], c["Dh"], c["H"], c["Hkv"]
        f = lambda *sh: rng.random(sh).astype(np.float32)
        return {"query": f(1, S, Dh * H), "key": f(1, S, Dh * Hkv), "value": f(1, S, Dh * Hkv),
                "past_key": f(1, Hkv, P, Dh), "past_value": f(1, Hkv, P, Dh), "cos": f(S + P, Dh // 2),
                "sin": f(S + P, Dh // 2)}

    @staticmethod
    def out_dt(c):
        return "f32"


# =========================================================================== packed QKV for GQA


class Pqkv:
    name = "pqkv"
    ops = {"GroupQueryAttention"}

    @staticmethod
    def gen(rng):
        Hkv = rng.choice([1, 2])
        H = Hkv * rng.choice([1, 2, 4])
        return {"fam": "pqkv", "S": rng.choice([1, 2, 3]), "P": rng.choice([1, 2, 4]), "Dh": rng.choice([16, 16, 32, 8]),
                "H": H, "Hkv": Hkv, "end3": rng.choice(["exact", "max"]), "il": rng.choice([0, 0, 1]),
                "miss": rng.choice(["none"] * 6 + ["start1", "end1", "gap", "extra", "symD", "axis"])}

    @staticmethod
    def bounds(c):
        Dh, H, Hkv = c["Dh"], c["H"], c["Hkv"]
        qh, kvh = Dh * H, Dh * Hkv
        hidden = qh + 2 * kvh + (1 if c["miss"] == "extra" else 0)
        s1, e1, s2, e2, s3 = 0, qh, qh, qh + kvh, qh + kvh
        e3 = hidden if c["end3"] == "exact" else I64MAX
        if c["miss"] == "start1":
            s1 = 1
        if c["miss"] == "end1":
            e1 = qh - 1
        if c["miss"] == "gap":
            s3 = qh + kvh + 1
        if c["miss"] == "extra":
            e3 = I64MAX
        return hidden, [s1, e1, s2, e2, s3, e3]

    @staticmethod
    def valid(c):
        return c["miss"] in ("none", "symD", "axis") or True

    @staticmethod
    def build(c):
        g = G()
        S, P, Dh, H, Hkv = c["S"], c["P"], c["Dh"], c["H"], c["Hkv"]
        hidden, (s1, e1, s2, e2, s3, e3) = Pqkv.bounds(c)
        x = g.inp("packed", "f32", [1, S, "D" if c["miss"] == "symD" else hidden])
        pk = g.inp("past_key", "f32", [1, Hkv, P, Dh])
        pv = g.inp("past_value", "f32", [1, Hkv, P, Dh])
        cos = g.inp("cos", "f32", [S + P, Dh // 2])
        sin = g.inp("sin", "f32", [S + P, Dh // 2])
        i64 = lambda v: g.const(np.array(v, dtype=np.int64))
        ax = [1] if c["miss"] == "axis" else [2]
        q = g.op("Slice", x, i64([s1]), i64([e1]), i64(ax), i64([1]), name="q_s")
        k = g.op("Slice", x, i64([s2]), i64([e2]), i64(ax), i64([1]), name="k_s")
        v = g.op("Slice", x, i64([s3]), i64([e3]), i64(ax), i64([1]), name="v_s")
        seqlens = g.const(np.array([S + P - 1], dtype=np.int32))
        total = g.const(np.array(S + P, dtype=np.int32))
        outs = g.op("GroupQueryAttention", q, k, v, pk, pv, seqlens, total, cos, sin, domain="com.microsoft",
                    outs=["out", "present_key", "present_value"], num_heads=H, kv_num_heads=Hkv, do_rotary=1,
                    rotary_interleaved=c["il"])
        for o in ("out", "present_key", "present_value"):
            g.out(o, "f32", None)
        return g.model()

    @staticmethod
    def line(c, shapes=None):
        sh = shapes or {}
        hidden, bs = Pqkv.bounds(c)
        return " ".join(["pqkv", f"packed={dims_str(sh.get('packed'))}", f"q_s={dims_str(sh.get('q_s'))}",
                         f"k_s={dims_str(sh.get('k_s'))}", f"v_s={dims_str(sh.get('v_s'))}", f"h={c['H']}",
                         f"hkv={c['Hkv']}", f"il={c['il']}", "sl=" + ",".join(map(str, bs)),
                         f"axis_ok={b(c['miss'] != 'axis')}"])

    @staticmethod
    def fuse(model):
        from onnxscript.rewriter.ort_fusions.gqa_packed_qkv import fuse_qkv_gqa

        return fuse_qkv_gqa(model)

    @staticmethod
    def feeds(c, rng):
        S, P, Dh, H, Hkv = c["S"], c["P"], c["Dh"], c["H"], c["Hkv"]
        hidden, _ = Pqkv.bounds(c)
        f = lambda *sh: rng.random(sh).astype(np.float32)
        return {"packed": f(1, S, hidden), "past_key": f(1, Hkv, P, Dh), "past_value": f(1, Hkv, P, Dh),
                "cos": f(S + P, Dh // 2), "sin": f(S + P, Dh // 2)}

    @staticmethod
    def out_dt(c):
        return "f32"


# =========================================================================== mha_scale / mha_bias on a contrib MHA node


class Mhab:
    """com.microsoft.MultiHeadAttention whose q/k/v inputs are `Add(matmul, bias)` and whose query is pre-scaled:
    fuse_mha_scale then fuse_mha_bias (the order of fuse_xformers)."""

    name = "mhab"
    ops = {"MultiHeadAttention"}

    @staticmethod
    def gen(rng):
        H = rng.choice([1, 2])
        Dh = rng.choice([2, 4])
        return {"fam": "mhab", "B": rng.choice([1, 2]), "S": rng.choice([1, 3]), "Skv": rng.choice([2, 3]), "H": H, "Dh": Dh,
                "qb": rng.random() < 0.6, "kb": rng.random() < 0.5, "vb": rng.random() < 0.5,
                "bias_first": rng.random() < 0.1, "qb_shape": rng.choice(["D"] * 6 + ["BSD", "1"]),
                "pre_scale": rng.choice([None, None, 0.5, 2.0]), "scale_const": rng.random() < 0.9,
                "attr_scale": rng.choice([None, None, 0.25]), "sym": rng.random() < 0.2,
                "dt": rng.choice(["f32", "f32", "f32", "f64"]), "mask": rng.random() < 0.3,
                # the source node already carries a packed bias (input 3): since a202620 mha_scale must refuse
                # (the operator adds the bias before scaling); mha_bias's pattern requires that input to be absent
                "bias0": rng.random() < 0.3}

    @staticmethod
    def build(c):
        g = G()
        B, S, Skv, H, Dh = c["B"], c["S"], c["Skv"], c["H"], c["Dh"]
        D = H * Dh
        dt = c["dt"]
        Bs = "B" if c["sym"] else B
        q = g.inp("qm", dt, [Bs, S, D])
        k = g.inp("km", dt, [Bs, Skv, D])
        v = g.inp("vm", dt, [Bs, Skv, D])

        def addb(x, name, on, shape):
            if not on:
                return x
            bsh = {"D": [D], "BSD": [B, S, D], "1": [1]}[shape]
            bv = g.inp(name, dt, bsh)
            return g.op("Add", bv, x) if c["bias_first"] else g.op("Add", x, bv)

        qq = addb(q, "qbias", c["qb"], c["qb_shape"])
        kk = addb(k, "kbias", c["kb"], "D")
        vv = addb(v, "vbias", c["vb"], "D")
        if c["pre_scale"] is not None:
            sc = g.const(np.array(c["pre_scale"], dtype=NP[dt])) if c["scale_const"] else g.inp("sc", dt, [])
            qq = g.op("Mul", qq, sc, name="qmul")
        ins = [qq, kk, vv]
        b0 = g.inp("bias0", dt, [3 * D]) if c.get("bias0") else None
        if c["mask"]:
            m = g.inp("mask", dt, [1, 1, S, Skv])
            ins += [b0, None, m]
        elif b0 is not None:
            ins += [b0]
        g.op("MultiHeadAttention", *ins, domain="com.microsoft", name="out", num_heads=H, scale=c["attr_scale"])
        g.out("out", dt, None)
        return g.model()

    @staticmethod
    def valid(c):
        return True

    @staticmethod
    def line(c, shapes=None):
        sh = shapes or {}
        return " ".join(["mhab", f"qm={dims_str(sh.get('qm'))}", f"km={dims_str(sh.get('km'))}", f"vm={dims_str(sh.get('vm'))}",
                         f"qbias={dims_str(sh.get('qbias')) if c['qb'] else 'absent'}",
                         f"qmul={dims_str(sh.get('qmul')) if 'qmul' in sh else 'absent'}",
                         f"dt={DTNUM[c['dt']]}", f"qb={b(c['qb'])}", f"kb={b(c['kb'])}", f"vb={b(c['vb'])}",
                         f"bias_first={b(c['bias_first'])}", f"heads={c['H']}",
                         "pre=" + ("none" if c["pre_scale"] is None else fbits(float(np.asarray(c["pre_scale"], dtype=NP[c["dt"]])))),
                         f"pre_const={b(c['scale_const'])}",
                         "ascale=" + ("none" if c["attr_scale"] is None else fbits(f32(c["attr_scale"]))),
                         f"mask={b(c['mask'])}", f"bias0={b(c.get('bias0'))}"])

    @staticmethod
    def fuse(model):
        from onnxscript.rewriter.ort_fusions.mha_bias import fuse_mha_bias
        from onnxscript.rewriter.ort_fusions.mha_scale import fuse_mha_scale

        c1 = fuse_mha_scale(model)
        c2 = fuse_mha_bias(model)
        return f"{c1}/{c2}"

    @staticmethod
    def feeds(c, rng):
        B, S, Skv, H, Dh = c["B"], c["S"], c["Skv"], c["H"], c["Dh"]
        D = H * Dh
        dt = c["dt"]
        f = {"qm": rand_arr(rng, [B, S, D], dt), "km": rand_arr(rng, [B, Skv, D], dt), "vm": rand_arr(rng, [B, Skv, D], dt),
             "qbias": rand_arr(rng, {"D": [D], "BSD": [B, S, D], "1": [1]}[c["qb_shape"]], dt),
             "kbias": rand_arr(rng, [D], dt), "vbias": rand_arr(rng, [D], dt), "mask": rand_arr(rng, [1, 1, S, Skv], dt),
             "bias0": rand_arr(rng, [3 * D], dt)}
        if c["pre_scale"] is not None:
            f["sc"] = np.array(c["pre_scale"], dtype=NP[dt])
        return f

    @staticmethod
    def out_dt(c):
        return "f32"



# =========================================================================== pipeline level: attention block through fuse_xformers


class Pipe:
    """An attention block written with primitive ops whose query/key/value projections carry a scale and/or a bias
    in either order, run through the WHOLE `fuse_xformers` pipeline (sdpa -> mha1/mha2 -> mha_scale -> mha_bias ->
    attention -> ...).  What is tied: the counts of the four attention stages and the final MultiHeadAttention node
    (which operands, bias, scale).  Oracle: onnxruntime before/after fuse_xformers and before/after optimize_for_ort."""

    name = "pipe"
    ops = {"MultiHeadAttention"}
    key_op = "MultiHeadAttention"
    always_e2e = True

    @staticmethod
    def gen(rng):
        H = rng.choice([1, 2, 4])
        Dh = rng.choice([2, 4, 8])
        return {"fam": "pipe", "B": rng.choice([1, 2]), "S": rng.choice([1, 2, 3]), "H": H, "Dh": Dh,
                "key_t": rng.random() < 0.6, "sdpa_scale": rng.choice(["default", "default", "custom", "none"]),
                "q_proj": rng.choice(["none", "scale", "bias", "scale_bias", "scale_bias", "bias_scale", "bias_scale"]),
                "kb": rng.random() < 0.4, "vb": rng.random() < 0.4, "s": rng.choice([0.5, 2.0, 0.125]),
                "mask": rng.random() < 0.3, "sym": rng.random() < 0.2,
                # a rank-1 mask is fine for SDPA but rejected by the MHA rules: fuse_xformers then takes the branch
                # that skips mha_bias / attention, and sdpa_via_mha realises the SDPA at the end
                "mask1d": rng.random() < 0.15}

    @staticmethod
    def build(c):
        g = G()
        B, S, H, Dh = c["B"], c["S"], c["H"], c["Dh"]
        D = H * Dh
        Bs = "B" if c["sym"] else B
        qm = g.inp("qm", "f32", [Bs, S, D])
        km = g.inp("km", "f32", [Bs, S, D])
        vm = g.inp("vm", "f32", [Bs, S, D])
        sc = lambda: g.const(np.array(c["s"], dtype=np.float32))
        qp = c["q_proj"]
        q = qm
        if qp in ("scale", "scale_bias"):
            q = g.op("Mul", q, sc())
        if qp in ("bias", "scale_bias", "bias_scale"):
            q = g.op("Add", q, g.inp("qbias", "f32", [D]))
        if qp == "bias_scale":
            q = g.op("Mul", q, sc())
        k = g.op("Add", km, g.inp("kbias", "f32", [D])) if c["kb"] else km
        v = g.op("Add", vm, g.inp("vbias", "f32", [D])) if c["vb"] else vm
        shp = lambda s_: g.const(np.array(s_, dtype=np.int64))
        qh = g.op("Transpose", g.op("Reshape", q, shp([0, 0, H, Dh])), perm=[0, 2, 1, 3])
        k4 = g.op("Reshape", k, shp([0, 0, H, Dh]))
        vh = g.op("Transpose", g.op("Reshape", v, shp([0, 0, H, Dh])), perm=[0, 2, 1, 3])
        if c["key_t"]:
            kt = g.op("Transpose", g.op("Transpose", k4, perm=[0, 2, 1, 3]), perm=[0, 1, 3, 2])
        else:
            kt = g.op("Transpose", k4, perm=[0, 2, 3, 1])
        att = g.op("MatMul", qh, kt)
        if c["sdpa_scale"] != "none":
            att = g.op("Mul", att, g.const(np.array(1.0 / math.sqrt(Dh) if c["sdpa_scale"] == "default" else 0.3, dtype=np.float32)))
        if c.get("mask1d"):
            att = g.op("Add", att, g.inp("mask", "f32", [S]))
        elif c["mask"]:
            att = g.op("Add", att, g.inp("mask", "f32", [1, 1, S, S]))
        o = g.op("MatMul", g.op("Softmax", att, axis=-1), vh)
        g.op("Reshape", g.op("Transpose", o, perm=[0, 2, 1, 3]), shp([0, 0, D]), name="out")
        g.out("out", "f32", None)
        return g.model()

    @staticmethod
    def line(c, shapes=None):
        sh = shapes or {}
        return " ".join(["pipe", f"qm={dims_str(sh.get('qm'))}", f"heads={c['H']}", f"dh={c['Dh']}", f"q_proj={c['q_proj']}",
                         f"kb={b(c['kb'])}", f"vb={b(c['vb'])}", f"s={fbits(f32(c['s']))}",
                         "sdpa_scale=" + {"default": "none", "custom": fbits(f32(0.3)), "none": fbits(1.0)}[c["sdpa_scale"]],
                         f"mask={b(c['mask'] or c.get('mask1d'))}", f"mask1d={b(c.get('mask1d'))}"])

    @staticmethod
    def fuse(model):
        from onnxscript.rewriter.ort_fusions._core import fuse_xformers

        _, n = fuse_xformers(model)
        return f"{n['sdpa']}/{n['mha1'] + n['mha2']}/{n['mha_scale']}/{n['mha_bias']}/{n['attention']}"

    @staticmethod
    def canon(c, obs):
        """In the branch where the MHA rules refuse, only the counts and the attributes of the node that
        `replace_sdpa_by_mha` emits are tied (its operands are Reshape/Transpose chains the final optimize reshuffles)."""
        if c.get("mask1d"):
            import re

            return re.sub(r"\(([^()]*)\)->", "(*)->", obs)
        return obs

    @staticmethod
    def feeds(c, rng):
        B, S, H, Dh = c["B"], c["S"], c["H"], c["Dh"]
        D = H * Dh
        return {"qm": rand_arr(rng, [B, S, D], "f32"), "km": rand_arr(rng, [B, S, D], "f32"), "vm": rand_arr(rng, [B, S, D], "f32"),
                "qbias": rand_arr(rng, [D], "f32"), "kbias": rand_arr(rng, [D], "f32"), "vbias": rand_arr(rng, [D], "f32"),
                "mask": rand_arr(rng, [S] if c.get("mask1d") else [1, 1, S, S], "f32")}

    @staticmethod
    def out_dt(c):
        return "f32"



# =========================================================================== shape_optimization.ExtractDim (pre-pass of fuse_xformers)


class ShapeOpt:
    """Slice(Shape(Transpose(Reshape(x, Concat(d0,d1,d2,d3), allowzero=1), perm=[0,2,1,3])), starts, ends[, axes[, steps]])
    — the causal-mask idiom `shape_optimization.ExtractDim` replaces by the dims themselves.  The rule runs in
    `_pre_optimize` inside `fuse_xformers`, hence inside `optimize_for_ort`."""

    name = "shapeopt"
    ops = {"Identity", "Concat", "Constant"}
    always_e2e = True

    @staticmethod
    def gen(rng):
        n_in = rng.choice([3, 3, 3, 4, 5, 5])
        if rng.random() < 0.4:  # directed: the rule fires; one, several or no dims selected, all bound conventions
            st, en = rng.choice([(0, 1), (1, 2), (2, 3), (3, 4), (-1, I64MAX), (-2, -1), (0, 4), (1, 3), (-4, -1),
                                 (0, I64MAX), (-5, 2), (3, 1), (4, 9), (2, -3)])
            return {"fam": "shapeopt", "dims": [rng.choice([1, 2, 3]) for _ in range(4)], "n_in": 3, "start": st,
                    "end": en, "axes": 0, "steps": 1, "allowzero": 1, "perm": [0, 2, 1, 3],
                    "shape_start": rng.choice([None, 0]), "shape_end": None, "start_const": True, "dim_shape_known": True}
        if rng.random() < 0.5:  # directed: everything nominal EXCEPT the spelled-out axes / steps inputs of the Slice
            n5 = rng.random() < 0.7
            stp = rng.choice([1, 2, 2, -1, -1]) if n5 else 1
            st, en = rng.choice([(0, 4), (1, 3), (0, I64MAX), (2, 4), (-4, 4)]) if stp > 0 else rng.choice([(3, -5), (-1, -5), (2, 0)])
            return {"fam": "shapeopt", "dims": [rng.choice([1, 2, 3]) for _ in range(4)], "n_in": 5 if n5 else 4,
                    "start": st, "end": en, "axes": rng.choice([0, -1]), "steps": stp, "allowzero": 1, "perm": [0, 2, 1, 3],
                    "shape_start": rng.choice([None, 0]), "shape_end": None, "start_const": True, "dim_shape_known": True}
        return {"fam": "shapeopt", "dims": [rng.choice([1, 2, 3]) for _ in range(4)], "n_in": n_in,
                "start": rng.choice([0, 0, 1, 2, 3, -1, -2, -4, -5, 4, 6]),
                "end": rng.choice([1, 2, 3, 4, 4, -1, -2, 0, I64MAX, 9, -5]),
                "axes": rng.choice([0, 0, -1]), "steps": rng.choice([1, 1, 2, -1]) if n_in == 5 else 1,
                "allowzero": rng.choice([1] * 6 + [0, None]), "perm": rng.choice([[0, 2, 1, 3]] * 7 + [[0, 1, 2, 3], [0, 2, 3, 1]]),
                "shape_start": rng.choice([None] * 5 + [0, 0, 1]), "shape_end": rng.choice([None] * 8 + [4, 3]),
                "start_const": rng.random() < 0.92, "dim_shape_known": rng.random() < 0.92}

    @staticmethod
    def build(c):
        g = G()
        d = c["dims"]
        x = g.inp("x", "f32", ["N"])
        dims = [g.inp(f"dim{k}", "i64", [1] if (c["dim_shape_known"] or k != 2) else ["one"]) for k in range(4)]
        shape = g.op("Concat", *dims, axis=0)
        r = g.op("Reshape", x, shape, allowzero=c["allowzero"])
        t = g.op("Transpose", r, perm=c["perm"])
        fs = g.op("Shape", t, start=c["shape_start"], end=c["shape_end"])
        i64 = lambda v: g.const(np.array([v], dtype=np.int64))
        st = i64(c["start"]) if c["start_const"] else g.inp("start", "i64", [1])
        ins = [fs, st, i64(c["end"])]
        if c["n_in"] >= 4:
            ins.append(i64(c["axes"]))
        if c["n_in"] >= 5:
            ins.append(i64(c["steps"]))
        fd = g.op("Slice", *ins, name="final_dim")
        g.op("Add", fd, fd, name="out")
        g.out("out", "i64", None)
        return g.model()

    @staticmethod
    def line(c):
        return " ".join(["shapeopt", f"n_in={c['n_in']}", f"start={c['start']}", f"end={c['end']}", f"axes={c['axes']}",
                         f"steps={c['steps']}", f"allowzero={'none' if c['allowzero'] is None else c['allowzero']}",
                         "perm=" + ",".join(map(str, c["perm"])),
                         f"shape_start={'none' if c['shape_start'] is None else c['shape_start']}",
                         f"shape_end={'none' if c['shape_end'] is None else c['shape_end']}",
                         f"start_const={b(c['start_const'])}", f"dims_known={b(c['dim_shape_known'])}"])

    @staticmethod
    def fuse(model):
        from onnxscript.rewriter.ort_fusions import shape_optimization

        return shape_optimization.rules.apply_to_model(model)

    @staticmethod
    def observe(model, cnt):
        """count + what now feeds the consumer of the (former) Slice."""
        for n in model.graph:
            if n.op_type == "Add" and n.outputs[0].name == "out":
                p = n.inputs[0].producer()
                if cnt and p is not None:
                    ins = ",".join((v.name if v is not None else "_") for v in p.inputs)
                    return f"count={cnt} {p.op_type}({ins})"
        return f"count={cnt}"

    @staticmethod
    def feeds(c, rng):
        d = c["dims"]
        f = {"x": rand_arr(rng, [int(np.prod(d))], "f32"), "start": np.array([c["start"]], dtype=np.int64)}
        for k in range(4):
            f[f"dim{k}"] = np.array([d[k]], dtype=np.int64)
        return f

    @staticmethod
    def out_dt(c):
        return "f32"


FAMILIES = {f.name: f for f in [Rms, Skip, Gelu, BiasGelu, Softmax, Fmm, Rope, Sdpa, Mha, I2g, Attn, Gqa, Pqkv, Mhab, Pipe,
                                ShapeOpt]}
