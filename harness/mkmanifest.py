"""Assemble MANIFEST.json from manifest.d/*.json fragments (checks) + properties.jsonl (not_applicable)."""
import json
from pathlib import Path

V = Path(__file__).resolve().parent.parent


def main():
    m = json.loads((V / "MANIFEST.json").read_text())
    checks = {c["property_id"]: c for c in m["checks"]}
    for f in sorted((V / "manifest.d").glob("*.json")):
        c = json.loads(f.read_text())
        checks[c["property_id"]] = c
    ids = [json.loads(l)["id"] for l in (V / "properties.jsonl").read_text().splitlines() if l.strip()]
    old_na = {n["property_id"]: n for n in m.get("not_applicable", [])}
    m["checks"] = [checks[i] for i in ids if i in checks]
    m["not_applicable"] = [
        old_na.get(i, {"property_id": i, "reason": "check under construction (design in DESIGN.md section 5); not claimed until its machinery is committed"})
        for i in ids
        if i not in checks
    ]
    claimed = [c["property_id"] for c in m["checks"]]
    for e in m.get("engines", []):
        e["serves_properties"] = claimed
    (V / "MANIFEST.json").write_text(json.dumps(m, indent=1) + "\n")
    print("claimed:", claimed)


if __name__ == "__main__":
    main()
