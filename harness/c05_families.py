"""C05 rule families: generators over each rule's parameter space, host-model builders, the driver line
for the Lean model, the observation read back from the real rewritten model, and the exact predicates of
the recorded findings.

A *case* is a JSON-serialisable dict with at least {"fam": <family>}.  For every family:
  gen(rng) -> case;  build(case) -> (Host, rules);  line(case) -> driver line;
  observe(case, after_proto) -> canonical replacement string (same grammar as the driver, without hyp);
  finding(case) -> id of the known finding whose predicate contains the case, or None.
"""
from __future__ import annotations

import numpy as np

from harness.c05_lib import Host, attr_of, find_node, frac, get_init, ints, schema_values, shape_tok, TP

F32 = "float32"


def rules_common():
    from onnxscript.rewriter.rules import common as C

    return C


# --------------------------------------------------------------------------- helpers


def rank_shape(rng, r, last=3):
    dims = [rng.choice([1, 2, 3]) for _ in range(r)]
    if r:
        dims[-1] = last
    return dims


def bound_arr(v, dtype, rank1=False):
    return np.array([v] if rank1 else v, dtype=dtype)


def parse_bound(tok):
    """'-' | 'n' | 'c<int>' | 'g<int>' -> (kind, value)"""
    if tok in "-n":
        return tok, None
    return tok[0], int(tok[1:])


def around_gen(values, dtype, shape):
    """Input generator that visits every constant of the pattern, each constant +- a small delta, and the midpoints
    between neighbouring constants (plus values beyond both ends) — so that picking the wrong bound among several shows."""
    vs = sorted(set(float(v) for v in values)) or [0.0]
    pool = set()
    for v in vs:
        pool.update([v, v - 1, v + 1] if not dtype.startswith("float") else [v, v - 0.25, v + 0.25, v - 1, v + 1])
    for a, b in zip(vs, vs[1:]):
        pool.add((a + b) / 2 if dtype.startswith("float") else float((int(a) + int(b)) // 2))
    pool.update([vs[0] - 3, vs[-1] + 3, 0.0])
    pool = np.array(sorted(pool))
    shape = tuple(int(d) for d in shape)
    n = int(np.prod(shape)) if shape else 1

    def g(r):
        # a sliding window over the pool so that 5 draws cover it even for small tensors
        start = r.randint(0, len(pool))
        idx = (start + np.arange(n) * max(1, len(pool) // max(n, 1))) % len(pool)
        if r.random_sample() < 0.5:
            idx = r.randint(0, len(pool), size=n)
        return pool[idx].reshape(shape).astype(dtype)

    return g


class Family:
    name = ""
    exact = True          # identity-type rewrites are compared bit-exactly
    theorem = True        # covered by a Lean theorem (hyp=1 ⇒ proved); False: judged by correspondence + numeric search only
    rule_keys: tuple = ()

    def gen(self, rng):
        raise NotImplementedError

    def corpus(self):
        return []


# =========================================================================== order algebra: relu / clip


class ClipFam(Family):
    """successive_clip / successive_clip_relu / successive_relu_clip / successive_relu"""
    n_inputs = 8

    def __init__(self, name):
        self.name = name
        self.rule_keys = {
            "clipclip": ("successive_clip_rule",), "cliprelu": ("successive_clip_relu_rule",),
            "reluclip": ("successive_relu_clip_rule",), "relurelu": ("successive_relu_rule",),
        }[name]

    def gen_bound(self, rng, allow_absent=True):
        r = rng.random()
        if r < 0.2 and allow_absent:
            return "-"
        if r < 0.27:
            return "n"
        if r < 0.33:
            return f"g{rng.randint(-6, 6)}"
        return f"c{rng.randint(-6, 6)}"

    def gen(self, rng):
        c = {"fam": self.name, "rx": rng.choice([0, 1, 1, 2, 3, 4]), "dtype": rng.choice([F32, F32, F32, "int32", "float64"]),
             "origin": rng.choice(["init", "init", "cnode"]), "extra": rng.random() < 0.08,
             "infer": rng.random() > 0.2, "old": False, "ux": rng.random() < 0.3}
        for k in "ab":
            c[k] = self.gen_bound(rng)
        if self.name == "clipclip":
            for k in "cd":
                c[k] = self.gen_bound(rng)
        if self.name == "relurelu":
            c["a"] = c["b"] = "-"
        # opset < 11: bounds are attributes (and Clip-6 is float only)
        if self.name != "relurelu" and rng.random() < 0.05:
            c["old"] = True
            c["dtype"] = F32
            for k in "abcd":
                if k in c and c[k][0] in "ng":
                    c[k] = "-"
        return c

    def corpus(self):
        base = {"rx": 1, "dtype": F32, "origin": "init", "extra": False, "infer": True, "old": False}
        # commit c0ccb25: element type from the Clip input or from a constant bound of the *first* Clip; neither known -> no fire
        u = dict(base, infer=False, ux=True)
        if self.name == "clipclip":
            return [dict(u, fam="clipclip", a="-", b="-", c="c1", d="c4"), dict(u, fam="clipclip", a="c0", b="-", c="-", d="c4"),
                    dict(u, fam="clipclip", a="-", b="c5", c="-", d="-"), dict(base, fam="clipclip", a="-", b="-", c="c1", d="c4", infer=False),
                    dict(u, fam="clipclip", a="-", b="-", c="c1", d="c4", infer=True)] + [dict(base, fam="clipclip", a="c0", b="c1", c="c5", d="c10"),   # D2 witness (fixed: regression case)
                    dict(base, fam="clipclip", a="c-3", b="c-1", c="c2", d="-"),
                    dict(base, fam="clipclip", a="-", b="c1", c="c5", d="c3"),
                    dict(base, fam="clipclip", a="c0", b="c1", c="c-1", d="c0", old=True),  # N2
                    dict(base, fam="clipclip", a="c0", b="c1", c="c-1", d="c5", infer=False)]
        if self.name == "reluclip":
            return [dict(u, fam="reluclip", a="-", b="-"), dict(u, fam="reluclip", a="c-2", b="-"), dict(u, fam="reluclip", a="-", b="c3"),
                    dict(base, fam="reluclip", a="c-5", b="c-1"),                  # D1 witness (fixed: regression case)
                    dict(base, fam="reluclip", a="-", b="c-2"),
                    dict(base, fam="reluclip", a="c-1", b="c1", old=True)]
        if self.name == "cliprelu":
            return [dict(base, fam="cliprelu", a="-", b="-", infer=False), dict(base, fam="cliprelu", a="c-1", b="-", infer=False),
                    dict(base, fam="cliprelu", a="-", b="c2", infer=False),
                    dict(base, fam="cliprelu", a="c-5", b="c-1"), dict(base, fam="cliprelu", a="-", b="c3")]
        return [dict(base, fam="relurelu", a="-", b="-")]

    def build(self, c):
        C = rules_common()
        dt = c["dtype"]
        hst = Host(opset=10 if c["old"] else 18)
        shape = rank_shape(np.random.RandomState(c["rx"]), c["rx"])
        shape = [2, 1, 3, 2, 3][5 - c["rx"]:] if c["rx"] else []
        consts = [parse_bound(c[k])[1] for k in "abcd" if k in c and parse_bound(c[k])[1] is not None] + [0]
        if c.get("ux"):
            # the pattern's `x` is an inner value: typed only when shape inference has run
            hst.inp("x0", dt, shape, gen=around_gen(consts, dt, shape))
            hst.node("Identity", ["x0"], ["x"])
        else:
            hst.inp("x", dt, shape, gen=around_gen(consts, dt, shape))

        def clip(src, lo, hi, out, pre):
            if c["old"]:
                attrs = {}
                for nm, tok in (("min", lo), ("max", hi)):
                    k, v = parse_bound(tok)
                    if k == "c":
                        attrs[nm] = float(v)
                hst.node("Clip", [src], [out], **attrs)
                return
            names = []
            for nm, tok in (("lo", lo), ("hi", hi)):
                k, v = parse_bound(tok)
                if k == "-":
                    names.append("")
                elif k == "n":
                    names.append(hst.const(pre + nm, np.array(1 if nm == "hi" else -1, dtype=dt), "input"))
                elif k == "g":
                    names.append(hst.const(pre + nm, np.array(v, dtype=dt), "ginit"))
                else:
                    names.append(hst.const(pre + nm, np.array(v, dtype=dt), c["origin"]))
            while names and names[-1] == "":
                names.pop()
            hst.node("Clip", [src] + names, [out])

        if self.name == "clipclip":
            clip("x", c["a"], c["b"], "t", "p")
            clip("t", c["c"], c["d"], "y", "q")
            rule = C.successive_clip_rule
        elif self.name == "cliprelu":
            hst.node("Relu", ["x"], ["t"])
            clip("t", c["a"], c["b"], "y", "p")
            rule = C.successive_clip_relu_rule
        elif self.name == "reluclip":
            clip("x", c["a"], c["b"], "t", "p")
            hst.node("Relu", ["t"], ["y"])
            rule = C.successive_relu_clip_rule
        else:
            hst.node("Relu", ["x"], ["t"])
            hst.node("Relu", ["t"], ["y"])
            rule = C.successive_relu_rule
        hst.out("y", dt, None)
        if c["extra"]:
            hst.out("t", dt, None)
        return hst, [rule]

    def line(self, c):
        # opset < 11: the bounds are attributes; `node.inputs[1:]` is empty, i.e. every bound is absent for the rule
        parts = [self.name] + [f"{k}={'-' if c['old'] else c[k]}" for k in "abcd" if k in c]
        # which `node.inputs[0].dtype` are known: x is a typed graph input; the intermediate only after inference
        xt = int(c["infer"] or not c.get("ux"))     # is the pattern's `x` typed: a graph input, or an inner value after inference
        if self.name == "clipclip":
            parts += [f"dt1={xt}", f"dt2={int(c['infer'])}"]
        elif self.name == "cliprelu":
            parts += [f"dt1={int(c['infer'])}"]      # first Clip's input is Relu's output
        else:
            parts += [f"dt1={xt}"]
        parts += [f"extra={int(c['extra'])}", f"old={int(c['old'])}"]
        return " ".join(parts)

    def infer(self, c):
        return c["infer"]

    def observe(self, c, after):
        if self.name == "relurelu":
            return "fire"
        n = find_node(after, "Clip")
        vals = []
        for i in (1, 2):
            if len(n.input) > i and n.input[i]:
                a = get_init(after, n.input[i])
                vals.append(str(int(a.reshape(-1)[0])))
            else:
                vals.append("-")
        return f"fire lo={vals[0]} hi={vals[1]}"

    def counters(self, c, rec):
        """c0ccb25: hosts whose first-Clip input is untyped, with / without a typed (constant) bound on that Clip."""
        if self.name == "relurelu" or c["old"]:
            return []
        typed = c["infer"] if self.name == "cliprelu" else (c["infer"] or not c.get("ux"))
        if typed:
            return ["typed_input"]
        firstb = [parse_bound(c[k])[0] for k in "ab"]
        if all(k == "-" for k in firstb):
            return ["untyped_input_no_bound"]
        if all(k in "-c" for k in firstb):
            return ["untyped_input_const_bound"]
        return ["untyped_input_other"]

    def finding(self, c):
        if self.name == "relurelu":
            return None
        # D1 (Relu∘Clip with b < 0) and D2 (Clip∘Clip with b < c, b < d) are fixed in /repo (979daa2, b85b7db):
        # their regions are generated and judged like every other case; the witnesses stay in the corpus.
        return None


# =========================================================================== order algebra: min / max


class MinMaxFam(Family):
    name = "minmax"
    n_inputs = 10
    rule_keys = ("min_min_rule", "max_max_rule", "min_max_rule", "max_min_rule")

    def gen_const(self, rng, scalars_only):
        r = rng.random()
        if r < 0.06:
            return "n"
        g = "g" if rng.random() < 0.05 else ""
        if r < 0.8 or scalars_only and r < 0.93:
            rank = rng.choice([0, 0, 0, 0, 1, 1, 2])
            return f"{g}{rank}:{rng.randint(-6, 6)}"
        return f"{g}1:" + "/".join(str(rng.randint(-6, 6)) for _ in range(3))

    def gen(self, rng):
        kind = rng.choice(["minMin", "maxMax", "maxMin", "minMax"])
        sc = kind in ("maxMin", "minMax")
        n1 = rng.choice([1, 1, 2, 2, 3]) if rng.random() > 0.03 else 0      # variadic Min/Max: several constants per node
        n2 = rng.choice([1, 1, 2, 2, 3]) if rng.random() > 0.03 else 0
        first = [self.gen_const(rng, sc) for _ in range(n1)]
        second = [self.gen_const(rng, sc) for _ in range(n2)]
        if sc and rng.random() < 0.8:
            # Clip kinds: `np.max([...])` needs same-shaped constants per node, else it raises — keep most nodes homogeneous
            # (mostly rank 0) so that the variadic reduction itself is exercised
            def same_rank(toks):
                r = rng.choice([0, 0, 0, 0, 1])
                out = []
                for t in toks:
                    if t == "n" or "/" in t:
                        out.append(t)
                    else:
                        g = "g" if t.startswith("g") else ""
                        out.append(f"{g}{r}:{t.split(':')[1]}")
                return out
            first, second = same_rank(first), same_rank(second)
        return {"fam": "minmax", "kind": kind, "rx": rng.choice([0, 1, 1, 2, 3]), "dtype": rng.choice([F32, F32, "int32"]),
                "first": first, "second": second,
                "origin": rng.choice(["init", "cnode"]), "extra": rng.random() < 0.06, "old": rng.random() < 0.04,
                "xknown": rng.random() > 0.06}

    def corpus(self):
        b = {"fam": "minmax", "rx": 1, "dtype": F32, "origin": "init", "extra": False, "old": False}
        return [dict(b, kind="maxMin", first=["2:0"], second=["2:1"]),       # D4 witness
                dict(b, kind="maxMin", first=["0:0"], second=["0:1"], old=True),   # N2
                dict(b, kind="minMax", first=["0:5"], second=["0:7"]),       # lb > ub: no fire
                dict(b, kind="maxMin", first=["1:0", "0:-1"], second=["0:1"]),  # inhomogeneous → raises
                dict(b, kind="minMin", first=[], second=[]),                 # reduce of empty → raises
                dict(b, kind="maxMin", first=["g0:0"], second=["0:1"]),      # N1
                dict(b, kind="minMin", first=["1:1/5/2"], second=["0:3"])]

    @staticmethod
    def ptok(tok):
        if tok == "n":
            return None
        g = tok.startswith("g")
        t = tok[1:] if g else tok
        r, d = t.split(":")
        return g, int(r), [int(v) for v in d.split("/")]

    def build(self, c):
        C = rules_common()
        dt = c["dtype"]
        hst = Host(opset=10 if c["old"] else 18)
        if c["old"]:
            dt = F32
        shape = [2, 1, 2, 3][4 - c["rx"]:] if c["rx"] else []
        consts = [v for t in c["first"] + c["second"] if self.ptok(t) is not None for v in self.ptok(t)[2]]
        hst.inp("x", dt, shape, gen=around_gen(consts, dt, shape), decl_shape="same" if c.get("xknown", True) else None)
        ops = {"minMin": ("Min", "Min"), "maxMax": ("Max", "Max"), "maxMin": ("Max", "Min"), "minMax": ("Min", "Max")}[c["kind"]]

        def operands(toks, pre):
            names = []
            for i, tok in enumerate(toks):
                p = self.ptok(tok)
                nm = f"{pre}{i}"
                if p is None:
                    names.append(hst.const(nm, np.array(0, dtype=dt), "input"))
                else:
                    g, r, d = p
                    arr = np.array(d, dtype=dt)
                    arr = arr.reshape([1] * r) if len(d) == 1 else arr.reshape([1] * (r - 1) + [len(d)])
                    names.append(hst.const(nm, arr, "ginit" if g else c["origin"]))
            return names

        hst.node(ops[0], ["x"] + operands(c["first"], "p"), ["t"])
        hst.node(ops[1], ["t"] + operands(c["second"], "q"), ["y"])
        hst.out("y", dt, None)
        if c["extra"]:
            hst.out("t", dt, None)
        rule = {"minMin": C.min_min_rule, "maxMax": C.max_max_rule, "maxMin": C.max_min_rule, "minMax": C.min_max_rule}[c["kind"]]
        return hst, [rule]

    def line(self, c):
        def enc(toks):
            out = []
            for t in toks:
                out.append(t[1:] if t.startswith("g") else t)
            return ";".join(out) if out else "."
        ginit = any(t.startswith("g") for t in c["first"] + c["second"])
        return (f"minmax kind={c['kind']} rx={c['rx'] if c.get('xknown', True) else '-'} first={enc(c['first'])} second={enc(c['second'])} "
                f"extra={int(c['extra'])} ginit={int(ginit)} old={int(c['old'])}")

    def observe(self, c, after):
        if c["kind"] in ("minMin", "maxMax"):
            n = find_node(after, "Min" if c["kind"] == "minMin" else "Max")
            a = get_init(after, n.input[1])
            return f"fire same rank={a.ndim} data={ints(a.reshape(-1))}"
        n = find_node(after, "Clip")
        lo, hi = get_init(after, n.input[1]), get_init(after, n.input[2])
        return f"fire clip lo={int(lo.reshape(-1)[0])} hi={int(hi.reshape(-1)[0])}"

    def finding(self, c):
        toks = [self.ptok(t) for t in c["first"] + c["second"]]
        if any(t is None for t in toks):
            return None
        if any(t[0] for t in toks):
            return "C05-N1"
        # D4 (constant outranks x) and C05-N2 (opset < 11) are fixed in /repo (1d299da, 625745e): the rule refuses
        return None


# =========================================================================== unit laws


class UnitFam(Family):
    name = "unit"
    rule_keys = ("add_0_rule", "mul_by_1_rule", "sub_0_rule", "div_by_1_rule", "add_0_rule#c0", "add_0_rule#c1",
                 "mul_by_1_rule#c0", "mul_by_1_rule#c1")
    DELTAS = [0.0, 0.0, 0.0, 1e-9, -1e-9, 9e-9, -9e-9, 1.2e-8, 1e-6, 5e-6, -5e-6, 9e-6, 1.2e-5, -1.2e-5, 1.0, -1.0, 0.5]

    def gen(self, rng):
        op = rng.choice(["add", "mul", "sub", "div"])
        dtype = rng.choice([F32, F32, "float64", "int64"])
        lit = 0 if op in ("add", "sub") else 1
        if dtype == "int64":
            val = float(rng.choice([lit, lit, 1 - lit, 2, -1]))
        else:
            val = float(np.dtype(dtype).type(lit + rng.choice(self.DELTAS)))
        if op == "div" and val == 0:
            val = 1.0
        return {"fam": "unit", "op": op, "left": rng.random() < 0.3, "origin": rng.choice(["init", "init", "cnode", "ginit", "input"]),
                "rank": rng.choice([0, 0, 0, 0, 1, 2]), "val": val, "dtype": dtype, "rx": rng.choice([0, 1, 2, 3])}

    def corpus(self):
        b = {"fam": "unit", "left": False, "origin": "init", "rank": 0, "dtype": F32, "rx": 1}
        return [dict(b, op="add", val=float(np.float32(1e-9))),            # D3 witness
                dict(b, op="mul", val=float(np.float32(1.000005))),        # D3 witness
                dict(b, op="add", val=0.0, origin="ginit"),                # N1 witness
                dict(b, op="sub", val=0.0, left=True), dict(b, op="add", val=0.0, rank=1)]

    def build(self, c):
        C = rules_common()
        from onnxscript.rewriter import RewriteRuleSet

        dt = c["dtype"]
        hst = Host()
        shape = [2, 2, 3][3 - c["rx"]:] if c["rx"] else []
        gen = None
        if dt != "int64":
            def gen(r, shape=tuple(shape), dt=dt):   # small magnitudes so that an eps-sized operand is visible
                base = r.choice(np.array([1e-9, -3e-9, 2.5e-7, 1.0, -2.0, 1000.0, 0.0]), size=shape)
                return base.astype(dt)
        hst.inp("x", dt, shape, gen=gen)
        arr = np.array(c["val"], dtype=dt).reshape([1] * c["rank"])
        hst.const("k", arr, c["origin"])
        opn = {"add": "Add", "mul": "Mul", "sub": "Sub", "div": "Div"}[c["op"]]
        hst.node(opn, ["k", "x"] if c["left"] else ["x", "k"], ["y"])
        hst.out("y", dt, None)
        # the rule set as installed in the default set: add/mul commuted, sub/div as they are
        rules = [*C.mul_by_1_rule.commute(), *C.add_0_rule.commute(), C.sub_0_rule, C.div_by_1_rule]
        return hst, rules

    def line(self, c):
        return (f"unit op={c['op']} left={int(c['left'])} origin={c['origin']} rank={c['rank']} val={frac(c['val'])}")

    def observe(self, c, after):
        return "fire"

    def finding(self, c):
        lit = 0 if c["op"] in ("add", "sub") else 1
        v = c["val"]
        # D3 (literal tolerance) is fixed in /repo (6800bd1): integer literals match exactly; witnesses in the corpus
        if c["origin"] == "ginit" and v == lit:
            return "C05-N1"
        return None


class DropoutFam(Family):
    name = "dropout"
    rule_keys = ("dropout_zero_rule", "dropout_inference_rule")

    def gen(self, rng):
        old = rng.random() < 0.7
        return {"fam": "dropout", "old": old, "ratio": rng.choice([0.0, 0.0, 0.5, None]) if old else rng.choice([0.0, 0.5, None]),
                "mask": rng.random() < 0.25, "tm_input": (not old) and rng.random() < 0.5}

    def corpus(self):
        return [{"fam": "dropout", "old": True, "ratio": 0.0, "mask": False, "tm_input": False},
                {"fam": "dropout", "old": True, "ratio": 0.0, "mask": True, "tm_input": False}]

    def build(self, c):
        C = rules_common()
        hst = Host(opset=10 if c["old"] else 13)
        hst.inp("x", F32, [2, 3])
        outs = ["y", "m"] if c["mask"] else ["y"]
        if c["old"]:
            attrs = {} if c["ratio"] is None else {"ratio": c["ratio"]}
            hst.node("Dropout", ["x"], outs, **attrs)
        else:
            ins = ["x"]
            if c["ratio"] is not None or c["tm_input"]:
                ins.append(hst.const("r", np.array(c["ratio"] or 0.0, dtype=F32), "init"))
            if c["tm_input"]:
                ins.append(hst.const("tm", np.array(False), "init"))
            hst.node("Dropout", ins, outs)
        hst.out("y", F32, None)
        if c["mask"]:
            hst.out("m", "bool", None)
        return hst, [C.dropout_zero_rule, C.dropout_inference_rule]

    def line(self, c):
        nin = 1 if c["old"] else 1 + (1 if (c["ratio"] is not None or c["tm_input"]) else 0) + (1 if c["tm_input"] else 0)
        ratio = "-" if (c["ratio"] is None or not c["old"]) else frac(c["ratio"])
        # either rule of the pair may fire: the pair fires iff one of them does
        return f"dropout zero=1 ratio={ratio} tm=- nin={nin} mask={int(c['mask'])}"

    def observe(self, c, after):
        return "fire"

    def finding(self, c):
        return None


# =========================================================================== casts


class CastFam(Family):
    name = "cast"
    rule_keys = ("no_op_cast_rule", "cast_cast_rule")
    TYPES = [TP.FLOAT, TP.FLOAT16, TP.DOUBLE, TP.INT32, TP.INT64, TP.INT64, TP.UINT64, TP.BFLOAT16, TP.UINT8, TP.BOOL, TP.INT8]
    NPN = {TP.FLOAT: F32, TP.FLOAT16: "float16", TP.DOUBLE: "float64", TP.INT32: "int32", TP.INT64: "int64",
           TP.UINT8: "uint8", TP.BOOL: "bool", TP.INT8: "int8", TP.UINT64: "uint64"}
    # magnitudes that sit just above a rounding tie of a narrower float format (double rounding shows only there)
    BIG = [2 ** 60 + 2 ** 36 + 1, 2 ** 53 + 1, 2 ** 24 + 1, 2 ** 24 + 2 ** 16 + 1, 2 ** 30 + 2 ** 19 + 1, 2 ** 62 + 2 ** 38 + 1, 2049, 4097 + 4096]

    def gen(self, rng):
        src = rng.choice([t for t in self.TYPES if t != TP.BFLOAT16])
        if rng.random() < 0.45:
            to = src if rng.random() < 0.5 else rng.choice(self.TYPES)
            return {"fam": "cast", "kind": "noop", "src": src, "to": to, "typed": rng.random() > 0.1}
        t2 = rng.choice([TP.FLOAT, TP.FLOAT, TP.FLOAT, TP.DOUBLE, TP.DOUBLE, TP.FLOAT16, TP.INT32, TP.BFLOAT16])
        t3 = rng.choice([TP.FLOAT16, TP.FLOAT16, TP.BFLOAT16, TP.FLOAT, TP.FLOAT, TP.INT32, TP.DOUBLE])
        return {"fam": "cast", "kind": "castcast", "src": src, "t2": t2, "t3": t3, "extra": rng.random() < 0.08}

    def corpus(self):
        return [{"fam": "cast", "kind": "castcast", "src": TP.DOUBLE, "t2": TP.FLOAT, "t3": TP.FLOAT16, "extra": False, "witness": True},
                {"fam": "cast", "kind": "castcast", "src": TP.FLOAT, "t2": TP.FLOAT, "t3": TP.FLOAT16, "extra": False},
                {"fam": "cast", "kind": "noop", "src": TP.FLOAT, "to": TP.FLOAT, "typed": True}]

    def build(self, c):
        C = rules_common()
        hst = Host()
        np_src = self.NPN[c["src"]]
        gen = None
        if c.get("witness"):
            gen = lambda r: np.array([1 + 2.0 ** -11 + 2.0 ** -30, 1.0, -3.5], dtype=np.float64)
        elif np_src in ("int64", "uint64", "int32"):
            lim = np.iinfo(np_src).max
            pool = [v for v in self.BIG if v <= lim]
            def gen(r, pool=pool, np_src=np_src):
                vals = [pool[r.randint(0, len(pool))] * (1 if (np_src.startswith("u") or r.random_sample() < 0.6) else -1) for _ in range(2)]
                return np.array(vals + [int(r.randint(-9, 10)) if not np_src.startswith("u") else 7], dtype=np_src)
        elif np_src == "float64":
            gen = lambda r: np.array([1 + 2.0 ** -11 + 2.0 ** -30, float(2 ** 60 + 2 ** 36 + 2 ** 8), r.choice([-3.5, 0.1, 65519.0])], dtype=np.float64)
        hst.inp("x", np_src, [3], gen=gen)
        if c["kind"] == "noop":
            if not c["typed"]:
                # an untyped intermediate: x passes through an op whose output has no value_info
                hst.node("Identity", ["x"], ["x1"])
                hst.node("Cast", ["x1"], ["y"], to=c["to"])
            else:
                hst.node("Cast", ["x"], ["y"], to=c["to"])
            hst.outputs.append(__import__("onnx").helper.make_tensor_value_info("y", c["to"], None))
            return hst, [C.no_op_cast_rule]
        hst.node("Cast", ["x"], ["t"], to=c["t2"])
        hst.node("Cast", ["t"], ["y"], to=c["t3"])
        import onnx

        hst.outputs.append(onnx.helper.make_tensor_value_info("y", c["t3"], None))
        if c["extra"]:
            hst.outputs.append(onnx.helper.make_tensor_value_info("t", c["t2"], None))
        return hst, [C.cast_cast_rule]

    def infer(self, c):
        return c["kind"] != "noop" or c["typed"]

    def line(self, c):
        if c["kind"] == "noop":
            return f"cast x={c['src'] if c['typed'] else '-'} to={c['to']}"
        return f"castcast x={c['src']} t2={c['t2']} t3={c['t3']} extra={int(c['extra'])}"

    def observe(self, c, after):
        if c["kind"] == "noop":
            return "fire"
        n = find_node(after, "Cast")
        return f"fire to={attr_of(n, 'to')}"

    def finding(self, c):
        # C05-N7 (inexact source type) is fixed in /repo (e86ba81): the rule refuses; witness in the corpus
        return None

    prefer = "ref"


# =========================================================================== permutations / axes


class PermFam(Family):
    name = "perm"
    rule_keys = ("no_op_transpose_rule", "transpose_transpose_rule")

    def gen(self, rng):
        r = rng.choice([1, 2, 3, 3, 3, 4, 4])      # rank >= 3: permutation pairs that do not commute
        def perm():
            p = list(range(r))
            if rng.random() < 0.75:
                rng.shuffle(p)
            return p
        if rng.random() < 0.4:
            return {"fam": "perm", "kind": "noop", "perm": perm() if rng.random() > 0.1 else None, "r": r}
        p1 = perm()
        if rng.random() < 0.3:   # inverse pair
            p2 = [p1.index(i) for i in range(r)]
        else:
            p2 = perm()
        return {"fam": "perm", "kind": "tt", "p1": p1, "p2": p2, "r": r, "extra": rng.random() < 0.08}

    def corpus(self):
        return [{"fam": "perm", "kind": "tt", "p1": [1, 2, 0], "p2": [1, 2, 0], "r": 3, "extra": False},
                {"fam": "perm", "kind": "tt", "p1": [1, 2, 0], "p2": [2, 0, 1], "r": 3, "extra": False}]

    def build(self, c):
        C = rules_common()
        hst = Host()
        shape = [2, 3, 4, 5][: c["r"]]
        hst.inp("x", F32, shape)
        if c["kind"] == "noop":
            hst.node("Transpose", ["x"], ["y"], **({} if c["perm"] is None else {"perm": c["perm"]}))
            hst.out("y", F32, None)
            return hst, [C.no_op_transpose_rule]
        hst.node("Transpose", ["x"], ["t"], perm=c["p1"])
        hst.node("Transpose", ["t"], ["y"], perm=c["p2"])
        hst.out("y", F32, None)
        if c["extra"]:
            hst.out("t", F32, None)
        return hst, [C.transpose_transpose_rule]

    def line(self, c):
        if c["kind"] == "noop":
            return "notranspose perm=" + ("-" if c["perm"] is None else ints(c["perm"]))
        return f"transtrans p1={ints(c['p1'])} p2={ints(c['p2'])} extra={int(c['extra'])}"

    def observe(self, c, after):
        if c["kind"] == "noop":
            return "fire"
        n = find_node(after, "Transpose")
        if n is None:
            return "fire identity"
        return f"fire perm={ints(attr_of(n, 'perm'))}"

    def finding(self, c):
        return None


class AxesFam(Family):
    name = "axes"
    rule_keys = ("unsqueeze_unsqueeze_rule", "squeeze_reshape_1d_rule")

    def gen(self, rng):
        if rng.random() < 0.7:
            rx = rng.choice([0, 1, 2, 3])
            v1 = rng.randint(-(rx + 1), rx)
            v2 = rng.randint(-(rx + 2), rx + 1)
            return {"fam": "axes", "kind": "unsq", "rx": rx, "v1": v1, "v2": v2, "dyn1": rng.random() < 0.06,
                    "dyn2": rng.random() < 0.06, "extra": rng.random() < 0.06}
        return {"fam": "axes", "kind": "sq", "shape": rng.choice([[1], [3], [0], [1, 3], [3, 1], None, ["N"]]),
                "lit": rng.choice([-1, -1, -1, 3])}

    def corpus(self):
        return [{"fam": "axes", "kind": "unsq", "rx": 2, "v1": 1, "v2": 1, "dyn1": False, "dyn2": False, "extra": False},
                {"fam": "axes", "kind": "sq", "shape": [1], "lit": -1}]

    def build(self, c):
        C = rules_common()
        hst = Host()
        if c["kind"] == "unsq":
            shape = [2, 3, 4][: c["rx"]]
            hst.inp("x", F32, shape)
            a1 = hst.const("a1", np.array([c["v1"]], dtype=np.int64), "input" if c["dyn1"] else "init")
            a2 = hst.const("a2", np.array([c["v2"]], dtype=np.int64), "input" if c["dyn2"] else "init")
            hst.node("Unsqueeze", ["x", a1], ["t"])
            hst.node("Unsqueeze", ["t", a2], ["y"])
            hst.out("y", F32, None)
            if c["extra"]:
                hst.out("t", F32, None)
            return hst, [C.unsqueeze_unsqueeze_rule]
        shp = c["shape"]
        run_shape = [3 if d == "N" else d for d in shp] if shp is not None else [3]
        hst.inp("x", F32, run_shape, decl_shape=shp)
        hst.node("Squeeze", ["x"], ["t"])
        hst.const("s", np.array([c["lit"]], dtype=np.int64), "init")
        hst.node("Reshape", ["t", "s"], ["y"])
        hst.out("y", F32, None)
        return hst, [C.squeeze_reshape_1d_rule]

    def infer(self, c):
        return c["kind"] == "unsq"

    def line(self, c):
        if c["kind"] == "unsq":
            return (f"unsq v1={'-' if c['dyn1'] else c['v1']} v2={'-' if c['dyn2'] else c['v2']} extra={int(c['extra'])}")
        shp = c["shape"]
        return f"sqreshape rank={'-' if shp is None else len(shp)} lit={c['lit']}"

    def observe(self, c, after):
        if c["kind"] == "unsq":
            n = find_node(after, "Unsqueeze")
            return f"fire axes={ints(get_init(after, n.input[1]))}"
        return "fire"

    def finding(self, c):
        return None


# =========================================================================== reshape family


def bind(shape, val=2):
    return [val if isinstance(d, str) or d is None else d for d in shape]


class ReshapeFam(Family):
    name = "reshape"
    rule_keys = ("flatten_to_reshape_rule", "reshape_reshape_rule", "no_op_expand_rule", "materialize_reshape_shape_rule")

    def gen_shape(self, rng, rmin=1, rmax=4, zero=0.07, sym=0.15):
        r = rng.randint(rmin, rmax)
        out = []
        for _ in range(r):
            q = rng.random()
            out.append(0 if q < zero else "N" if q < zero + sym else None if q < zero + sym + 0.04 else rng.choice([1, 2, 3, 4]))
        # at most one distinct symbol name per position to keep bindings simple
        names = iter("NMKL")
        return [next(names) if d == "N" else d for d in out]

    p_pre = 0.2

    def gen_pre(self, rng, c):
        """A host for the same rule object that takes the *other* exit of `check`: for Reshape∘Reshape the empty-tensor /
        `allowzero=1` exit (a real 0 stays in the fused shape) as often as the ordinary one."""
        if c["kind"] != "rr":
            for _ in range(30):
                p = self.gen(rng)
                if p["kind"] == c["kind"]:
                    return p
            return p
        return self.gen(rng, kind="rr", want_zero=rng.random() < 0.8)

    def p_pre_for(self, c):
        # the conjunction history × opset boundary is generated deliberately
        return 0.6 if c["kind"] == "rr" and c.get("opset", 18) < 14 else 0.2

    def gen(self, rng, kind=None, want_zero=False):
        k = kind or rng.choice(["flatten", "flatten", "rr", "rr", "expand", "mat"])
        if k == "flatten":
            x = self.gen_shape(rng) if rng.random() > 0.08 else None
            r = len(x) if x is not None else 3
            axis = rng.randint(-r, r)
            return {"fam": "reshape", "kind": "flatten", "x": x, "axis": axis, "out": rng.choice(["none", "spec", "spec"]),
                    "run": bind(x, rng.choice([1, 2, 3])) if x is not None else [2, 3, 4][:r]}
        if k == "rr":
            x = [rng.choice([1, 2, 3, 4, 6]) for _ in range(rng.randint(1, 3))]
            if rng.random() < (0.9 if want_zero else 0.07):
                x[rng.randrange(len(x))] = 0
            total = int(np.prod(x))
            mid = self.factor(rng, total)
            tgt = self.factor(rng, total)
            s2 = list(tgt)
            az = 1 if rng.random() < (0.9 if total == 0 and want_zero else 0.15) else 0
            q = rng.random()
            if q < 0.3 and s2:
                s2[rng.randrange(len(s2))] = -1
            elif q < 0.55 and s2:
                i = rng.randrange(len(s2))
                if az == 0 and i < len(mid) and mid[i] == s2[i]:
                    s2[i] = 0
            true_out = self.py_reshape(mid, s2, az)
            if true_out is None:          # the original second Reshape would be invalid: not a host
                s2, true_out = list(tgt), self.py_reshape(mid, tgt, 1)
                az = 1
            # opset boundary: `allowzero` exists from Reshape-14 on; below it neither Reshape carries the attribute
            opset = rng.choice([18, 18, 13, 13, 21])
            if az or total == 0 or 0 in mid:
                opset = rng.choice([18, 21, 14])
            return {"fam": "reshape", "kind": "rr", "x": x, "mid": mid, "s2": s2, "az": az, "s2const": rng.random() > 0.07,
                    "out": rng.choice(["none", "spec", "sym"]), "tgt": true_out, "extra": rng.random() < 0.06, "opset": opset}
        if k == "expand":
            x = self.gen_shape(rng, 1, 3, zero=0.05, sym=0.15)
            run = bind(x)
            q = rng.random()
            shp = list(run)
            if q < 0.3 and shp:
                i = rng.randrange(len(shp))
                shp[i] = shp[i] * 2 if run[i] == 1 else 1 if run[i] != 1 else shp[i]
            elif q < 0.4:
                shp = [1] + shp
            return {"fam": "reshape", "kind": "expand", "x": x, "run": run, "shape": shp, "const": rng.random() > 0.08}
        # materialize
        out = self.gen_shape(rng, 1, 3, zero=0.12, sym=0.3)
        return {"fam": "reshape", "kind": "mat", "out": out if rng.random() > 0.07 else None, "run": bind(out, rng.choice([1, 2, 3])),
                "const": rng.random() < 0.1}

    @staticmethod
    def py_reshape(in_shape, target, allowzero):
        """ONNX Reshape target resolution (the truthful output annotation of a host); None = invalid."""
        t = list(target)
        if t.count(-1) > 1 or any(v < -1 for v in t):
            return None
        if allowzero and 0 in t and -1 in t:
            return None
        for i, v in enumerate(t):
            if v == 0 and not allowzero:
                if i >= len(in_shape):
                    return None
                t[i] = in_shape[i]
        total = int(np.prod(in_shape)) if in_shape else 1
        known = int(np.prod([v for v in t if v != -1])) if [v for v in t if v != -1] else 1
        if -1 in t:
            if known == 0 or total % known:
                return None
            t[t.index(-1)] = total // known
        elif known != total:
            return None
        return t

    @staticmethod
    def factor(rng, total):
        if total == 0:
            return rng.choice([[0], [0, 2], [3, 0]])
        out = []
        rest = total
        for _ in range(rng.randint(0, 2)):
            divs = [d for d in range(1, rest + 1) if rest % d == 0]
            d = rng.choice(divs)
            out.append(d)
            rest //= d
        out.append(rest)
        rng.shuffle(out)
        return out

    def corpus(self):
        return [{"fam": "reshape", "kind": "flatten", "x": [2, 0, 3], "axis": 2, "out": "none", "run": [2, 0, 3]},   # D6 witness
                {"fam": "reshape", "kind": "mat", "out": ["N", 0], "run": [3, 0], "const": False},                 # D16c2 witness
                {"fam": "reshape", "kind": "flatten", "x": [2, 3, 4], "axis": 1, "out": "spec", "run": [2, 3, 4]},
                {"fam": "reshape", "kind": "rr", "x": [2, 3], "mid": [3, 2], "s2": [0, 3], "az": 0, "s2const": True, "out": "none",
                 "tgt": [3, 3], "extra": False},
                # history × opset boundary: the rule object first fuses an empty-tensor pair keeping `allowzero=1`, then a pair at opset 13
                {"fam": "reshape", "kind": "rr", "x": [2, 3], "mid": [3, 2], "s2": [6], "az": 0, "s2const": True, "out": "none",
                 "tgt": [6], "extra": False, "opset": 13, "dflt": 1,
                 "pre": [{"fam": "reshape", "kind": "rr", "x": [0, 6, 2], "mid": [3, 0], "s2": [0, 2], "az": 1, "s2const": True, "out": "none",
                          "tgt": [0, 2], "extra": False, "opset": 18}]},
                {"fam": "reshape", "kind": "rr", "x": [2, 3], "mid": [3, 2], "s2": [-1, 2], "az": 0, "s2const": True, "out": "spec",
                 "tgt": [3, 2], "extra": False, "opset": 13}]

    @staticmethod
    def flatten_spec(x, axis):
        """declared output shape of Flatten for a declared input shape."""
        r = len(x)
        a = axis + r if axis < 0 else axis
        def prod(ds):
            if any(not isinstance(d, int) for d in ds):
                return None
            return int(np.prod(ds)) if ds else 1
        return [prod(x[:a]), prod(x[a:])]

    def build(self, c):
        C = rules_common()
        hst = Host()
        k = c["kind"]
        if k == "flatten":
            hst.inp("x", F32, c["run"], decl_shape=c["x"])
            hst.node("Flatten", ["x"], ["y"], axis=c["axis"])
            out = None
            if c["out"] == "spec" and c["x"] is not None:
                out = self.flatten_spec(c["x"], c["axis"])
            hst.out("y", F32, out)
            return hst, [C.flatten_to_reshape_rule]
        if k == "rr":
            hst.opset = c.get("opset", 18)
            hst.inp("x", F32, c["x"])
            hst.const("s1", np.array(c["mid"], dtype=np.int64), "init")
            hst.const("s2", np.array(c["s2"], dtype=np.int64), "init" if c["s2const"] else "input")
            hst.node("Reshape", ["x", "s1"], ["t"], **({"allowzero": 1} if hst.opset >= 14 else {}))
            hst.node("Reshape", ["t", "s2"], ["y"], **({"allowzero": 1} if c["az"] else {}))
            hst.out("y", F32, self.rr_out(c))
            if c["extra"]:
                hst.out("t", F32, None)
            return hst, [C.reshape_reshape_rule]
        if k == "expand":
            hst.inp("x", F32, c["run"], decl_shape=c["x"])
            hst.const("s", np.array(c["shape"], dtype=np.int64), "init" if c["const"] else "input")
            hst.node("Expand", ["x", "s"], ["y"])
            hst.out("y", F32, None)
            return hst, [C.no_op_expand_rule]
        # materialize: Reshape(x, dynamic shape) with a declared output shape
        run = c["run"]
        total = int(np.prod(run))
        hst.inp("x", F32, [total])
        hst.const("s", np.array(run, dtype=np.int64), "init" if c["const"] else "input")
        hst.node("Reshape", ["x", "s"], ["y"], allowzero=1)
        hst.out("y", F32, c["out"])
        return hst, [C.materialize_reshape_shape_rule]

    def rr_out(self, c):
        """the *truthful* annotation of the second Reshape's output (recomputed from the case, never trusted)."""
        if c["out"] == "none":
            return None
        tgt = self.py_reshape(c["mid"], c["s2"], c["az"])
        if tgt is None:
            return None
        if c["out"] == "spec":
            return list(tgt)
        return ["N"] + list(tgt[1:])

    def infer(self, c):
        return False     # annotations are exactly what the case declares

    def line(self, c):
        k = c["kind"]
        if k == "flatten":
            out = None
            if c["out"] == "spec" and c["x"] is not None:
                out = self.flatten_spec(c["x"], c["axis"])
            return f"flatten x={shape_tok(c['x'])} axis={c['axis']} out={shape_tok(out)}"
        if k == "rr":
            return (f"reshape2 shape={ints(c['s2']) if c['s2const'] else '-'} out={shape_tok(self.rr_out(c))} az={c['az']} "
                    f"extra={int(c['extra'])}")
        if k == "expand":
            return f"expandid x={shape_tok(c['x'])} shape={ints(c['shape']) if c['const'] else '-'}"
        return f"materialize const={int(c['const'])} out={shape_tok(c['out'])}"

    def observe(self, c, after):
        k = c["kind"]
        if k == "expand":
            return "fire"
        n = find_node(after, "Reshape")
        shp = get_init(after, n.input[1])
        if k == "flatten":
            return f"fire shape={ints(shp)}"
        az = attr_of(n, "allowzero")
        return f"fire shape={ints(shp)} az={'-' if az is None else az}"

    def counters(self, c, rec):
        out = []
        if c["kind"] == "rr":
            if c.get("opset", 18) < 14:
                out.append("rr_opset13")
            if c["az"] == 1 and 0 in c["s2"]:
                out.append("rr_az1_zero_kept")
            for p in c.get("pre") or []:
                if p.get("kind") == "rr" and p["az"] == 1 and 0 in p["s2"] and p["s2const"] and not p["extra"]:
                    out.append("rr_after_az1_zero_kept")
                    if c.get("opset", 18) < 14:
                        out.append("rr_opset13_after_az1_zero_kept")
        return out

    def finding(self, c):
        # D6 (flatten with a static zero dim) is fixed in /repo (02f546a): the rule refuses; witness in the corpus
        # D16c2 (materialize: -1 beside a static 0) is fixed in /repo (49df852): the rule now refuses; witness in the corpus
        return None


# =========================================================================== slices, scatter


class SliceFam(Family):
    name = "slice"
    rule_keys = ("collapse_slice_rule", "collapse_slice2_rule")
    I64MAX = 9223372036854775807

    def gen(self, rng):
        x = [rng.choice([2, 3, 4, "N"]) if rng.random() > 0.05 else 0 for _ in range(rng.randint(1, 3))]
        names = iter("NMK")
        x = [next(names) if d == "N" else d for d in x]
        r = len(x)
        ax = rng.randint(-r, r - 1)
        d = x[ax]
        dn = d if isinstance(d, int) else 3
        end = rng.choice([dn, dn, dn + 1, dn - 1, self.I64MAX, self.I64MAX, -1, 100])
        start = rng.choice([0, 0, 0, 0, 1, -dn])
        step = rng.choice([1, 1, 1, 1, 2, -1])
        return {"fam": "slice", "x": x if rng.random() > 0.07 else None, "run": bind(x, 3), "ax": ax, "st": start, "en": end, "sp": step,
                "dyn": rng.choice(["", "", "", "", "st", "en", "ax", "sp", "all", "all"]), "out": rng.choice(["none", "infer", "infer"]),
                "two": rng.random() < 0.07}

    def corpus(self):
        return [{"fam": "slice", "x": [2, 3], "run": [2, 3], "ax": 1, "st": 0, "en": 3, "sp": 1, "dyn": "", "out": "infer", "two": False},
                {"fam": "slice", "x": ["N", 3], "run": [3, 3], "ax": 0, "st": 0, "en": self.I64MAX, "sp": 1, "dyn": "", "out": "none", "two": False}]

    I64MIN = -9223372036854775808

    def vals(self, c):
        if c["dyn"] == "all":
            # starts / ends / steps are run-time inputs; the declared output shape equals the data shape, which is truthful
            # for the identity slice *and* for a full reversal (the harness feeds both)
            return {"st": [0], "en": [self.I64MAX], "ax": [c["ax"]], "sp": [1]}
        # `two`: two-element starts/ends/axes/steps (size != 1)
        if c["two"] and len(c["run"]) >= 2:
            return {"st": [c["st"], 0], "en": [c["en"], self.I64MAX], "ax": [c["ax"] % len(c["run"]), (c["ax"] + 1) % len(c["run"])], "sp": [c["sp"], 1]}
        return {k: [c[k]] for k in ("st", "en", "ax", "sp")}

    def out_shape(self, c):
        """declared slice-output shape: the true one (symbolic where the input is), or None."""
        if c["out"] == "none" or c["x"] is None:
            return None
        v = self.vals(c)
        out = list(c["x"])
        for st, en, ax, sp in zip(v["st"], v["en"], v["ax"], v["sp"]):
            d = out[ax]
            if not isinstance(d, int):
                # only the trivially-full slice keeps a symbolic dim; anything else: unknown
                out[ax] = d if (st == 0 and sp == 1 and en == self.I64MAX) else None
                continue
            out[ax] = len(range(d)[slice(st, en if en != self.I64MAX else None, sp)]) if sp > 0 else len(range(d)[slice(st, en, sp)])
        return out

    def build(self, c):
        C = rules_common()
        hst = Host()
        hst.inp("x", F32, c["run"], decl_shape=c["x"])
        v = self.vals(c)
        names = []
        for k in ("st", "en", "ax", "sp"):
            dyn = c["dyn"] == k or (c["dyn"] == "all" and k != "ax")
            names.append(hst.const(k, np.array(v[k], dtype=np.int64), "input" if dyn else "init"))
        if c["dyn"] == "all":
            # run-time operand values: identity or full reversal, drawn together per feed
            state = {}
            def pick(r, key):
                if key == "st":
                    state["rev"] = r.random_sample() < 0.6
                rev = state.get("rev", False)
                return np.array({"st": [-1 if rev else 0], "en": [self.I64MIN if rev else self.I64MAX], "sp": [-1 if rev else 1]}[key], dtype=np.int64)
            for k in ("st", "en", "sp"):
                hst.feeds[k] = (lambda r, k=k: pick(r, k))
        hst.node("Slice", ["x"] + names, ["y"])
        hst.out("y", F32, self.out_shape(c))
        return hst, [C.collapse_slice_rule, C.collapse_slice2_rule]

    def infer(self, c):
        return False

    def line(self, c):
        v = self.vals(c)
        def tok(k):
            if c["dyn"] == k or (c["dyn"] == "all" and k != "ax"):
                return "n"
            return str(v[k][0]) if len(v[k]) == 1 else "o"
        steps = "-" if c["dyn"] in ("sp", "all") else ints(v["sp"])
        return (f"slice12 data={shape_tok(c['x'])} out={shape_tok(self.out_shape(c))} st={tok('st')} en={tok('en')} ax={tok('ax')} "
                f"sp={tok('sp')} steps={steps}")

    def observe(self, c, after):
        return "fire"

    def finding(self, c):
        return None


class ScatterFam(Family):
    name = "scatter"
    rule_keys = ("no_op_static_scatter_nd_rule",)

    def gen(self, rng):
        n = rng.choice([1, 2, 3, 4])
        data = [n] + [rng.choice([1, 2]) for _ in range(rng.randint(0, 2))]
        q = rng.random()
        idx = list(range(n))
        if q < 0.15:
            rng.shuffle(idx)
        elif q < 0.25:
            idx = idx[:-1] if len(idx) > 1 else idx
        elif q < 0.3:
            idx = idx[:-1] + [idx[0]]
        decl = list(data)
        if rng.random() < 0.12:
            decl[-1 if len(decl) > 1 else 0] = "N"
        opset = rng.choice([13, 16, 18, 18, 21, 23])
        reds = schema_values("ScatterND", "reduction", opset)        # none at 13; none/add/mul at 16; + max/min from 18
        return {"fam": "scatter", "data": decl, "run": data, "idx": idx, "const": rng.random() > 0.08, "opset": opset,
                "red": rng.choice(["-", "-"] + reds), "upd_same": rng.random() > 0.06}

    def corpus(self):
        return [{"fam": "scatter", "data": [3, 2], "run": [3, 2], "idx": [0, 1, 2], "const": True, "red": "add", "upd_same": True},   # N4
                {"fam": "scatter", "data": [3, 2], "run": [3, 2], "idx": [0, 1, 2], "const": True, "red": "-", "upd_same": True}]

    def build(self, c):
        C = rules_common()
        hst = Host(opset=c.get("opset", 18))
        hst.inp("d", F32, c["run"], decl_shape=c["data"])
        ushape_run = [len(c["idx"])] + c["run"][1:]
        udecl = list(c["data"]) if c["upd_same"] else None
        if udecl is not None and len(c["idx"]) != c["run"][0]:
            udecl = [len(c["idx"])] + list(c["data"][1:])
        hst.inp("u", F32, ushape_run, decl_shape=udecl)
        hst.const("i", np.array([[k] for k in c["idx"]], dtype=np.int64), "init" if c["const"] else "input")
        hst.node("ScatterND", ["d", "i", "u"], ["y"], **({} if c["red"] == "-" else {"reduction": c["red"]}))
        hst.out("y", F32, None)
        return hst, [C.no_op_static_scatter_nd_rule]

    def infer(self, c):
        return False

    def line(self, c):
        udecl = list(c["data"]) if c["upd_same"] else None
        if udecl is not None and len(c["idx"]) != c["run"][0]:
            udecl = [len(c["idx"])] + list(c["data"][1:])
        idx = ";".join(str(k) for k in c["idx"]) if c["const"] else "-"
        return f"scatter data={shape_tok(c['data'])} upd={shape_tok(udecl)} idx={idx} red={c['red']}"

    def observe(self, c, after):
        return "fire"

    def finding(self, c):
        # C05-N4 (reduction ignored) is fixed in /repo (396bc06): the rule refuses; witness in the corpus
        return None


# =========================================================================== linear algebra


class GemmFam(Family):
    name = "gemm"
    exact = False
    rule_keys = ("matmul_add_to_gemm_rule", "transpose_a_matmul_add_to_gemm_rule", "transpose_b_matmul_add_to_gemm_rule",
                 "transpose_ab_matmul_add_to_gemm_rule")

    def gen(self, rng):
        m, k, n = rng.choice([1, 2, 3]), rng.choice([1, 2, 3]), rng.choice([1, 2, 4])
        ta, tb = rng.random() < 0.3, rng.random() < 0.3
        cs = rng.choice([[m, n], [n], [1, n], [m, 1], [], [1], [1, 1], [2, m, n], [3, n] if m == 1 else [m, n], [1, 1, n]])
        return {"fam": "gemm", "m": m, "k": k, "n": n, "ta": ta, "tb": tb, "c": cs, "ranka": rng.choice([2, 2, 2, 2, 3, 1, None]),
                "rankb": rng.choice([2, 2, 2, 2, 3, None]), "extra": rng.random() < 0.06, "cconst": rng.random() < 0.3,
                "cknown": rng.random() > 0.06}

    def corpus(self):
        b = {"fam": "gemm", "ta": False, "tb": False, "ranka": 2, "rankb": 2, "extra": False, "cconst": False}
        return [dict(b, m=2, k=3, n=4, c=[5, 2, 4]), dict(b, m=1, k=3, n=4, c=[3, 4]), dict(b, m=2, k=3, n=4, c=[4])]

    def build(self, c):
        C = rules_common()
        hst = Host()
        m, k, n = c["m"], c["k"], c["n"]
        def ab(name, rank, base, trans):
            shp = list(reversed(base)) if trans else list(base)
            if rank == 3:
                shp = [2] + shp
            elif rank == 1:
                shp = [base[1]] if name == "a" else [base[0]]
            decl = None if rank is None else shp
            hst.inp(name, F32, shp, decl_shape=decl)
            return shp
        ra, rb = c["ranka"], c["rankb"]
        if (c["ta"] and ra not in (2, None)) or (c["tb"] and rb not in (2, None)):
            ra = rb = 2
        ab("a", ra, [m, k], c["ta"])
        ab("b", rb, [k, n], c["tb"])
        la, lb = "a", "b"
        if c["ta"]:
            la = hst.node("Transpose", ["a"], ["at"], perm=[1, 0])
        if c["tb"]:
            lb = hst.node("Transpose", ["b"], ["bt"], perm=[1, 0])
        hst.node("MatMul", [la, lb], ["t"])
        if c["cconst"]:
            hst.const("c", np.arange(int(np.prod(c["c"])) if c["c"] else 1, dtype=F32).reshape(c["c"]), "init")
        else:
            hst.inp("c", F32, c["c"], decl_shape=c["c"] if c.get("cknown", True) else None)
        hst.node("Add", ["t", "c"], ["y"])
        hst.out("y", F32, None)
        if c["extra"]:
            hst.out("t", F32, None)
        c["_ra"], c["_rb"] = ra, rb
        return hst, C.matmul_add_to_gemm_rule and [C.transpose_ab_matmul_add_to_gemm_rule, C.transpose_a_matmul_add_to_gemm_rule,
                                                     C.transpose_b_matmul_add_to_gemm_rule, C.matmul_add_to_gemm_rule]

    def infer(self, c):
        return False

    def ranks(self, c):
        ra, rb = c["ranka"], c["rankb"]
        if (c["ta"] and ra not in (2, None)) or (c["tb"] and rb not in (2, None)):
            ra = rb = 2
        return ra, rb

    def line(self, c):
        ra, rb = self.ranks(c)
        # an untyped/unshaped Transpose output never has rank 2 known unless its input has (no inference here):
        # the rule set tries the transposed patterns first; their `input_a` is the Transpose *input*.
        return (f"gemm ra={'-' if ra is None else ra} rb={'-' if rb is None else rb} ta={int(c['ta'])} tb={int(c['tb'])} "
                f"m={c['m']} n={c['n']} c={ints(c['c']) if (c.get('cknown', True) or c['cconst']) else '-'} extra={int(c['extra'])}")

    def observe(self, c, after):
        n = find_node(after, "Gemm")
        return f"fire transA={attr_of(n, 'transA', 0)} transB={attr_of(n, 'transB', 0)}"

    def finding(self, c):
        # D16b (C not unidirectionally broadcastable to (M,N)) is fixed in /repo (be37f51): the rule refuses; witnesses in the corpus
        return None


class PadFam(Family):
    name = "pad"
    exact = True
    rule_keys = ("fuse_pad_into_conv_rule", "fuse_pad_into_conv_integer_rule")

    def gen(self, rng):
        nsp = rng.choice([1, 1, 2])
        rank = nsp + 2
        integer = rng.random() < 0.35
        pads = [0, 0] + [rng.choice([0, 1, 2]) for _ in range(nsp)] + [0, 0] + [rng.choice([0, 1, 2]) for _ in range(nsp)]
        q = rng.random()
        if q < 0.07:
            pads[rng.choice([0, 1, rank, rank + 1])] = 1
        elif q < 0.12:
            pads[2] = -1
        axes = None
        if rng.random() < 0.3:
            # pads given for spatial axes only, possibly with negative axis numbers
            axes = [a - rank if rng.random() < 0.4 else a for a in range(2, rank)]
            pads = pads[2:rank] + pads[rank + 2:]
        opset = rng.choice([13, 18, 18, 19, 21, 23])
        if axes is not None and opset < 18:
            opset = 18        # the `axes` input of Pad exists from opset 18
        # the value space of `mode` comes from the installed schema at that opset (19+: also `wrap`)
        modes = schema_values("Pad", "mode", opset)
        return {"fam": "pad", "integer": integer, "nsp": nsp, "pads": pads, "axes": axes, "opset": opset,
                "mode": rng.choice([None, None, "constant"] + modes),
                "cv": rng.choice([None, None, 0, 0, 1, "dyn"]), "pads_dyn": rng.random() < 0.06,
                "autopad": rng.choice(["NOTSET", "NOTSET", "NOTSET", None, "VALID", "SAME_UPPER"]),
                "cpads": rng.choice([None, None, [rng.choice([0, 1]) for _ in range(2 * nsp)]]),
                "zp": rng.choice([None, None, 0, 0, 5, "dyn"]) if integer else None, "shape_known": rng.random() > 0.06,
                "strides": rng.choice([1, 1, 2]), "dil": rng.choice([1, 1, 2]), "extra": rng.random() < 0.06}

    def corpus(self):
        b = {"fam": "pad", "nsp": 1, "axes": None, "mode": None, "cv": None, "pads_dyn": False, "autopad": "NOTSET", "cpads": None,
             "shape_known": True, "strides": 1, "dil": 1, "extra": False}
        out = [dict(b, integer=True, pads=[0, 0, 1, 0, 0, 1], zp=5),      # D16a witness
               dict(b, integer=False, pads=[0, 0, 1, 0, 0, 2], zp=None, cpads=[1, 0]),
               dict(b, integer=True, pads=[0, 0, 1, 0, 0, 1], zp=0)]
        # directed near-misses: an otherwise fusable host that violates exactly one guard of `check` (both Conv and ConvInteger),
        # so that every guard is exercised in every run whatever the seed
        good = dict(b, pads=[0, 0, 1, 0, 0, 2], zp=None, opset=18)
        for integer in (False, True):
            g = dict(good, integer=integer)
            out += [dict(g), dict(g, autopad="VALID"), dict(g, autopad="SAME_UPPER"), dict(g, autopad="SAME_LOWER"), dict(g, autopad=None),
                    dict(g, mode="reflect"), dict(g, mode="edge"), dict(g, mode="constant"), dict(g, mode="wrap", opset=19),
                    dict(g, cv=1), dict(g, cv=0), dict(g, cv="dyn"), dict(g, pads=[0, 0, -1, 0, 0, 2]), dict(g, pads=[0, 1, 1, 0, 0, 2]),
                    dict(g, pads=[1, 0, 1, 0, 0, 2]), dict(g, pads=[0, 0, 1, 0, 1, 2]), dict(g, pads_dyn=True), dict(g, shape_known=False),
                    dict(g, pads=[1, 2], axes=[2]), dict(g, pads=[1, 2], axes=[-1]), dict(g, cpads=[1, 1]), dict(g, extra=True)]
        out += [dict(good, integer=True, zp=0), dict(good, integer=True, zp=5), dict(good, integer=True, zp="dyn")]
        return out

    def build(self, c):
        C = rules_common()
        hst = Host(opset=c.get("opset", 18))
        nsp = c["nsp"]
        xs = [1, 2] + [5, 4][:nsp]
        dt = "uint8" if c["integer"] else F32
        hst.inp("x", dt, xs, decl_shape=xs if c["shape_known"] else None)
        ins = ["x", hst.const("pads", np.array(c["pads"], dtype=np.int64), "input" if c["pads_dyn"] else "init")]
        if c["cv"] is not None or c["axes"] is not None:
            if c["cv"] is None:
                ins.append("")
            elif c["cv"] == "dyn":
                ins.append(hst.const("cv", np.array(0, dtype=dt), "input"))
            else:
                ins.append(hst.const("cv", np.array(c["cv"], dtype=dt), "init"))
        if c["axes"] is not None:
            ins.append(hst.const("axes", np.array(c["axes"], dtype=np.int64), "init"))
        hst.node("Pad", ins, ["t"], **({} if c["mode"] is None else {"mode": c["mode"]}))
        w = np.arange(1, 1 + 3 * 2 * 2 ** nsp, dtype=dt).reshape([3, 2] + [2] * nsp) % 5
        hst.const("w", w.astype(dt), "init")
        attrs = {"strides": [c["strides"]] * nsp, "dilations": [c["dil"]] * nsp}
        if c["autopad"] is not None:
            attrs["auto_pad"] = c["autopad"]
        if c["cpads"] is not None and c["autopad"] in (None, "NOTSET"):
            attrs["pads"] = c["cpads"]
        if c["integer"]:
            cins = ["t", "w"]
            if c["zp"] == "dyn":
                cins.append(hst.const("zp", np.array(0, dtype="uint8"), "input"))
            elif c["zp"] is not None:
                cins.append(hst.const("zp", np.array(c["zp"], dtype="uint8"), "init"))
            hst.node("ConvInteger", cins, ["y"], **attrs)
            hst.out("y", "int32", None)
            rule = C.fuse_pad_into_conv_integer_rule
        else:
            hst.node("Conv", ["t", "w"], ["y"], **attrs)
            hst.out("y", F32, None)
            rule = C.fuse_pad_into_conv_rule
        if c["extra"]:
            hst.out("t", dt, None)
        return hst, [rule]

    def infer(self, c):
        return False

    def line(self, c):
        cpads = c["cpads"] if (c["cpads"] is not None and c["autopad"] in (None, "NOTSET")) else None
        cv = "-" if c["cv"] is None else "n" if c["cv"] == "dyn" else str(c["cv"])
        return (f"padconv rank={c['nsp'] + 2 if c['shape_known'] else '-'} mode={c['mode'] or '-'} "
                f"pads={'n' if c['pads_dyn'] else ints(c['pads'])} cv={cv} axes={'-' if c['axes'] is None else ints(c['axes'])} "
                f"autopad={c['autopad'] or 'NOTSET'} cpads={'-' if cpads is None else ints(cpads)} zp={'-' if c['zp'] is None else 'n' if c['zp'] == 'dyn' else c['zp']}")

    def observe(self, c, after):
        n = find_node(after, "ConvInteger" if c["integer"] else "Conv")
        return f"fire pads={ints(attr_of(n, 'pads'))}"

    def finding(self, c):
        # D16a (non-zero x_zero_point) is fixed in /repo (470d8b0): the rule refuses; witness in the corpus
        return None


class NormPadFam(Family):
    name = "normpad"
    exact = True
    rule_keys = ("normalize_pad_format_conv_rule", "normalize_pad_format_conv_integer_rule")

    def prefer_for(self, c):
        # onnxruntime CPU refuses auto_pad SAME_* with dilations != 1, and onnx.reference computes SAME pads for such nodes
        # without the dilation when strides > 1 (its own output length is then not ceil(x/s)): no trustworthy oracle for the
        # *original*; the rewritten model (explicit pads) is checked against the SAME definition instead (post_check).
        if c["ap"] in ("SAME_UPPER", "SAME_LOWER") and any(d != 1 for d in c["dil"]):
            return "ort_only"
        return "ort"

    def post_check(self, c, after, feeds):
        """rewritten model must run on onnxruntime and have the SAME output length ceil(x/s) on every spatial axis"""
        from harness.c05_lib import run_ort
        try:
            out = run_ort(after, feeds[:1])[0][0]
        except Exception as e:
            return "rewritten model does not run: " + str(e)[:120]
        want = [1, 3] + self.out_dims(c)
        if list(out.shape) != want:
            return f"rewritten model output shape {list(out.shape)} != SAME definition {want}"
        return None

    def gen(self, rng):
        nsp = rng.choice([1, 1, 2])
        k = [rng.choice([1, 2, 3]) for _ in range(nsp)]
        dil = [rng.choice([1, 1, 1, 2]) for _ in range(nsp)]
        # the input covers the dilated kernel (a valid host)
        return {"fam": "normpad", "integer": rng.random() < 0.25, "nsp": nsp,
                "x": [max(rng.choice([4, 5, 6, 7]), (kk - 1) * dd + 1) for kk, dd in zip(k, dil)],
                "k": k, "s": [rng.choice([1, 1, 2, 3]) for _ in range(nsp)], "dil": dil,
                "opset": rng.choice([13, 18, 18, 19, 21, 23]),
                "ap": rng.choice(["SAME_UPPER", "SAME_LOWER", None] + schema_values("Conv", "auto_pad", 18)),
                "kattr": rng.random() < 0.5, "sattr": rng.random() < 0.7, "out": rng.choice(["spec", "spec", "spec", "none", "sym"]),
                "in_known": rng.random() > 0.07, "pads": None}

    def corpus(self):
        b = {"fam": "normpad", "integer": False, "nsp": 1, "kattr": True, "sattr": True, "out": "spec", "in_known": True, "pads": None}
        return [dict(b, x=[7], k=[3], s=[1], dil=[2], ap="SAME_UPPER"),     # D16c1 witness
                dict(b, x=[7], k=[3], s=[2], dil=[1], ap="SAME_LOWER"),
                dict(b, x=[5], k=[2], s=[1], dil=[1], ap="VALID")]

    def out_dims(self, c):
        ys = []
        for x, k, s, d in zip(c["x"], c["k"], c["s"], c["dil"]):
            if c["ap"] in ("SAME_UPPER", "SAME_LOWER"):
                ys.append(-(-x // s))
            else:
                eff = (k - 1) * d + 1
                ys.append((x - eff) // s + 1 if x >= eff else 0)
        return ys

    def build(self, c):
        C = rules_common()
        hst = Host(opset=c.get("opset", 18))
        dt = "uint8" if c["integer"] else F32
        xs = [1, 2] + c["x"]
        hst.inp("x", dt, xs, decl_shape=xs if c["in_known"] else [1, 2] + ["H", "W"][: c["nsp"]])
        w = (np.arange(1, 1 + 3 * 2 * int(np.prod(c["k"]))) % 4).astype(dt).reshape([3, 2] + c["k"])
        hst.const("w", w, "init")
        attrs = {"dilations": c["dil"]}
        if c["kattr"]:
            attrs["kernel_shape"] = c["k"]
        if c["sattr"] or any(s != 1 for s in c["s"]):
            attrs["strides"] = c["s"]
        if c["ap"] is not None:
            attrs["auto_pad"] = c["ap"]
        hst.node("ConvInteger" if c["integer"] else "Conv", ["x", "w"], ["y"], **attrs)
        ys = self.out_dims(c)
        out = None if c["out"] == "none" else [1, 3] + ys if c["out"] == "spec" else [1, 3] + ["P", "Q"][: c["nsp"]]
        hst.out("y", "int32" if c["integer"] else F32, out)
        return hst, [C.normalize_pad_format_conv_integer_rule if c["integer"] else C.normalize_pad_format_conv_rule]

    def infer(self, c):
        return False

    def line(self, c):
        ys = self.out_dims(c)
        out = None if c["out"] == "none" else [1, 3] + ys if c["out"] == "spec" else [1, 3] + ["P", "Q"][: c["nsp"]]
        xin = [1, 2] + c["x"] if c["in_known"] else [1, 2] + ["H", "W"][: c["nsp"]]
        s = c["s"] if (c["sattr"] or any(v != 1 for v in c["s"])) else [1] * c["nsp"]
        return (f"normpad ap={c['ap'] or '-'} in={shape_tok(xin)} out={shape_tok(out)} k={ints(c['k'])} s={ints(s)} pads=- "
                f"dil={ints(c['dil'])}")

    def observe(self, c, after):
        n = find_node(after, "ConvInteger" if c["integer"] else "Conv")
        p = attr_of(n, "pads")
        return f"fire pads={'-' if p is None else ints(p)}"

    def finding(self, c):
        # D16c1 (dilations ignored) is fixed in /repo (6841282): pads use the dilated extent; witness in the corpus
        return None


class BiasFam(Family):
    name = "bias"
    rule_keys = ("remove_optional_bias_from_conv_rule", "remove_optional_bias_from_conv_transpose_rule",
                 "remove_optional_bias_from_gemm_rule", "remove_optional_bias_from_qlinear_conv_rule")

    def gen(self, rng):
        return {"fam": "bias", "op": rng.choice(["Conv", "ConvTranspose", "Gemm", "QLinearConv"]),
                "vals": rng.choice([[0, 0, 0], [0, 0, 0], [0, 1, 0], [-0.0, 0, 0], [0, 0, 1e-9]]),
                "origin": rng.choice(["init", "init", "cnode", "input"]), "attrs": rng.random() < 0.5}

    def corpus(self):
        return [{"fam": "bias", "op": "Gemm", "vals": [0, 0, 0], "origin": "init", "attrs": True}]

    def build(self, c):
        C = rules_common()
        hst = Host()
        op = c["op"]
        if op == "Gemm":
            hst.inp("x", F32, [2, 4])
            hst.const("w", np.arange(12, dtype=F32).reshape(4, 3) if not c["attrs"] else np.arange(12, dtype=F32).reshape(3, 4), "init")
            hst.const("b", np.array(c["vals"], dtype=F32), c["origin"])
            hst.node("Gemm", ["x", "w", "b"], ["y"], **({"transB": 1, "alpha": 0.5, "beta": 2.0} if c["attrs"] else {}))
            hst.out("y", F32, None)
            return hst, [C.remove_optional_bias_from_gemm_rule]
        if op == "QLinearConv":
            hst.inp("x", "uint8", [1, 2, 5])
            for nm, arr in (("xs", np.array(0.5, F32)), ("xz", np.array(3, np.uint8)), ("w", (np.arange(12) % 5).astype(np.uint8).reshape(3, 2, 2)),
                            ("ws", np.array(0.25, F32)), ("wz", np.array(1, np.uint8)), ("ys", np.array(0.5, F32)), ("yz", np.array(2, np.uint8))):
                hst.const(nm, arr, "init")
            hst.const("b", np.array([int(v) for v in c["vals"]], dtype=np.int32), c["origin"])
            hst.node("QLinearConv", ["x", "xs", "xz", "w", "ws", "wz", "ys", "yz", "b"], ["y"], **({"strides": [2]} if c["attrs"] else {}))
            hst.out("y", "uint8", None)
            return hst, [C.remove_optional_bias_from_qlinear_conv_rule]
        hst.inp("x", F32, [1, 2, 5])
        if op == "Conv":
            hst.const("w", np.arange(12, dtype=F32).reshape(3, 2, 2), "init")
            rule = C.remove_optional_bias_from_conv_rule
        else:
            hst.const("w", np.arange(12, dtype=F32).reshape(2, 3, 2), "init")
            rule = C.remove_optional_bias_from_conv_transpose_rule
        hst.const("b", np.array(c["vals"], dtype=F32), c["origin"])
        hst.node(op, ["x", "w", "b"], ["y"], **({"strides": [2]} if c["attrs"] else {}))
        hst.out("y", F32, None)
        return hst, [rule]

    def line(self, c):
        vals = c["vals"] if c["op"] != "QLinearConv" else [int(v) for v in c["vals"]]
        return f"bias const={int(c['origin'] != 'input')} vals={','.join(frac(float(np.float32(v))) for v in vals)}"

    def observe(self, c, after):
        n = find_node(after, c["op"])
        return "fire" if len(n.input) == (8 if c["op"] == "QLinearConv" else 2) else "fire-but-bias-kept"

    def finding(self, c):
        return None


class BatchNormFam(Family):
    name = "bn"
    exact = False
    rule_keys = ("fuse_batchnorm_into_conv_rule", "fuse_batchnorm_into_conv_transpose_rule", "fuse_batchnorm_into_gemm_rule")

    def gen(self, rng):
        op = rng.choice(["Conv", "ConvTranspose", "Gemm"])
        return {"fam": "bn", "op": op, "bias": rng.random() < 0.6, "group": rng.choice([1, 1, 2]) if op != "Gemm" else 1,
                "transB": op == "Gemm" and rng.random() < 0.4, "alpha": rng.choice([1.0, 1.0, 2.0]), "beta": rng.choice([1.0, 1.0, 1.0, 0.5]),
                "eps": rng.choice([None, 1e-5, 1e-3, 1e-2, 0.5, 0.5]), "train": rng.random() < 0.05, "seed": rng.randint(0, 999),
                "nonconst": rng.choice([None] * 8 + ["w", "gamma", "mean", "var", "b"]), "ginit": rng.random() < 0.06,
                "shared": rng.random() < 0.07, "extra": rng.random() < 0.05}

    def corpus(self):
        b = {"fam": "bn", "bias": True, "group": 1, "transB": False, "alpha": 1.0, "eps": None, "train": False, "seed": 1,
             "nonconst": None, "ginit": False, "shared": False, "extra": False}
        return [dict(b, op="Gemm", beta=0.5), dict(b, op="Gemm", beta=1.0, train=True), dict(b, op="Conv", beta=1.0, group=2)]

    def build(self, c):
        C = rules_common()
        r = np.random.RandomState(c["seed"])
        hst = Host()
        op = c["op"]
        cout = 4
        q = lambda *s: (r.randint(-4, 5, size=s) / 2.0).astype(F32)
        def put(name, arr):
            origin = "init"
            if c["nonconst"] == name:
                origin = "input"
            elif c["ginit"] and name == "gamma":
                origin = "ginit"
            hst.const(name, arr, origin)
            return name
        attrs = {}
        if op == "Gemm":
            hst.inp("x", F32, [2, 3])
            put("w", q(cout, 3) if c["transB"] else q(3, cout))
            if c["transB"]:
                attrs["transB"] = 1
            if c["alpha"] != 1.0:
                attrs["alpha"] = c["alpha"]
            if c["beta"] != 1.0:
                attrs["beta"] = c["beta"]
        elif op == "Conv":
            hst.inp("x", F32, [1, 2 * c["group"], 5])
            put("w", q(cout, 2, 2))
            if c["group"] != 1:
                attrs["group"] = c["group"]
        else:
            hst.inp("x", F32, [1, 2 * c["group"], 5])
            put("w", q(2 * c["group"], cout // c["group"], 2))
            if c["group"] != 1:
                attrs["group"] = c["group"]
        ins = ["x", "w"]
        if c["bias"]:
            ins.append(put("b", q(cout)))
        hst.node(op, ins, ["t"], **attrs)
        put("gamma", q(cout) + 3)
        put("beta", q(cout))
        put("mean", q(cout))
        put("var", (r.randint(1, 9, size=cout) / 4.0).astype(F32))
        bn_attrs = {} if c["eps"] is None else {"epsilon": c["eps"]}
        outs = ["y"]
        if c["train"]:
            bn_attrs["training_mode"] = 1
            outs = ["y", "rm", "rv"]
        hst.node("BatchNormalization", ["t", "gamma", "beta", "mean", "var"], outs, **bn_attrs)
        hst.out("y", F32, None)
        if c["shared"]:
            hst.node("Identity", ["w"], ["w2"])
            hst.out("w2", F32, None)
        if c["extra"]:
            hst.out("t", F32, None)
        rule = {"Conv": C.fuse_batchnorm_into_conv_rule, "ConvTranspose": C.fuse_batchnorm_into_conv_transpose_rule,
                "Gemm": C.fuse_batchnorm_into_gemm_rule}[op]
        return hst, [rule]

    def line(self, c):
        names = ["w", "gamma", "beta", "mean", "var"] + (["b"] if c["bias"] else [])
        flags = []
        for nm in names:
            if c["nonconst"] == nm:
                flags.append("000")
            elif c["ginit"] and nm == "gamma":
                flags.append("111")
            else:
                flags.append("110")
        shared = c["shared"] and c["nonconst"] != "w"
        mod = 0
        return (f"bn flags={';'.join(flags)} shared={int(shared)} mod={mod} beta1={int(not (c['op'] == 'Gemm' and c['beta'] != 1.0))} "
                f"train={int(c['train'])} extra={int(c['extra'])}")

    def observe(self, c, after):
        return "fire"

    def finding(self, c):
        # C05-N6 (training mode / Gemm beta != 1) is fixed in /repo (621808b): the rule refuses; witnesses in the corpus
        return None


class ExpandBinFam(Family):
    name = "expandbin"
    theorem = False
    OPS = ["Add", "And", "BitShift", "BitwiseAnd", "BitwiseOr", "BitwiseXor", "Div", "Equal", "Greater", "GreaterOrEqual", "Less",
           "LessOrEqual", "Mod", "Mul", "Or", "Pow", "PRelu", "Sub", "Xor"]

    def __init__(self):
        self.rule_keys = ("expand_before_binary_op_rules[",)

    def gen(self, rng):
        op = rng.choice(self.OPS)
        r = rng.randint(1, 3)
        e = [rng.choice([1, 2, 3]) for _ in range(r)]
        # x: a shape that broadcasts to e; y: arbitrary shape compatible with e
        def sub(shape, p1):
            s = [1 if rng.random() < p1 else d for d in shape]
            k = rng.randint(0, len(s))
            return s[k:]
        x = sub(e, 0.5)
        y = sub(e, 0.3)
        q = rng.random()
        if q < 0.1:
            e = [1] + e
        symx = rng.random() < 0.1
        return {"fam": "expandbin", "op": op, "second": rng.random() < 0.5, "x": x, "y": y, "e": e, "symx": symx or rng.random() < 0.2,
                "fmod": op == "Mod" and rng.random() < 0.5, "extra": rng.random() < 0.1,
                # strategy 2 (Expand output annotated) / 3 (binary-op output annotated) with a run-time shape operand
                "dyn": rng.choice([0, 0, 0, 2, 3])}

    def corpus(self):
        b = {"fam": "expandbin", "second": False, "symx": False, "fmod": False, "extra": False}
        return [dict(b, op="Add", x=[3], y=[3], e=[1, 3]),          # N3a
                dict(b, op="BitShift", x=[3], y=[3], e=[3]),        # N3b
                dict(b, op="Mod", x=[3], y=[3], e=[3], fmod=True),  # N3b
                dict(b, op="Add", x=[1], y=[3], e=[3]),
                dict(b, op="PRelu", x=[1], y=[3], e=[3], dyn=3, symx=True)]   # N3c

    DT = {"And": "bool", "Or": "bool", "Xor": "bool", "BitShift": "uint8", "BitwiseAnd": "int32", "BitwiseOr": "int32",
          "BitwiseXor": "int32", "Mod": "int32"}

    def build(self, c):
        C = rules_common()
        hst = Host()
        op = c["op"]
        dt = self.DT.get(op, F32)
        if op == "Mod" and c["fmod"]:
            dt = "int32"
        gx = None
        if op in ("Div", "Mod", "Pow"):
            gx = lambda r, s=tuple(c["y" if not c["second"] else "x"]): None
        hst.inp("x", dt, c["x"], decl_shape=self.declx(c))
        ygen = None
        if op in ("Div", "Mod"):
            ygen = lambda r, s=tuple(c["y"]): r.choice(np.array([-3, -2, 2, 3, 5]), size=s).astype(dt)
        if op == "Pow":
            ygen = lambda r, s=tuple(c["y"]): r.choice(np.array([0, 1, 2]), size=s).astype(dt)
        hst.inp("y0", dt, c["y"], gen=ygen)
        dyn = c.get("dyn", 0)
        hst.const("s", np.array(c["e"], dtype=np.int64), "input" if dyn else "init")
        hst.node("Expand", ["x", "s"], ["t"])
        ann = self.annotations(c)
        if ann["eo"] is not None and not c["extra"]:
            hst.annotate("t", dt, ann["eo"])
        self._oshape = ann["bo"]
        self._eo = ann["eo"]
        attrs = {}
        if op == "BitShift":
            attrs["direction"] = "LEFT"
        if op == "Mod" and c["fmod"]:
            attrs["fmod"] = 1
        # the non-expanded operand must not be the divisor for exactness of the test data only
        ins = ["y0", "t"] if c["second"] else ["t", "y0"]
        hst.node(op, ins, ["y"], **attrs)
        odt = "bool" if op in ("Equal", "Greater", "GreaterOrEqual", "Less", "LessOrEqual", "And", "Or", "Xor") else dt
        hst.out("y", odt, self._oshape)
        if c["extra"]:
            hst.out("t", dt, self._eo)       # as a graph output the Expand result carries its annotation there
        return hst, C.expand_before_binary_op_rules

    def infer(self, c):
        return False

    def declx(self, c):
        return (["N"] + c["x"][1:]) if (c["symx"] and c["x"] and c["x"][0] != 1) else c["x"]

    def annotations(self, c):
        """declared (truthful) annotations of the Expand output (strategy 2) / binary-op output (strategy 3); where x's leading
        dim is the symbol N and survives unexpanded, the annotation names it N as shape inference would."""
        dyn = c.get("dyn", 0)
        out = {"eo": None, "bo": None}
        if not dyn:
            return out
        tshape = list(np.broadcast_shapes(tuple(c["x"]), tuple(c["e"])))
        oshape = list(np.broadcast_shapes(tuple(tshape), tuple(c["y"])))
        symbolic = self.declx(c) != c["x"]
        def sym(shape):
            k = len(shape) - len(c["x"])
            if symbolic and k >= 0 and shape[k] == c["x"][0]:
                return shape[:k] + ["N"] + shape[k + 1:]
            return shape
        if dyn == 2:
            out["eo"] = sym(tshape)
        else:
            out["bo"] = sym(oshape)
        return out

    def line(self, c):
        ann = self.annotations(c)
        e = ints(c["e"]) if not c.get("dyn", 0) else "-"
        return (f"expandbin op={c['op']} second={int(c['second'])} x={shape_tok(self.declx(c))} y={shape_tok(c['y'])} e={e} "
                f"eo={shape_tok(ann['eo'])} bo={shape_tok(ann['bo'])}")

    def observe(self, c, after):
        return "fire"

    def finding(self, c):
        # C05-N3b (attributes dropped) is fixed in /repo (8db6c47): the rewritten op keeps them; witnesses in the corpus
        # C05-N3a (Expand target longer than both operands) is fixed in /repo (48b48d2): the rule refuses; witness in the corpus
        # C05-N3c (PRelu, Expand on X) is fixed in /repo (dd5f7df): no such rule any more; witness in the corpus
        return None


class MiscFam(Family):
    """Rules without a Lean model (all in `listedUnproved`): fixed host shapes with small parameter variation;
    judged by the numeric oracle + onnx.checker only."""
    name = "misc"
    theorem = False
    no_model = True
    exact = False
    # the other kinds built below now have their own modelled families in c05_families2.py
    KINDS = ["layernorm", "rotary1", "rotary2", "gqa", "rotaryP", "rotaryPmis"]
    FUSION_KINDS = ("rotary1", "rotary2", "gqa", "rotaryP", "rotaryPmis")

    def prefer_for(self, c):
        return "ref" if c["kind"] in self.FUSION_KINDS else "ort"
    rule_keys_extra = ("fusion._rotary_embedding.", "fusion._gqa.")
    rule_keys = ("cast_constant_of_shape_rule", "cast_constant_of_shape_without_value_rule", "two_reshapes_matmul_reshape_rule",
                 "one_reshape_matmul_reshape_rule", "gemm_to_matmul_add_rule", "slice_split_rule", "fuse_hardswish_rules",
                 "conv_affine_fusion_rule", "affine_conv_fusion_rule", "fusion._layer_norm._layer_norm_rule", "no_op_dynamic_scatter_nd_rule")

    def gen(self, rng):
        k = rng.choice(self.KINDS)
        return {"fam": "misc", "kind": k, "v": rng.randint(0, 5), "near": rng.random() < 0.3}

    def corpus(self):
        return [{"fam": "misc", "kind": k, "v": v, "near": False} for k in self.KINDS for v in (0, 1)]

    def build(self, c):
        import onnx
        C = rules_common()
        k, v, near = c["kind"], c["v"], c["near"]
        if k in self.FUSION_KINDS:
            return self.build_fusion_host(k)
        hst = Host()
        i64 = np.int64
        if k in ("ccos", "ccos_nv"):
            hst.inp("s", "int64", [2], gen=lambda r: np.array([2, 1 + v % 3], dtype=i64))
            to = [TP.INT64, TP.FLOAT, TP.INT32, TP.DOUBLE, TP.FLOAT16, TP.INT64][v]
            if k == "ccos":
                val = [np.array([1.0], np.float32), np.array([3], np.int64), np.array([2.5], np.float32), np.array([7], np.int32),
                       np.array([0.1], np.float32), np.array([-4.0], np.float32)][v]
                hst.node("ConstantOfShape", ["s"], ["t"], value=onnx.numpy_helper.from_array(val, "v"))
            else:
                hst.node("ConstantOfShape", ["s"], ["t"])
            hst.node("Cast", ["t"], ["y"], to=to)
            hst.outputs.append(onnx.helper.make_tensor_value_info("y", to, None))
            return hst, [C.cast_constant_of_shape_rule, C.cast_constant_of_shape_without_value_rule]
        if k in ("mm2", "mm1"):
            a_shape, b_shape = [[2, 3, 4], [4, 5]] if v % 2 == 0 else [[3, 4], [1, 4, 2]]
            hst.inp("a", F32, a_shape)
            hst.inp("b", F32, b_shape)
            sa = [int(np.prod(a_shape[:-1])), a_shape[-1]] if v % 2 == 0 else a_shape
            hst.const("sa", np.array(sa, dtype=i64), "init")
            hst.node("Reshape", ["a", "sa"], ["ra"])
            rb = "b"
            if k == "mm2":
                hst.const("sb", np.array(b_shape if v % 2 == 0 else [4, 2], dtype=i64), "init")
                rb = hst.node("Reshape", ["b", "sb"], ["rb"])
            hst.node("MatMul", ["ra", rb], ["m"])
            out = list(np.broadcast_shapes(tuple(a_shape[:-2]), tuple(b_shape[:-2]))) + [a_shape[-2], b_shape[-1]]
            if near:
                out = list(reversed(out)) if len(set(out)) > 1 else out + [1]
            hst.const("sc", np.array(out, dtype=i64), "init")
            hst.node("Reshape", ["m", "sc"], ["y"])
            hst.out("y", F32, None)
            return hst, [C.two_reshapes_matmul_reshape_rule, C.one_reshape_matmul_reshape_rule]
        if k == "gemm2mm":
            hst.inp("a", F32, [2, 3])
            hst.inp("b", F32, [3, 3])
            hst.inp("c", F32, [3])
            hst.const("sa", np.array([2, 3], dtype=i64), "init")
            hst.const("sc", np.array([2, 3], dtype=i64), "init")
            hst.node("Reshape", ["a", "sa"], ["ra"])
            attrs = {"alpha": 1.0, "beta": 1.0}
            if v % 2 == 1:
                attrs["transB"] = 1
            if near:
                attrs["alpha"] = 2.0
            hst.node("Gemm", ["ra", "b", "c"], ["g"], **attrs)
            hst.node("Reshape", ["g", "sc"], ["y"])
            hst.out("y", F32, None)
            return hst, [C.gemm_to_matmul_add_rule]
        if k == "slice_split":
            d = 4 + v
            hst.inp("x", F32, [2, d])
            for nm, val in (("b0", 0), ("e0", d // 2), ("b1", d // 2), ("e1", d), ("ax", 1)):
                hst.const(nm, np.array([val], dtype=i64), "init")
            hst.node("Slice", ["x", "b0", "e0", "ax"], ["y0"])
            hst.node("Slice", ["x", "b1", "e1", "ax"], ["y1"])
            hst.out("y0", F32, None)
            hst.out("y1", F32, None)
            return hst, [C.slice_split_rule]
        if k in ("hardswish", "hardsigmoid"):
            hst.inp("x", F32, [2, 3])
            bias = 3.5 if near else 3.0
            for nm, val in (("bias", bias), ("lo", 0.0), ("hi", 6.0), ("six", 6.0)):
                hst.const(nm, np.array(val, dtype=F32), "init" if v % 2 == 0 else "cnode")
            hst.node("Add", ["x", "bias"], ["t1"])
            hst.node("Clip", ["t1", "lo", "hi"], ["t2"])
            if k == "hardswish":
                hst.node("Mul", ["t2", "x"] if v % 3 else ["x", "t2"], ["t3"])
                hst.node("Div", ["t3", "six"], ["y"])
            else:
                hst.node("Div", ["t2", "six"], ["y"])
            hst.out("y", F32, None)
            return hst, C.fuse_hardswish_rules()
        if k in ("conv_affine", "affine_conv"):
            r = np.random.RandomState(v)
            hst.inp("x", F32, [1, 2, 4, 4])
            hst.const("w", (r.randint(-3, 4, size=(3, 2, 1, 1)) / 2).astype(F32), "init")
            hst.const("b", (r.randint(-3, 4, size=(3,)) / 2).astype(F32), "init")
            hst.const("sc", np.array(2.0 if not near else [2.0, 3.0, 1.0, 1.0], dtype=F32), "init")
            hst.const("of", np.array(0.5, dtype=F32), "init")
            if k == "conv_affine":
                hst.node("Conv", ["x", "w", "b"], ["t"])
                hst.node("Mul", ["t", "sc"], ["t2"])
                hst.node("Add", ["t2", "of"], ["y"])
            else:
                hst.node("Mul", ["x", "sc"], ["t"])
                hst.node("Add", ["t", "of"], ["t2"])
                hst.node("Conv", ["t2", "w", "b"], ["y"], pads=[0, 0, 0, 0])
            hst.out("y", F32, None)
            return hst, [C.conv_affine_fusion_rule, C.affine_conv_fusion_rule]
        if k == "layernorm":
            from onnxscript.rewriter.rules.fusion import _layer_norm
            hst.inp("x", F32, [2, 4])
            hst.const("scale", np.array([1.0, 2.0, 0.5, 1.5], dtype=F32), "init")
            hst.const("eps", np.array(1e-5 if not near else [1e-5, 1e-5, 1e-5, 1e-5], dtype=F32), "init")
            hst.const("ax", np.array([-1], dtype=i64), "init")
            hst.node("ReduceMean", ["x", "ax"], ["mean"], keepdims=1)
            hst.node("Sub", ["x", "mean"], ["d"])
            hst.node("Mul", ["d", "d"], ["dd"])
            hst.node("ReduceMean", ["dd", "ax"], ["var"], keepdims=1)
            hst.node("Add", ["var", "eps"], ["ve"])
            hst.node("Sqrt", ["ve"], ["sd"])
            if v % 2:
                hst.node("Div", ["d", "sd"], ["n"])
            else:
                hst.node("Reciprocal", ["sd"], ["inv"])
                hst.node("Mul", ["d", "inv"], ["n"])
            hst.node("Mul", ["n", "scale"], ["y"])
            hst.out("y", F32, None)
            return hst, _layer_norm.layer_normalization_ruleset
        # dynscatter: x[:, ...] = y translated through Range indices
        hst.inp("d", F32, [3, 2])
        hst.inp("u", F32, [3, 2])
        hst.node("Shape", ["d"], ["shp"], start=0)
        hst.const("axis", np.array(0 if not near else 1, dtype=i64), "init")
        hst.node("Gather", ["shp", "axis"], ["dim"], axis=0)
        hst.const("zero", np.array(0, dtype=i64), "init")
        hst.const("one", np.array(1, dtype=i64), "init")
        hst.node("Range", ["zero", "dim", "one"], ["rng"])
        hst.const("m1", np.array([-1], dtype=i64), "init")
        hst.node("Unsqueeze", ["rng", "m1"], ["idx"])
        hst.node("ScatterND", ["d", "idx", "u"], ["y"], reduction="none")
        hst.out("y", F32, None)
        return hst, [C.no_op_dynamic_scatter_nd_rule]

    def build_fusion_host(self, k):
        """hosts taken from /repo's own model zoo / unit test (after `optimize`, as the fusions expect), opset 23"""
        import onnx_ir as ir
        import onnxscript

        class ProtoHost:
            def __init__(self, proto, feed_fn):
                self.proto, self.feed_fn = proto, feed_fn
            def model(self, infer=True):
                return self.proto
            def make_feeds(self, r):
                return self.feed_fn(r)

        if k == "gqa":
            from onnxscript.rewriter.rules.fusion import _gqa, _gqa_test
            m = ir.serde.deserialize_model(_gqa_test._gqa_script.to_model_proto())
            onnxscript.optimizer.optimize(m)
            proto = ir.serde.serialize_model(m)
            def feeds(r, proto=proto):
                return {i.name: r.rand(*[d.dim_value for d in i.type.tensor_type.shape.dim]).astype(np.float32) for i in proto.graph.input}
            return ProtoHost(proto, feeds), _gqa.gqa_rules
        from onnxscript.rewriter.models import _rotary_embedding_models as RM
        from onnxscript.rewriter.rules.fusion import _rotary_embedding as RE
        if k in ("rotaryP", "rotaryPmis"):
            # partial rotary embedding: the repo's script (matching / mismatched slice boundaries), optimized, base rotary
            # fusion applied first (as `fuse_partial_rotary_embedding` expects); the rule under test is the partial one
            fn = RM._make_partial_rotary_script(mismatched=(k == "rotaryPmis"))
            mp = fn.to_model_proto(input_types=(onnxscript.INT64["Batchsize", "Sequence"], onnxscript.FLOAT["Batchsize", 32, "Sequence", 80]),
                                   output_types=(onnxscript.FLOAT["Batchsize", 32, "Sequence", 80],))
            m = ir.serde.deserialize_model(mp)
            m.graph.opset_imports[""] = 23
            onnxscript.optimizer.optimize(m)
            RE.fuse_rotary_embedding(m)
            proto = ir.serde.serialize_model(m)
            def feeds(r):
                return {"query": r.rand(1, 32, 8, 80).astype(np.float32), "position_ids": np.arange(8, dtype=np.int64).reshape(1, 8)}
            return ProtoHost(proto, feeds), RE.partial_embedding_rules
        t = (RM.test_case_1 if k == "rotary1" else RM.test_case_2)()
        m = t.get_onnx_model()
        m.graph.opset_imports[""] = 23
        onnxscript.optimizer.optimize(m)
        proto = ir.serde.serialize_model(m)
        base = t.get_ort_inputs()
        def feeds(r, base=base):
            out = {}
            for kk, vv in base.items():
                out[kk] = vv if vv.dtype.kind in "iu" else r.rand(*vv.shape).astype(vv.dtype)
            return out
        return ProtoHost(proto, feeds), RE.rotary_embedding_rules

    def line(self, c):
        return f"misc kind={c['kind']} v={c['v']} near={int(c['near'])}"

    def observe(self, c, after):
        return "fire"

    def finding(self, c):
        if c["kind"] == "gemm2mm" and c["v"] % 2 == 1 and not c["near"]:
            return "C05-N5"
        return None


def all_families():
    return [ClipFam("clipclip"), ClipFam("cliprelu"), ClipFam("reluclip"), ClipFam("relurelu"), MinMaxFam(), UnitFam(), DropoutFam(),
            CastFam(), PermFam(), AxesFam(), ReshapeFam(), SliceFam(), ScatterFam(), GemmFam(), PadFam(), NormPadFam(), BiasFam(),
            BatchNormFam(), ExpandBinFam(), MiscFam()]
