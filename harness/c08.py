"""C08 — torch_lib operator implementations agree with PyTorch eager.

Proof obligations: lean/OV/Props/C08.lean (models: lean/OV/Model/C08*.lean).
Ties (both re-established on every run against /repo's working tree):
  (i)  translator  harness/extract_torchlib.py: traces every covered function on a fixed grid of
       rank/argument classes, writes OV/Gen/C08Trace.lean; `traces_match_models` (decide +kernel)
       ties the models' dataflow terms to what the code emits now;
  (ii) correspondence, four voices per generated case: real torch_lib function traced with the
       exporter's OpRecorder and run on onnxruntime | Lean model | Lean spec | PyTorch eager.
         term(model) = term(real trace)            -- same trace-time branch, same constants
         model = onnxruntime   (inside the spec's domain)
         spec  = PyTorch eager (including refusals)
         onnxruntime ~ PyTorch eager: structure, dtype, shape, values   -- the property itself
Floating-point kernels are outside the theorems (DESIGN.md section 5, C08): the `float` stream
below is differential search only and is reported as such in the evidence.
"""
from __future__ import annotations

import json
import time
from collections import Counter, defaultdict

import numpy as np

from harness import core

PROP_MODULES = ["OV.Props.C08"]


# --------------------------------------------------------------------------- running one case


def res_of_outputs(outs, outkind) -> str:
    """Canonical shape result of real outputs (numpy arrays / torch tensors)."""
    def one(a):
        return ",".join(str(int(d)) for d in a.shape) if len(a.shape) else "-"
    if outkind == "single":
        return one(outs[0])
    return "L[" + ";".join(one(a) for a in outs) + "]"


def run_real(L, F, case):
    """Trace the real function and run it on onnxruntime.
    Returns dict(term, res, outs, err)."""
    fn = L.find_fn(F["fnname"])
    args, kwargs = F["call"](case)
    try:
        model, feeds, outs, structure = L.trace(fn, args, kwargs)
    except Exception as e:  # trace-time Python exception (assert, IndexError, …)
        return dict(term="TRACE-ERR", res="ERR", outs=None, err=f"trace:{type(e).__name__}:{str(e)[:80]}")
    term = " || ".join(L.render_outputs(model, outs))
    if not outs:
        return dict(term=term, res="L[]", outs=[], err=None)
    try:
        r = L.run_ort(model, feeds)
    except Exception as e:
        return dict(term=term, res="ERR", outs=None, err="ort:" + str(e)[:160].replace("\n", " "))
    if F["outkind"] == "seq":
        r = list(r[0])
    return dict(term=term, res=res_of_outputs(r, F["outkind"]), outs=r, err=None)


def run_torch(L, F, case):
    t = L._mods()["torch"]
    try:
        o = F["torch"](case, t)
    except Exception as e:
        return dict(res="ERR", outs=None, err=f"{type(e).__name__}:{str(e)[:100]}")
    if isinstance(o, (tuple, list)):
        outs = [x.detach().cpu().numpy() if x.dtype != t.bfloat16 else x for x in o]
    else:
        outs = [o.detach().cpu().numpy()]
    return dict(res=res_of_outputs(outs, F["outkind"]), outs=outs, err=None)


def values_agree(a, b) -> str | None:
    """None if equal (ints exact, floats by dtype tolerance), else a description."""
    if len(a) != len(b):
        return f"structure: {len(a)} outputs vs {len(b)}"
    for i, (x, y) in enumerate(zip(a, b)):
        x = np.asarray(x)
        y = np.asarray(y)
        if x.dtype != y.dtype:
            return f"dtype[{i}]: onnx {x.dtype} vs torch {y.dtype}"
        if x.shape != y.shape:
            return f"shape[{i}]: onnx {list(x.shape)} vs torch {list(y.shape)}"
        if x.dtype.kind in "iub":
            if not np.array_equal(x, y):
                return f"values[{i}]: onnx {x.reshape(-1)[:8].tolist()} vs torch {y.reshape(-1)[:8].tolist()}"
        else:
            tol = {np.dtype("float16"): (1e-2, 1e-2), np.dtype("float32"): (1e-4, 1e-5)}.get(x.dtype, (1e-7, 1e-9))
            if not np.allclose(x.astype(np.float64), y.astype(np.float64), rtol=tol[0], atol=tol[1], equal_nan=True):
                return f"values[{i}]: onnx {x.reshape(-1)[:8].tolist()} vs torch {y.reshape(-1)[:8].tolist()}"
    return None


# --------------------------------------------------------------------------- known findings


def load_predicates():
    from harness import c08_findings
    return c08_findings.PREDICATES


def classify(preds, name, case, detail):
    for fid, fn in preds.items():
        try:
            if fn(name, case, detail):
                return fid
        except Exception:
            continue
    return None


# --------------------------------------------------------------------------- shape stream


def check_shape_cases(L, drv, FAM, items, stats, preds):
    from harness import c08_cases as _cc
    c08_cases_BRANCHES = _cc.BRANCHES
    """items: list of (name, case).  Returns problems [(kind, name, case, detail)],
    kind in {tie-term, tie-model, tie-spec, property}."""
    lines = [FAM[n]["line"](c) for n, c in items]
    outs = drv.ask(lines)
    problems = []
    for (name, case), line, o in zip(items, lines, outs):
        F = FAM[name]
        parts = o.split(" @ ")
        if len(parts) != 3:
            raise core.Infra(f"driver answered {o!r} to {line!r}")
        m_term, m_res, s_res = parts
        real = run_real(L, F, case)
        tor = run_torch(L, F, case)
        stats["cases"] += 1
        stats[f"fn:{name}"] += 1
        stats["dtype:" + case.get("dtype", "-")] += 1
        rank = len(case["shape"]) if "shape" in case else len(case["shapes"][0])
        stats[f"rank:{rank}"] += 1
        if "shape" in case and 0 in case["shape"]:
            stats["has_zero_dim"] += 1
        if F["branch"]:
            stats[f"branch:{name}:{F['branch'](case)}"] += 1
        for bf in c08_cases_BRANCHES.get(name, []):
            try:
                b = bf(case)
            except Exception:
                b = None
            if b:
                stats[f"br:{name}:{b}"] += 1
        for key in ("dim", "a", "b", "d1", "d2"):
            if key in case and isinstance(case[key], int) and name not in ("add", "sub"):
                r_ = rank + (1 if name in ("unsqueeze", "stack") else 0)
                v = case[key]
                cls = "rank0" if r_ == 0 else "neg" if -r_ <= v < 0 else "nonneg" if 0 <= v < r_ else "out_of_range"
                stats[f"dimclass:{name}:{cls}"] += 1
                stats[f"dimclass:*:{cls}"] += 1
        for key in ("dims",):
            if key in case and case[key]:
                stats[f"dimclass:{name}:list_with_neg" if any(v < 0 for v in case[key]) else f"dimclass:{name}:list_nonneg"] += 1
        in_domain = s_res != "ERR"
        stats["in_domain" if in_domain else "out_of_domain"] += 1
        if real["res"] == "ERR":
            stats["impl_err"] += 1
        # (1) the trace-time branch and constants
        if in_domain and real["term"] != "TRACE-ERR" and m_term != "-" and real["term"] != m_term:
            problems.append(("tie-term", name, case, f"real term {real['term']} ; model term {m_term}"))
        # (3) spec = PyTorch
        if s_res != tor["res"]:
            problems.append(("tie-spec", name, case, f"torch {tor['res']} ({tor['err']}) ; spec {s_res}"))
        # (4) the property, on PyTorch's domain
        prop_fail = None
        if tor["res"] != "ERR":
            if real["res"] == "ERR":
                prop_fail = f"torch returns {tor['res']} ; traced graph fails: {real['err']}"
            else:
                prop_fail = values_agree(real["outs"], tor["outs"])
        if prop_fail:
            problems.append(("property", name, case, prop_fail))
        # (2) model = implementation, on the spec's domain
        if in_domain and m_res != real["res"]:
            problems.append(("tie-model", name, case, f"onnxruntime {real['res']} ({real['err']}) ; model {m_res}"
                             + ("" if not prop_fail else " [property also fails]")))
        if not prop_fail and in_domain and m_res != s_res:
            # model and spec differ although the real results agree: one of them is wrong
            problems.append(("tie-model", name, case, f"model {m_res} ≠ spec {s_res} but onnxruntime = torch = {tor['res']}"))
    return problems


def main(run: core.Run) -> None:
    from harness import c08_cases, c08_lib as L
    from harness import c08_values

    run.assumptions += [
        "A-op: every ONNX operator is the function its specification describes; shape/index semantics of "
        "Reshape/Slice/Split/Squeeze/… are transcribed in OV.Model.C08Onnx and compared with onnxruntime CPU on every case",
        "PyTorch's semantics (`spec`) are transcribed from the operator documentation / ATen and compared with "
        "torch eager on every case, refusals included",
        "floating-point kernels (unary/binary math, softmax, norms, conv, pool, matmul, fft, linalg, special) are "
        "outside every theorem: only differential search (onnxruntime vs torch eager) covers them",
        "reductions: only the output shape is modelled; the reduced value is A-op",
    ]
    t0 = time.time()
    L._mods()
    run.coverage["import_s"] = round(time.time() - t0, 1)

    # ---- (i) translator: trace table -> OV/Gen/C08Trace.lean (before the build)
    from harness import extract_torchlib
    table_info = extract_torchlib.regenerate()
    run.coverage["trace_table"] = table_info

    audit = run.prove(PROP_MODULES)
    drv = core.Driver("C08")
    FAM = c08_cases.FAMILIES
    preds = load_predicates()
    stats: Counter = Counter()
    problems = []

    if run.replay_path:
        body = json.loads(open(run.replay_path).read())
        cs = body.get("case", {})
        if "name" in cs and "case" in cs and cs["name"] in FAM:
            problems = check_shape_cases(L, drv, FAM, [(cs["name"], cs["case"])], stats, preds)
        elif "name" in cs and "case" in cs:
            problems = c08_values.replay(L, drv, cs["name"], cs["case"], stats)
        for kind, name, case, detail in problems:
            print(f"REPLAY {kind} {name}: {case} :: {detail}")
        if problems:
            run.violation(cs, "replayed case still fails: " + problems[0][3])
        run.coverage.update(evaluations=stats["cases"], distinct_nontrivial=stats["cases"])
        return

    # ---- corpus (witnesses of known findings + past disagreements) first
    corpus_path = core.VERIF / "harness" / "corpus_c08.jsonl"
    corpus = [json.loads(l) for l in corpus_path.read_text().splitlines() if l.strip()] if corpus_path.exists() else []
    items = [(c["name"], c["case"]) for c in corpus if c["name"] in FAM]
    stats["corpus"] = len(items)

    names = sorted(FAM)
    drift = core.fingerprint_drift("C08", "onnxscript/function_libs/torch_lib/ops/core.py",
                                   sorted({FAM[n]["fnname"] for n in names}))
    run.coverage["fingerprint_drift"] = drift
    per_fn = run.size(56, 300)
    WEIGHT = {"flatten": 4, "roll": 2, "cat": 2, "unflatten": 2, "argmax": 2, "argmin": 2, "all_dim": 2, "any_dim": 2}
    drifted = {n for n in names if FAM[n]["fnname"] in drift}
    for n in names:
        k = per_fn * WEIGHT.get(n, 1) * (4 if (n in drifted and run.tier == "quick") else 1)
        for _ in range(k):
            items.append((n, FAM[n]["gen"](run.rng)))
    # directed generation: every required branch of the modelled code gets at least one case per run
    def keys_of(n, c):
        out = []
        for bf in c08_cases.BRANCHES.get(n, []):
            try:
                b = bf(c)
            except Exception:
                b = None
            if b:
                out.append(f"{n}:{b}")
        return out
    hit = set(k for n, c in items for k in keys_of(n, c))
    directed = 0
    for key in c08_cases.REQUIRED:
        if key in hit:
            continue
        fn_name = key.split(":", 1)[0]
        for _ in range(4000):
            c = FAM[fn_name]["gen"](run.rng)
            ks = keys_of(fn_name, c)
            if key in ks:
                items.append((fn_name, c))
                hit.update(ks)
                directed += 1
                break
    stats["directed_cases"] = directed
    seen = set()
    uniq = []
    for n, c in items:
        key = n + "|" + FAM[n]["line"](c) + "|" + str(c.get("dtype")) + "|" + str(c.get("tensor_args", ""))
        if key not in seen:
            seen.add(key)
            uniq.append((n, c))
    for k in range(0, len(uniq), 400):
        problems += check_shape_cases(L, drv, FAM, uniq[k:k + 400], stats, preds)
    stats["shape_stream_s"] = int(time.time() - t0)

    # ---- value / index level streams (integer arithmetic, creation, 1-D index maps)
    vproblems = c08_values.run_all(L, drv, run, stats)
    problems += vproblems
    stats["value_stream_s"] = int(time.time() - t0)

    # ---- differential search only: float kernels and scalar promotion (no theorem)
    fproblems = c08_values.float_search(L, run, stats)
    problems += fproblems

    # ---- end-to-end exporter half
    exp = c08_values.exporter_half(L, run, stats)
    run.coverage["exporter_half"] = exp["status"]
    problems += exp["problems"]
    stats["total_s"] = int(time.time() - t0)

    # ---- verdict
    findings = {f["id"]: f for f in run.open_findings()}
    known_counts: Counter = Counter()
    prop_failures, ties = [], []
    failing_keys = set()
    for kind, name, case, detail in problems:
        if kind == "property":
            fid = classify(preds, name, case, detail)
            failing_keys.add((name, json.dumps(case, sort_keys=True, default=str)))
            if fid and fid in findings:
                known_counts[fid] += 1
                if known_counts[fid] == 1:
                    run.known(fid, f"{name} {case}: {detail}"[:400])
            else:
                prop_failures.append((name, case, detail))
    for kind, name, case, detail in problems:
        if kind != "property":
            key = (name, json.dumps(case, sort_keys=True, default=str))
            fid = classify(preds, name, case, detail)
            if kind == "tie-model" and key in failing_keys and fid and fid in findings:
                continue   # inside a known finding the model restates the defect; nothing more to say
            ties.append((kind, name, case, detail, key in failing_keys))
    for fid, n in known_counts.items():
        stats[f"known:{fid}"] = n

    def size_of(c):
        return len(json.dumps(c, default=str))

    if prop_failures:
        prop_failures.sort(key=lambda p: size_of(p[1]))
        by_fn = defaultdict(list)
        for p in prop_failures:
            by_fn[p[0]].append(p)
        for name, ps in sorted(by_fn.items())[:6]:
            n, c, d = ps[0]
            run.violation({"name": n, "case": c, "detail": d, "others_same_function": len(ps) - 1},
                          f"torch_lib {n} disagrees with PyTorch eager on {c}: {d}")
    if ties:
        # a broken tie whose case also fails the property was reported above with its input
        rest = [t for t in ties if not t[4]] or ([] if prop_failures else ties)
        if rest:
            rest.sort(key=lambda p: size_of(p[2]))
            kind, name, case, detail, _ = rest[0]
            what = {"tie-term": "traced dataflow term differs from the model's (trace-time branch / constants changed)",
                    "tie-model": "Lean model of the emitted graph differs from onnxruntime",
                    "tie-spec": "Lean transcription of PyTorch's semantics differs from torch eager"}[kind]
            run.violation({"name": name, "case": case, "detail": detail, "broken": kind, "others": len(rest) - 1},
                          f"correspondence broken for {name} ({what}): {detail}; no input found on which the "
                          "traced graph differs from PyTorch eager", no_input=True)
    if not audit["ok"]:
        # the table theorem (or a proof) no longer checks: look for a failing input among what was run
        run.violation({"broken": "proof obligations of OV.Props.C08", "problems": audit["problems"],
                       "log": audit["build_log"][-1500:], "trace_table": table_info},
                      "Lean proof obligations for C08 do not check: " + "; ".join(audit["problems"][:3]),
                      no_input=not prop_failures)

    fam_count = Counter(FAM[n]["family"] for n in names)
    run.coverage.update(
        evaluations=stats["cases"] + stats["value_cases"] + stats["float_cases"],
        distinct_nontrivial=len(seen) + stats["value_cases"],
        rule="distinct (function, shapes, arguments, dtype) tuples; each is traced through the real torch_lib function, "
             "run on onnxruntime, run on PyTorch eager and evaluated by the Lean model and spec",
        traces_validated_against_impl=stats["cases"] + stats["value_cases"],
        distribution=dict(stats),
        covered_functions=len(names) + c08_values.N_VALUE_FUNCTIONS,
        covered_overloads=sorted({o for n in names for o in FAM[n]["overloads"]} | set(c08_values.VALUE_OVERLOADS)),
        families={k: v for k, v in fam_count.items()},
        proved_vs_searched=c08_values.PROVED_VS_SEARCHED,
        exhaustive=False,
        explanation="covered overloads are enumerated completely (each gets per_fn generated cases + its trace-table rows); "
                    "arguments are seeded random per family strategy",
    )
    for n, c in uniq[:3] + uniq[len(uniq) // 2: len(uniq) // 2 + 3]:
        run.sample({"name": n, "line": FAM[n]["line"](c), "dtype": c.get("dtype")})
    missing = [k for k in c08_cases.REQUIRED if stats["br:" + k] == 0]
    run.coverage["required_branches"] = {"required": len(c08_cases.REQUIRED), "missing": missing}
    if missing and not run.violations:
        raise core.Infra("generator degenerated: required branches of the modelled code never hit: " + ", ".join(missing[:8]))
    if run.tier == "quick" or True:
        for br in ("identity", "Flatten(axis=1)", "Flatten(axis=end+1)", "reshape"):
            if stats[f"branch:flatten:{br}"] < 12:
                raise core.Infra(f"generator degenerated: aten_flatten branch {br} hit {stats[f'branch:flatten:{br}']} times")
    if stats["cases"] and stats["out_of_domain"] > 0.4 * stats["cases"]:
        raise core.Infra("generator degenerated: >40% of cases outside PyTorch's domain")
