"""C15: drive every dual-entry API of /repo on both entry forms and observe the plumbing.

For an API `f`, a model proto `M` and options `o`, `observe(f, M, o)` returns

  P        the model the proto entry produced (returned proto, or the mutated argument)
  Q        ser(the model the IR entry produced on de(copy of M))
  NM       ser(de(M))                       (the serde normaliser applied to the input)
  proto    {"arg_mutated": bool, "ret": "arg"|"fresh"|"none"|"aux"}   for the proto entry
  ir       the same for the IR entry (mutation = ser(arg) changed)

The proto-entry and the IR-entry are the *real functions of /repo*; ser/de are the real onnx_ir serde.
"""
from __future__ import annotations

import copy

import onnx

from harness import c15_gen

APIS = [
    "optimize", "fold_constants", "remove_unused_nodes", "remove_unused_functions", "rewrite_default",
    "rewrite_empty", "rewrite_rules", "convert_version", "replace_functions", "replace_functions_keep",
]


def _mods():
    import onnxscript.optimizer as opt
    import onnxscript.rewriter as rw
    import onnxscript.version_converter as vc
    from onnxscript import ir
    from onnxscript.utils import replace as rep

    return opt, rw, vc, ir, rep


# explicit limits around the element counts the generator produces (4-element constants, 2x3 / 100x100 / 600x600
# Expand results) and around the defaults (8192 / 512*512), so that a limit given to one parameter but used for the
# other, or dropped in favour of the default, changes what is folded
IN_LIMITS = [0, 2, 3, 4, 5, 100, 8192, 9999, 10001, 400000]
OUT_LIMITS = [0, 3, 5, 6, 7, 100, 8192, 9999, 10000, 10001, 512 * 512, 400000]


def gen_options(rng, api: str, model_opset: int) -> dict:
    if api == "optimize":
        o = {}
        if rng.random() < 0.5:
            o["num_iterations"] = rng.choice([0, 1, 2, 3])
        if rng.random() < 0.5:
            o["onnx_shape_inference"] = rng.random() < 0.5
        if rng.random() < 0.4:
            o["stop_if_no_change"] = rng.random() < 0.5
        if rng.random() < 0.45:
            o["input_size_limit"] = rng.choice(IN_LIMITS)
        if rng.random() < 0.45:
            o["output_size_limit"] = rng.choice(OUT_LIMITS)
        if rng.random() < 0.5:
            o["inline"] = rng.random() < 0.5
        return o
    if api == "fold_constants":
        o = {}
        if rng.random() < 0.5:
            o["onnx_shape_inference"] = rng.random() < 0.5
        if rng.random() < 0.45:
            o["input_size_limit"] = rng.choice(IN_LIMITS)
        if rng.random() < 0.45:
            o["output_size_limit"] = rng.choice(OUT_LIMITS)
        return o
    if api == "rewrite_rules":
        return {"rules": rng.choice(["cast_cast", "noop", "ruleset"])}
    if api == "convert_version":
        targets = [v for v in (17, 18, 19, 20, 21, 22, 23)]
        if rng.random() < 0.3:
            # the onnx C-API fallback: a step the native converter does not support (down-conversion, or source < 18)
            t = rng.choice([19, 20]) if model_opset < 18 else max(18, model_opset - rng.choice([1, 1, 2]))
            return {"target_version": t, "fallback": True}
        o = {"target_version": rng.choice(targets + [model_opset])}
        r = rng.random()
        if r < 0.3:
            o["fallback"] = True
        elif r < 0.5:
            o["fallback"] = False
        return o
    return {}


def _rules(rw, name: str):
    from onnxscript.rewriter.rules.common import _basic_rules, _no_op

    if name == "cast_cast":
        return [_basic_rules.cast_cast_rule]
    if name == "noop":
        return list(_no_op.rules)
    return rw.RewriteRuleSet([_basic_rules.cast_cast_rule, *_no_op.rules])


def _bytes(p) -> bytes:
    return p.SerializeToString(deterministic=True)


def split_functions(M: onnx.ModelProto):
    """For replace_functions: the model without model-local functions + the functions as a list."""
    fns = [copy.deepcopy(f) for f in M.functions]
    M2 = copy.deepcopy(M)
    del M2.functions[:]
    return M2, fns


def call_proto(api: str, M: onnx.ModelProto, o: dict, fns=None):
    """Run the proto entry on M (mutable!).  Returns (ret_kind, returned_proto_or_None)."""
    opt, rw, vc, ir, rep = _mods()
    if api == "optimize":
        r = opt.optimize(M, **o)
    elif api == "fold_constants":
        r = opt.fold_constants(M, **o)
        return ("aux" if isinstance(r, ir.passes.PassResult) else type(r).__name__), None
    elif api == "remove_unused_nodes":
        r = opt.remove_unused_nodes(M)
    elif api == "remove_unused_functions":
        r = opt.remove_unused_functions(M)
    elif api == "rewrite_default":
        r = rw.rewrite(M)
    elif api == "rewrite_empty":
        r = rw.rewrite(M, [])
    elif api == "rewrite_rules":
        r = rw.rewrite(M, _rules(rw, o["rules"]))
    elif api == "convert_version":
        r = vc.convert_version(M, **o)
    elif api in ("replace_functions", "replace_functions_keep"):
        r = rep.replace_functions(M, fns)
    else:
        raise ValueError(api)
    if r is None:
        return "none", None
    if r is M:
        return "arg", M
    if isinstance(r, onnx.ModelProto):
        return "fresh", r
    return type(r).__name__, None


LAST: dict = {}  # side channel: what the last IR-entry fold_constants reported


def call_ir(api: str, m, o: dict, fns=None):
    """Run the IR entry on the ir.Model m.  Returns (ret_kind, returned_model_or_None)."""
    opt, rw, vc, ir, rep = _mods()
    if api == "optimize":
        r = opt.optimize(m, **o)
    elif api == "fold_constants":
        r = opt.fold_constants(m, **o)
        LAST["fold_modified"] = bool(getattr(r, "modified", True))
        return ("aux" if isinstance(r, ir.passes.PassResult) else type(r).__name__), None
    elif api == "remove_unused_nodes":
        r = opt.remove_unused_nodes(m)
    elif api == "remove_unused_functions":
        r = opt.remove_unused_functions(m)
    elif api == "rewrite_default":
        r = rw.rewrite(m)
    elif api == "rewrite_empty":
        r = rw.rewrite(m, [])
    elif api == "rewrite_rules":
        r = rw.rewrite(m, _rules(rw, o["rules"]))
    elif api == "convert_version":
        r = vc.convert_version(m, **o)
    elif api in ("replace_functions", "replace_functions_keep"):
        r = rep.replace_functions_inplace(m, [ir.serde.deserialize_function(f) for f in fns])
    else:
        raise ValueError(api)
    if r is None:
        return "none", None
    if r is m:
        return "arg", m
    if isinstance(r, ir.Model):
        return "fresh", r
    return type(r).__name__, None


def observe(api: str, M0: onnx.ModelProto, o: dict) -> dict:
    opt, rw, vc, ir, rep = _mods()
    fns = None
    if api == "replace_functions":
        M0, fns = split_functions(M0)
        fns_before = [_bytes(f) for f in fns]
    elif api == "replace_functions_keep":
        # the model keeps its own local functions; the replacement is the expansion of c15.repl::Triple only
        opset = next((o_.version for o_ in M0.opset_import if o_.domain == ""), 18)
        fns = [c15_gen.triple_function(opset)]
        fns_before = [_bytes(f) for f in fns]
    before = _bytes(M0)
    NM = ir.serde.serialize_model(ir.serde.deserialize_model(M0))
    # ---- proto entry
    Mp = copy.deepcopy(M0)
    err_p = err_i = None
    ret_p, rp = None, None
    try:
        ret_p, rp = call_proto(api, Mp, o, fns)
    except Exception as e:  # the property is about results; an error must be the same on both entries
        err_p = type(e).__name__
    P = rp if ret_p == "fresh" else Mp
    proto = {"arg_mutated": _bytes(Mp) != before, "ret": ret_p}
    LAST["proto_opset_after"] = next((x.version for x in P.opset_import if x.domain == ""), None)
    LAST["proto_error"] = err_p
    # ---- IR entry
    Mi = copy.deepcopy(M0)
    m = ir.serde.deserialize_model(Mi)
    ret_i, ri = None, None
    try:
        ret_i, ri = call_ir(api, m, o, fns)
    except Exception as e:
        err_i = type(e).__name__
    Q = ir.serde.serialize_model(ri if ret_i == "fresh" else m)
    arg_after = ir.serde.serialize_model(m)
    irs = {"arg_mutated": _bytes(arg_after) != _bytes(NM), "ret": ret_i, "input_proto_mutated": _bytes(Mi) != before}
    out = {"M": M0, "P": P, "Q": Q, "NM": NM, "proto": proto, "ir": irs, "err_p": err_p, "err_i": err_i,
           "Mp": Mp, "Mi": Mi}
    if fns is not None:
        out["fns_mutated"] = [_bytes(f) for f in fns] != fns_before
    return out


def remove_unused_nodes_report(M0: onnx.ModelProto) -> tuple[bool, bool]:
    """(what RemoveUnusedNodesPass reports as `modified`, whether the serialised model changed) on de(copy of M0)."""
    import onnx_ir.passes.common as cp

    opt, rw, vc, ir, rep = _mods()
    m = ir.serde.deserialize_model(copy.deepcopy(M0))
    before = _bytes(ir.serde.serialize_model(m))
    r = cp.RemoveUnusedNodesPass()(m)
    return bool(r.modified), _bytes(ir.serde.serialize_model(r.model)) != before


def run_inline(M0: onnx.ModelProto) -> dict:
    """`optimizer.inline` exists for ir.Model only: in place, returns None, a no-op without functions."""
    opt, rw, vc, ir, rep = _mods()
    m = ir.serde.deserialize_model(copy.deepcopy(M0))
    NM = ir.serde.serialize_model(m)
    r = opt.inline(m)
    after = ir.serde.serialize_model(m)
    return {"ret": "none" if r is None else type(r).__name__, "NM": NM, "after": after,
            "had_functions": len(M0.functions) > 0}


# ---------------------------------------------------------------------------------- option routing


def observe_routing(M0: onnx.ModelProto) -> dict:
    """Which caller option reaches which parameter of the IR-level implementation, per API and entry form.

    The IR-level callee is replaced by a recorder for the duration of one call; every option is given a
    value that spells its own name, so `{"output_size_limit": "input_size_limit"}` means the callee's
    output_size_limit received what the caller passed as input_size_limit.  A parameter the wrapper does not
    pass at all is reported as "<not passed>".
    """
    import inspect

    opt, rw, vc, ir, rep = _mods()
    import onnxscript.optimizer._constant_folding as cf

    out: dict = {}
    # ---- optimize -> optimize_ir
    keys = ["num_iterations", "onnx_shape_inference", "stop_if_no_change", "input_size_limit", "output_size_limit", "inline"]
    real = opt.optimize_ir
    params = list(inspect.signature(real).parameters)
    for entry in ("proto", "ir"):
        seen: dict = {}

        def rec(model, *args, **kwargs):
            for name, v in zip(params[1:], args):
                seen[name] = v
            seen.update(kwargs)

        opt.optimize_ir = rec
        try:
            arg = copy.deepcopy(M0) if entry == "proto" else ir.serde.deserialize_model(copy.deepcopy(M0))
            opt.optimize(arg, **{k: "opt:" + k for k in keys})
        finally:
            opt.optimize_ir = real
        out[("optimize", entry)] = {k: (seen[k][4:] if isinstance(seen.get(k), str) and seen[k].startswith("opt:") else "<not passed>" if k not in seen else repr(seen[k])) for k in keys}
    # ---- fold_constants -> constant_folding.fold_constants (whole kwargs)
    real_fc = cf.fold_constants
    for entry in ("proto", "ir"):
        seen = {}

        def rec_fc(model, *args, **kwargs):
            seen["args"], seen["kwargs"] = args, dict(kwargs)
            return ir.passes.PassResult(model, False)

        cf.fold_constants = rec_fc
        try:
            arg = copy.deepcopy(M0) if entry == "proto" else ir.serde.deserialize_model(copy.deepcopy(M0))
            kw = {"onnx_shape_inference": "opt:a", "input_size_limit": "opt:b", "output_size_limit": "opt:c"}
            opt.fold_constants(arg, **kw)
        finally:
            cf.fold_constants = real_fc
        out[("fold_constants", entry)] = {"kwargs": "kwargs" if seen.get("kwargs") == kw and not seen.get("args") else repr(seen)}
    # ---- convert_version -> ConvertVersionPass(target_version=, fallback=)
    real_cv = vc.ConvertVersionPass
    for entry in ("proto", "ir"):
        seen = {}

        class Rec:
            def __init__(self, *args, **kwargs):
                for name, v in zip(["target_version", "fallback"], args):
                    seen[name] = v
                seen.update(kwargs)

            def __call__(self, model):
                return ir.passes.PassResult(model, False)

        vc.ConvertVersionPass = Rec
        try:
            arg = copy.deepcopy(M0) if entry == "proto" else ir.serde.deserialize_model(copy.deepcopy(M0))
            vc.convert_version(arg, "opt:target_version", fallback="opt:fallback")
        finally:
            vc.ConvertVersionPass = real_cv
        out[("convert_version", entry)] = {k: (seen[k][4:] if isinstance(seen.get(k), str) and seen[k].startswith("opt:") else "<not passed>" if k not in seen else repr(seen[k])) for k in ("target_version", "fallback")}
    return out
