"""C03 — optimize() never changes what a model computes.

Proof obligations: lean/OV/Props/C03.lean over the executable model lean/OV/Model/C03{Graph,Fold,Pass}.lean
(`foldGraph` = FoldConstantsPass, `evalGraph` = meaning of a graph with uninterpreted operators) and C03Dce.lean
(`dcePass` = onnx_ir RemoveUnusedNodesPass, tie in harness/c03_dce.py).
Tie: correspondence — the real `fold_constants` and the compiled Lean `foldGraph` on the same generated,
annotated models (reference-evaluator answers are supplied to the model by the harness, computed with
onnx.reference independently of /repo); canonicalised structures, `modified` flag and exceptions are diffed.
Property oracle (search and routine): onnxruntime with optimisations disabled, original vs
fold_constants / optimize / rewrite / remove_unused_nodes under several option tuples, >= 3 feeds.
"""
from __future__ import annotations

import json
from collections import Counter

from harness import c03_lib as L
from harness import c03_run as R
from harness import c03_streams as S
from harness import c03_dce as D
from harness import c03_history as H
from harness import core

PROP_MODULES = ["OV.Props.C03"]
APIS = ["optimize", "fold_constants", "rewrite", "remove_unused_nodes"]


def replay_case(run, body):
    case = body["case"]
    m = R.unb64(case["model_b64"])
    api, opts = case.get("api", "optimize"), case.get("opts", {})
    if case.get("sequence") and case.get("kind"):
        # evaluator state: fold the same kind of node under the other opsets first, newest first, in this process
        for v in sorted(set([21, 18, 13, 11] + list(case["sequence"])), reverse=True):
            try:
                R.apply_api("fold_constants", S.versioned_model(v, case["kind"]), {})
            except Exception:
                pass
    if case.get("fresh_first") is not None:
        hits = [r for r in H.run_child(int(case["fresh_first"])) if r["what"] == "semantic" and r["kind"] == case.get("kind")
                and r["v"] == case.get("v") and r["api"] == api]
        print(f"REPLAY fresh-process history first={case['fresh_first']} {case.get('kind')}@{case.get('v')} {api}: {[r['detail'] for r in hits]}")
        if hits:
            run.violation(case, f"replayed case still fails: {hits[0]['detail']}")
        return
    feeds = R.three_feeds(m, run.rng)
    if case.get("override"):
        feeds = [dict(f, **{k: __import__("numpy").array(v) for k, v in case["override"].items()}) for f in feeds] + feeds
    d = R.judge_semantics(m, api, opts, feeds)
    print(f"REPLAY {api} {opts}: {d}")
    if d:
        run.violation(case, f"replayed case still fails: {d}")


def witnesses(run: core.Run, stats: Counter):
    """Corpus: witnesses of listed findings that reach C03 through optimize()."""
    listed = {f["id"]: f for f in run.findings}
    for entry in R.load_corpus("corpus_c03.jsonl"):
        wid, fid = entry["witness"], entry["finding"]
        build, _ = R.WITNESSES[wid]
        m, override = build()
        feeds = R.three_feeds(m, run.rng)
        if override:
            feeds = [dict(f, **override) for f in feeds] + feeds
        d = R.judge_semantics(m, entry.get("api", "optimize"), entry.get("opts", {}), feeds)
        stats["witness_replayed"] += 1
        f = listed.get(fid)
        if d is None:
            stats["witness_pass"] += 1
            continue
        if f is not None and f.get("status") == "open":
            run.known(fid, f"{wid}: {d}".replace("\n", " "))
        elif f is None and entry.get("owner") not in (None, "C03", "C04"):
            # owned by another property's check and not (yet) listed for C03: counted, not judged here
            stats[f"witness_unlisted_{fid}"] += 1
        else:
            run.violation({"witness": wid, "finding": fid, "model_b64": R.b64(m), "api": "optimize", "opts": {}},
                          f"witness {wid} of finding {fid} (not listed as open for C03) fails: {d}")


def main(run: core.Run) -> None:
    run.assumptions += [
        "A-op: every operator other than Identity/Constant/If-selection is an uninterpreted function of (op, domain, attributes, inputs); "
        "control-flow operators are uninterpreted functionals of their bodies' denotations",
        "A-ref: onnx.reference evaluates a node as the runtime does (hypothesis `OracleSound` of the theorems; exercised by the ORT comparison)",
        "A-ir: onnx_ir passes (Inline, RemoveUnused*, LiftConstants*, Dedup, CSE, OutputFix, NameFix, replace_nodes_and_values) and the "
        "default rewrite rules (C05/C07) enter `pipeline_preserves` as contract hypotheses",
        "A-shape: type/shape annotations present in the model are truthful (hypothesis `InfoSound`)",
        "float round-off, NaN payloads are outside the theorems; compared numerically by the ORT oracle only",
    ]
    audit = run.prove(PROP_MODULES)
    drv = core.Driver("C03")
    stats: Counter = Counter()
    hist: Counter = Counter()

    if run.replay_path:
        replay_case(run, json.loads(open(run.replay_path).read()))
        run.coverage.update(evaluations=1, distinct_nontrivial=1)
        return

    witnesses(run, stats)

    drift = R.fingerprint_drift()
    run.coverage["fingerprint_drift"] = drift
    n_models = run.size(1600, 12000)
    if drift and run.tier == "quick":
        n_models *= 3
    models = R.gen_stream(run, n_models, stats) + R.directed_tie_models()

    # ---- tie
    tie_problems = R.fold_tie(run, drv, models, stats, hist)

    # ---- the property's own oracle, routinely: ORT before/after, several APIs and option tuples
    sem_failures = []
    n_sem = run.size(600, 5000)
    for k, (m, meta) in enumerate(models[:n_sem]):
        feeds = R.three_feeds(m, run.rng)
        combos = [("optimize", R.OPTION_TUPLES[k % len(R.OPTION_TUPLES)]), ("optimize", {}),
                  ("fold_constants", R.OPTION_TUPLES[(k + 3) % len(R.OPTION_TUPLES)])]
        if k % 4 == 0:
            combos += [("rewrite", {}), ("remove_unused_nodes", {})]
        if run.tier == "thorough":
            combos += [("optimize", o) for o in R.OPTION_TUPLES[1:6]]
        for api, opts in combos:
            stats["semantic_runs"] += 1
            d = R.judge_semantics(m, api, opts, feeds)
            if d:
                fid = R.known_in_stream(meta, {f["id"] for f in run.open_findings()})
                if fid:
                    stats[f"known_{fid}_in_stream"] += 1
                    continue
                sem_failures.append((m, meta, api, opts, d))
        if run.budget_s and run.elapsed() > run.budget_s:
            break

    # ---- regions outside the random-DAG tie: functions with reference attributes, evaluator state across models of
    #      different opsets, node-level shape inference with overridable shape operands
    extra = (S.function_stream(run, drv, stats, hist, run.size(16, 64)) + S.opset_history_stream(run, stats)
             + S.shape_override_stream(run, stats, run.size(10, 40)) + H.fresh_process_history_stream(run, stats))
    for kind, desc, detail in extra:
        if kind == "semantic":
            sem_failures.append((R.unb64(desc["model_b64"]), {"tags": [str(desc.get("meta") or desc.get("kind"))], **{k: v for k, v in desc.items() if k in ("sequence", "override")}},
                                 desc["api"], desc["opts"], detail.split(": ", 1)[-1] if False else detail))
            for k in ("fresh_first", "kind", "v"):
                if k in desc:
                    sem_failures[-1][1][k] = desc[k]
        elif kind == "tie":
            tie_problems.append(("tie", {"model_b64": desc["model_b64"], "in_limit": 8192, "out_limit": 262144, "should_fold": "N",
                                         "tags": [str(desc.get("meta"))]}, detail))

    # ---- the `dce` slot: RemoveUnusedNodesPass vs the Lean model dcePass (theorem dce_refines), directed families + random models
    dce_results, dce_known = D.dce_stream(run, drv, models[: run.size(120, 600)], stats, hist, run.size(48, 192))
    for kind, desc, detail in dce_results:
        if kind == "semantic":
            sem_failures.append((R.unb64(desc["model_b64"]), {"tags": [str(desc.get("meta"))]}, desc["api"], desc["opts"], detail))
        else:
            tie_problems.append((kind, desc, detail))
    if dce_known:
        if "C03-D4" in {f["id"] for f in run.open_findings()}:
            run.known("C03-D4", f"RemoveUnusedNodesPass pops training_mode of a BatchNormalization whose running outputs are unused: "
                      f"{len(dce_known)} runs of the dce stream differ ({dce_known[0][1][:120]})")
        else:
            desc, d = dce_known[0]
            sem_failures.append((R.unb64(desc["model_b64"]), {"tags": [str(desc.get("meta"))]}, desc["api"], desc["opts"],
                                 f"{desc['api']}({desc['opts']}) changes what the model computes: {d}"))

    if stats["known_C03-D2_in_stream"]:
        run.known("C03-D2", "fold_constants / optimize(inline=False) on a function body with a reference attribute "
                  f"(ReduceSum<keepdims=@k>, Shape<start=@s>) change the result at {stats['known_C03-D2_in_stream']} call sites of the function stream")
    if stats["known_C03-D3_in_stream"]:
        run.known("C03-D3", "Softmax<axis=1>(const[1,2,3]) under opset 11 is folded with the opset-13 reference implementation "
                  f"({stats['known_C03-D3_in_stream']} runs of the opset-history stream)")

    for m, meta in models[:6]:
        run.sample({"tags": meta["tags"], "opset": meta["opset"], "nodes": len(m.graph.node)})

    # ---- verdict
    if sem_failures:
        sem_failures.sort(key=lambda t: len(t[0].graph.node))
        m, meta, api, opts, d = sem_failures[0]
        msg = d if "changes" in d or "override" in d else f"{api}({opts}) changes what the model computes: {d}"
        run.violation({"model_b64": R.b64(m), "api": api, "opts": opts, "others": len(sem_failures) - 1, **meta}, msg)
    elif tie_problems:
        # tie broken: search the neighbourhood (same model, every API x option tuple) for a semantic failure
        found = None
        for _, desc, detail in tie_problems[:12]:
            m = R.unb64(desc["model_b64"])
            feeds = R.three_feeds(m, run.rng)
            for api in ("fold_constants", "optimize"):
                for opts in [dict(input_size_limit=desc["in_limit"], output_size_limit=desc["out_limit"])] + R.OPTION_TUPLES:
                    d = R.judge_semantics(m, api, opts, feeds)
                    if d:
                        found = (desc, api, opts, d)
                        break
                if found:
                    break
            if found:
                break
        if found:
            desc, api, opts, d = found
            run.violation({"model_b64": desc["model_b64"], "api": api, "opts": opts, "tags": desc["tags"]},
                          f"{api}({opts}) changes what the model computes: {d}")
        else:
            _, desc, detail = tie_problems[0]
            run.violation({**desc, "broken": "correspondence OV.C03.foldGraph vs FoldConstantsPass", "detail": detail,
                           "others": len(tie_problems) - 1},
                          f"correspondence broken (foldGraph vs fold_constants): {detail[:300]}; no input found on which the outputs differ",
                          no_input=True)
    if not audit["ok"]:
        run.violation({"broken": "proof obligations of OV.Props.C03", "problems": audit["problems"], "log": audit["build_log"][-1500:]},
                      "Lean proof obligations for C03 do not check: " + "; ".join(audit["problems"][:3]), no_input=True)

    tagc = Counter(t for _, meta in models for t in meta["tags"])
    run.coverage.update(
        evaluations=stats["tie_cases"] + stats["semantic_runs"],
        distinct_nontrivial=stats["tie_agree_modified"],
        rule="generated models on which fold_constants modified the graph and the Lean foldGraph produced the identical canonical "
        "structure (nodes, order, attributes, initializer contents, outputs, modified flag)",
        traces_validated_against_impl=stats["tie_agree"],
        distribution={"stats": dict(stats), "model_branches": dict(sorted(hist.items())), "generator_snippets": dict(sorted(tagc.items()))},
        exhaustive=False,
    )
    must = ["fold:initializer", "gate:graphinput", "gate:inputsize", "gate:alwaysfold", "gate:outputsize", "gate:blacklist",
            "gate:nondeterministic", "gate:controlflow", "subst:alias", "out:replaced", "if:then", "if:else",
            "dropout:2out", "castlike:cast", "cast:identity", "reshape:identity", "expand:identity", "concat:dropzero",
            "shape:const", "gather:const", "seqat:identity", "clear:initializer", "thm:fragmentA"] + D.REQUIRED_BRANCHES
    missing = [b for b in must if hist[b] == 0] + [t for t in ("loop", "scan", "expand_othershape", "const_optional_gap",
                                                                "initinput_optional_operand", "branch_alias_outer", "dropout_train_dynamic_ratio_nonzero",
                                                                "rulepair_unsqueeze_lt", "rulepair_unsqueeze_eq", "rulepair_unsqueeze_gt",
                                                                "rulepair_transpose_inverse", "rule_flatten_axis_0") if tagc[t] == 0]
    if missing:
        raise core.Infra(f"generator degenerated: model branches never reached: {missing}")
