"""usage: seednote.py <seed-id> <text>  — append to meta.json coordinator_note (idempotent on identical text)."""
import json, sys
from pathlib import Path
V = Path(__file__).resolve().parent.parent
sid, text = sys.argv[1], sys.argv[2]
p = V / "seeded" / sid / "meta.json"
m = json.loads(p.read_text())
old = m.get("coordinator_note", "")
if text not in old:
    m["coordinator_note"] = (old + " " + text).strip()
    p.write_text(json.dumps(m, indent=1))
print(sid, m["coordinator_note"][:200])
