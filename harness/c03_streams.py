"""C03/C04 — streams for the regions the random-DAG tie does not reach:

* `function_stream`      model-local functions with reference attributes; fold_constants / optimize(inline=False|True);
                         tie of every function body (driver FN=1) + ORT oracle + checker/walker on function bodies + `modified`
* `opset_history_stream` 2-3 models of different default opsets folded in ONE process, in both orders (evaluator state)
* `shape_override_stream` optimize() with node-level shape inference ON on models whose shape-carrying operands are
                         overridable initializer-inputs, run with overrides that change the shape; plus a recording of
                         what `_do_inference` hands to `onnx.shape_inference.infer_node_outputs` as constant data
Each returns a list of (kind, desc, detail) with kind in {"semantic", "validity", "tie"}.
"""
from __future__ import annotations

import itertools
from collections import Counter

import numpy as np
import onnx
import onnx_ir as ir
from onnx import TensorProto as TP
from onnx import helper as h
from onnx import numpy_helper as nh

from harness import c03_lib as L
from harness import c03_run as R
from harness import core


def vi(n, t, s):
    return h.make_tensor_value_info(n, t, s)


def ref_attr(name, ref, typ=onnx.AttributeProto.INT):
    a = onnx.AttributeProto()
    a.name, a.ref_attr_name, a.type = name, ref, typ
    return a


def with_ref(node, name, ref):
    node.attribute.append(ref_attr(name, ref))
    return node


# ----------------------------------------------------------------------------- functions


def fn_stack(opset):
    """Stack(a, b){new_axis}: ConcatFromSequence<axis=0, new_axis=@new_axis>(SequenceConstruct(a, b))"""
    cfs = with_ref(h.make_node("ConcatFromSequence", ["s"], ["r"], axis=0), "new_axis", "new_axis")
    return h.make_function("local", "Stack", ["a", "b"], ["r"], [h.make_node("SequenceConstruct", ["a", "b"], ["s"]), cfs],
                           [h.make_opsetid("", opset)], attributes=["new_axis"])


def fn_twice(opset):
    """Twice(a, b): the same sequence stacked twice with literal new_axis=1 (two tape-built replacements, same names)"""
    return h.make_function("local", "Twice", ["a", "b"], ["r"],
                           [h.make_node("SequenceConstruct", ["a", "b"], ["s"]),
                            h.make_node("ConcatFromSequence", ["s"], ["r1"], axis=0, new_axis=1),
                            h.make_node("ConcatFromSequence", ["s"], ["r2"], axis=0, new_axis=1),
                            h.make_node("Add", ["r1", "r2"], ["r"])],
                           [h.make_opsetid("", opset)])


def fn_red(opset):
    """Red(a){k}: a + rank(ReduceSum<keepdims=@k>(const)) — an all-constant node with a reference attribute"""
    return h.make_function("local", "Red", ["a"], ["r"],
                           [h.make_node("Constant", [], ["c"], value=nh.from_array(np.array([[1.0, 2.0], [3.0, 4.0]], dtype=np.float32))),
                            h.make_node("Constant", [], ["ax"], value=nh.from_array(np.array([0], dtype=np.int64))),
                            with_ref(h.make_node("ReduceSum", ["c", "ax"], ["r0"]), "keepdims", "k"),
                            h.make_node("Shape", ["r0"], ["sh"]), h.make_node("Cast", ["sh"], ["shf"], to=1),
                            h.make_node("ReduceSum", ["shf"], ["t"], keepdims=0), h.make_node("Add", ["a", "t"], ["r"])],
                           [h.make_opsetid("", opset)], attributes=["k"])


def fn_shape(opset):
    """Dims(a){s}: a + sum(Shape<start=@s>(const of shape [2,3,4]))"""
    return h.make_function("local", "Dims", ["a"], ["r"],
                           [h.make_node("Constant", [], ["c"], value=nh.from_array(np.zeros((2, 3, 4), dtype=np.float32))),
                            with_ref(h.make_node("Shape", ["c"], ["sh"]), "start", "s"),
                            h.make_node("Cast", ["sh"], ["shf"], to=1), h.make_node("ReduceSum", ["shf"], ["t"], keepdims=0),
                            h.make_node("Add", ["a", "t"], ["r"])],
                           [h.make_opsetid("", opset)], attributes=["s"])


def fn_plain(opset):
    """Lin(a, b): foldable constants and an Identity inside a function, literal attributes only"""
    return h.make_function("local", "Lin", ["a", "b"], ["r"],
                           [h.make_node("Constant", [], ["c1"], value=nh.from_array(np.array(2.0, dtype=np.float32))),
                            h.make_node("Constant", [], ["c2"], value=nh.from_array(np.array(0.5, dtype=np.float32))),
                            h.make_node("Mul", ["c1", "c2"], ["c3"]), h.make_node("Mul", ["a", "c3"], ["t"]),
                            h.make_node("Identity", ["t"], ["u"]), h.make_node("Add", ["u", "b"], ["r"])],
                           [h.make_opsetid("", opset)])


def fn_castlike(opset):
    """CL(a, b): Cast<FLOAT>(CastLike(a, b)) — inside the body neither operand of CastLike has a known element type"""
    return h.make_function("local", "CL", ["a", "b"], ["r"],
                           [h.make_node("CastLike", ["a", "b"], ["r0"]), h.make_node("Cast", ["r0"], ["r"], to=1)],
                           [h.make_opsetid("", opset)])


FUNCS = {"stack": fn_stack, "twice": fn_twice, "red": fn_red, "shape": fn_shape, "plain": fn_plain, "castlike": fn_castlike}


def function_models(rng, n):
    """Models calling 1-3 model-local functions; `main_touch` adds a foldable node to the main graph."""
    out = []
    combos = [("stack",), ("twice",), ("red",), ("shape",), ("plain",), ("stack", "plain"), ("twice", "plain"), ("stack", "twice"),
              ("castlike",), ("castlike", "plain")]
    k = 0
    while len(out) < n:
        kinds = combos[k % len(combos)]
        k += 1
        opset = rng.choice([18, 18, 20])
        main_touch = rng.random() < 0.4
        nodes, outs = [], []
        x, y = vi("x", TP.FLOAT, [2, 3]), vi("y", TP.FLOAT, [2, 3])
        refs_foldable = False
        for j, kind in enumerate(kinds):
            o = f"o{j}"
            if kind == "stack":
                na = rng.choice([0, 1, 1])
                nodes.append(h.make_node("Stack", ["x", "y"], [o], domain="local", new_axis=na))
                outs.append(vi(o, TP.FLOAT, [2, 2, 3] if na else [4, 3]))
            elif kind == "twice":
                nodes.append(h.make_node("Twice", ["x", "y"], [o], domain="local"))
                outs.append(vi(o, TP.FLOAT, [2, 2, 3]))
            elif kind == "red":
                nodes.append(h.make_node("Red", ["x"], [o], domain="local", k=rng.choice([0, 1])))
                outs.append(vi(o, TP.FLOAT, [2, 3]))
                refs_foldable = True
            elif kind == "shape":
                nodes.append(h.make_node("Dims", ["x"], [o], domain="local", s=rng.choice([0, 1, 2])))
                outs.append(vi(o, TP.FLOAT, [2, 3]))
                refs_foldable = True
            elif kind == "castlike":
                # the call site decides the element types: a float, b int64 (truncation must survive the optimizer)
                nodes.append(h.make_node("Cast", ["y"], [f"yi{j}"], to=TP.INT64))
                nodes.append(h.make_node("CL", ["x", f"yi{j}"], [o], domain="local"))
                outs.append(vi(o, TP.FLOAT, [2, 3]))
            else:
                nodes.append(h.make_node("Lin", ["x", "y"], [o], domain="local"))
                outs.append(vi(o, TP.FLOAT, [2, 3]))
        if main_touch:
            nodes += [h.make_node("Constant", [], ["mc"], value=nh.from_array(np.array(1.5, dtype=np.float32))),
                      h.make_node("Neg", ["mc"], ["mn"]), h.make_node("Mul", ["x", "mn"], ["om"])]
            outs.append(vi("om", TP.FLOAT, [2, 3]))
        g = h.make_graph(nodes, "g", [x, y], outs)
        fs = [FUNCS[kd](opset) for kd in dict.fromkeys(kinds)]
        m = h.make_model(g, opset_imports=[h.make_opsetid("", opset), h.make_opsetid("local", 1)],
                         ir_version=8 if opset <= 18 else 9, functions=fs)
        onnx.checker.check_model(m, full_check=True)
        out.append((m, {"kinds": kinds, "main_touch": main_touch, "opset": opset, "ref_foldable": refs_foldable}))
    return out


class FnAsGraph:
    """Adapter: an ir.Function seen through the attributes `enc_graph` / `canon_real_side` use."""

    def __init__(self, f: ir.Function):
        self.f = f
        self.inputs, self.outputs, self.initializers = f.inputs, f.outputs, {}

    def __iter__(self):
        return iter(self.f)


def fold_functions_tie(drv, m: onnx.ModelProto, stats: Counter, hist: Counter):
    """Real fold_constants on the whole model vs the Lean model on the main graph (FN=0) and on each function body (FN=1)."""
    from onnxscript.optimizer import _constant_folding as cf

    mi0 = ir.serde.deserialize_model(m)
    cases = []
    main = L.Case(m, 8192, 262144, "N")
    L.encode_case(main, mi0)
    cases.append(("<main>", main))
    for fid, f in mi0.functions.items():
        c = L.Case(m, 8192, 262144, "N")
        L.encode_case(c, mi0, graph=FnAsGraph(f), is_function=True)
        cases.append((f.name, c))
    answers = L.run_model_side(drv, [c for _, c in cases])
    mi = ir.serde.deserialize_model(m)
    rerr = None
    try:
        res = cf.fold_constants(mi)
    except Exception as e:
        rerr = f"{type(e).__name__}: {e.__cause__!r}"[:200]
    problems = []
    merr = next((a[1] for a in answers if a[1]), None)
    if merr and merr.startswith("unmodelled"):
        stats["fn_unmodelled"] += 1
        return problems
    if rerr or merr:
        if bool(rerr) != bool(merr):
            problems.append(f"exception parity: model={merr} real={rerr}")
        return problems
    mod = any(a[0] for a in answers)
    for (name, c), a in zip(cases, answers):
        for x in a[3]:
            hist["fn:" + x] += 1
        gm, _ = L.parse_graph_tokens(a[4])
        real_g = mi.graph if name == "<main>" else FnAsGraph(next(f for f in mi.functions.values() if f.name == name))
        d = L.first_diff(L.canon_real_side(c, real_g), L.canon_model_side(c, gm))
        if d:
            problems.append(f"{name}: {d}")
    if not problems and mod != bool(res.modified):
        problems.append(f"modified flag: model={mod} real={res.modified}")
    stats["fn_tie_cases"] += 1
    if not problems:
        stats["fn_tie_agree"] += 1
    return problems


def function_body_walk(m: onnx.ModelProto) -> str | None:
    """single assignment + definition before use inside every function body"""
    for f in m.functions:
        seen = set(f.input)
        if len(seen) != len(f.input):
            return f"function {f.name}: duplicate inputs"
        for k, n in enumerate(f.node):
            for x in n.input:
                if x and x not in seen:
                    return f"function {f.name}: node {k} ({n.op_type}) reads {x!r} before definition"
            for o in n.output:
                if o:
                    if o in seen:
                        return f"function {f.name}: value {o!r} defined twice"
                    seen.add(o)
        for o in f.output:
            if o not in seen:
                return f"function {f.name}: output {o!r} not produced"
    return None


def function_stream(run: core.Run, drv, stats: Counter, hist: Counter, n: int):
    import onnxscript.optimizer as opt

    failures = []
    open_ids = {f["id"] for f in run.open_findings()}
    # If(<constant>) inside a function body, a branch owning an initializer (C04-D9, fixed by 26dd9fc): the Lean
    # `foldFunction` (initializers left in the body become Constant nodes) against the real pass
    for cond in (True, False):
        for owner in ("then", "else", "both", "none"):
            fm = R.m_function_if(cond, owner, None)
            for p in fold_functions_tie(drv, fm, stats, hist):
                failures.append(("tie", {"model_b64": R.b64(fm), "meta": {"kinds": ["function_if", cond, owner]}, "api": "fold_constants", "opts": {}},
                                 "function tie: " + p))
    for m, meta in function_models(run.rng, n):
        desc = {"model_b64": R.b64(m), "meta": {k: (list(v) if isinstance(v, tuple) else v) for k, v in meta.items()}}
        stats["fn_models"] += 1
        known = "C03-D2" if meta["ref_foldable"] and "C03-D2" in open_ids else None
        for p in fold_functions_tie(drv, m, stats, hist):
            failures.append(("tie", {**desc, "api": "fold_constants", "opts": {}}, "function tie: " + p))
        x = np.arange(6, dtype=np.float32).reshape(2, 3)
        feeds = [{"x": x, "y": x * 0.5 - 1}, {"x": -x, "y": x + 3}]
        for api, opts in (("fold_constants", {}), ("optimize", {"inline": False}), ("optimize", {})):
            stats["fn_runs"] += 1
            mc = onnx.ModelProto()
            mc.CopyFrom(m)
            before = [f.SerializeToString() for f in mc.functions] + [mc.graph.SerializeToString()]
            try:
                if api == "fold_constants":
                    res = opt.fold_constants(mc)
                    m2 = mc
                    after = [f.SerializeToString() for f in m2.functions] + [m2.graph.SerializeToString()]
                    if (before != after) and not res.modified and _structure_changed(m, m2):
                        failures.append(("validity", {**desc, "api": api, "opts": opts},
                                         "fold_constants changed a function body but reports modified=False (NameFixPass skipped)"))
                else:
                    m2 = opt.optimize(mc, **opts)
            except Exception as e:
                failures.append(("validity", {**desc, "api": api, "opts": opts}, f"{api}({opts}) raised {type(e).__name__}: {str(e)[:160]}"))
                continue
            d = None
            try:
                onnx.checker.check_model(m2, full_check=True)
            except Exception as e:
                d = f"checker rejects the result of {api}({opts}): {str(e).splitlines()[0][:200]}"
            d = d or L.scope_walk(m2) or function_body_walk(m2)
            if d:
                failures.append(("validity", {**desc, "api": api, "opts": opts}, d if d.startswith("checker") else f"{api}({opts}): {d}"))
            sd = L.semantic_diff(m, m2, feeds, must_run=True)
            if sd:
                if known and (api == "fold_constants" or opts.get("inline") is False):
                    stats["known_C03-D2_in_stream"] += 1
                    continue
                failures.append(("semantic", {**desc, "api": api, "opts": opts}, f"{api}({opts}) changes what the model computes: {sd}"))
    return failures


def _structure_changed(m0, m1) -> bool:
    sig = lambda m: [(f.name, [(n.op_type, len(n.input)) for n in f.node]) for f in m.functions] + [[(n.op_type, len(n.input)) for n in m.graph.node]]  # noqa: E731
    return sig(m0) != sig(m1)


# ----------------------------------------------------------------------------- opset history


def versioned_model(opset: int, kind: str):
    """An all-constant, version-sensitive node feeding an Add with the input (so the result is observable)."""
    c = np.arange(6, dtype=np.float32).reshape(1, 2, 3) - 2.0
    if kind == "squeeze":
        c = np.array([10.0, 20.0], dtype=np.float32).reshape(1, 2, 1)  # several unit dims: squeezing axis 0 != squeezing all
    inits = [nh.from_array(c, "c")]
    x = vi("x", TP.FLOAT, [1])
    if kind == "squeeze":
        if opset < 13:
            n = h.make_node("Squeeze", ["c"], ["t"], axes=[0])
        else:
            inits.append(nh.from_array(np.array([0], dtype=np.int64), "ax"))
            n = h.make_node("Squeeze", ["c", "ax"], ["t"])
        oshape = [2, 1]
    elif kind == "unsqueeze":
        if opset < 13:
            n = h.make_node("Unsqueeze", ["c"], ["t"], axes=[0])
        else:
            inits.append(nh.from_array(np.array([0], dtype=np.int64), "ax"))
            n = h.make_node("Unsqueeze", ["c", "ax"], ["t"])
        oshape = [1, 1, 2, 3]
    elif kind == "reducesum":
        if opset < 13:
            n = h.make_node("ReduceSum", ["c"], ["t"], axes=[1], keepdims=0)
        else:
            inits.append(nh.from_array(np.array([1], dtype=np.int64), "ax"))
            n = h.make_node("ReduceSum", ["c", "ax"], ["t"], keepdims=0)
        oshape = [1, 3]
    elif kind == "softmax":
        n = h.make_node("Softmax", ["c"], ["t"], axis=1)  # before opset 13: coerced to 2-D at `axis`
        oshape = [1, 2, 3]
    elif kind == "split":
        if opset < 13:
            n = h.make_node("Split", ["c"], ["t", "t2"], axis=2, split=[1, 2])
        elif opset < 18:
            inits.append(nh.from_array(np.array([1, 2], dtype=np.int64), "sp"))
            n = h.make_node("Split", ["c", "sp"], ["t", "t2"], axis=2)
        else:
            inits.append(nh.from_array(np.array([1, 2], dtype=np.int64), "sp"))
            n = h.make_node("Split", ["c", "sp"], ["t", "t2"], axis=2)
        oshape = [1, 2, 1]
    elif kind.startswith("reduce") and kind != "reducesum":
        opname = {"reducemax": "ReduceMax", "reducemean": "ReduceMean", "reducemin": "ReduceMin", "reduceprod": "ReduceProd",
                  "reducelogsum": "ReduceLogSum", "reducelogsumexp": "ReduceLogSumExp", "reducesumsquare": "ReduceSumSquare"}[kind]
        if kind == "reducelogsum":
            c = np.abs(c) + 1.0
            inits = [nh.from_array(c, "c")]
        if opset < 18:
            n = h.make_node(opname, ["c"], ["t"], axes=[1], keepdims=0)
        else:
            inits.append(nh.from_array(np.array([1], dtype=np.int64), "ax"))
            n = h.make_node(opname, ["c", "ax"], ["t"], keepdims=0)
        oshape = [1, 3]
    elif kind == "pad":
        inits.append(nh.from_array(np.array([0, 1, 0, 0, 0, 1], dtype=np.int64), "pads"))
        n = h.make_node("Pad", ["c", "pads"], ["t"], mode="constant")
        oshape = [1, 3, 4]
    elif kind == "reshape":
        inits.append(nh.from_array(np.array([0, -1], dtype=np.int64), "shp"))
        n = h.make_node("Reshape", ["c", "shp"], ["t"])
        oshape = [1, 6]
    elif kind == "argmax":
        n = h.make_node("ArgMax", ["c"], ["ti"], axis=2, keepdims=0)
        g = h.make_graph([n, h.make_node("Cast", ["ti"], ["t"], to=TP.FLOAT), h.make_node("Add", ["t", "x"], ["y"])], "g", [x],
                         [vi("y", TP.FLOAT, [1, 2])], initializer=inits)
        return h.make_model(g, opset_imports=[h.make_opsetid("", opset)], ir_version=7 if opset < 15 else 8 if opset <= 18 else 10)
    elif kind == "averagepool":
        n = h.make_node("AveragePool", ["c"], ["t"], kernel_shape=[2], strides=[1])
        oshape = [1, 2, 2]
    elif kind == "topk":
        inits.append(nh.from_array(np.array([2], dtype=np.int64), "k"))
        n = h.make_node("TopK", ["c", "k"], ["t", "ti"], axis=2)
        oshape = [1, 2, 2]
    elif kind == "clip":
        inits += [nh.from_array(np.array(-1.0, dtype=np.float32), "lo"), nh.from_array(np.array(1.5, dtype=np.float32), "hi")]
        n = h.make_node("Clip", ["c", "lo", "hi"], ["t"])
        oshape = [1, 2, 3]
    else:
        raise ValueError(kind)
    g = h.make_graph([n, h.make_node("Add", ["t", "x"], ["y"])], "g", [x], [vi("y", TP.FLOAT, oshape)], initializer=inits)
    return h.make_model(g, opset_imports=[h.make_opsetid("", opset)], ir_version=7 if opset < 15 else 8 if opset <= 18 else 10)


def opset_history_stream(run: core.Run, stats: Counter):
    """Fold version-sensitive constant nodes of models with different opsets in one process, in every order of a pair."""
    import onnxscript.optimizer as opt

    failures = []
    kinds = ["squeeze", "unsqueeze", "reducesum", "softmax", "split", "clip", "reducemax", "reducemean", "reducemin",
             "reduceprod", "reducelogsum", "reducelogsumexp", "reducesumsquare", "pad", "reshape", "argmax", "averagepool", "topk"]
    if run.tier == "quick":
        kinds = kinds[:6] + run.rng.sample(kinds[6:], 5)
    versions = [11, 13, 18, 21]
    feeds = [{"x": np.array([0.5], dtype=np.float32)}]
    pairs = list(itertools.permutations(versions, 2))
    run.rng.shuffle(pairs)
    for kind in kinds:
        for (v1, v2) in pairs[: run.size(4, 12)]:
            seq = [v1, v2] + ([run.rng.choice(versions)] if run.rng.random() < 0.3 else [])
            for v in seq:
                m = versioned_model(v, kind)
                try:
                    onnx.checker.check_model(m, full_check=True)
                except Exception as e:
                    raise core.Infra(f"opset-history host invalid {kind}@{v}: {str(e)[:160]}")
                stats["history_runs"] += 1
                for api in ("fold_constants", "optimize"):
                    try:
                        m2 = R.apply_api(api, m, {})
                    except Exception as e:
                        failures.append(("validity", {"model_b64": R.b64(m), "api": api, "opts": {}, "sequence": seq, "kind": kind},
                                         f"{api} raised on {kind}@opset{v} after {seq}: {type(e).__name__}: {str(e)[:120]}"))
                        continue
                    sd = L.semantic_diff(m, m2, feeds, must_run=True)
                    if sd and kind == "softmax" and v < 13 and "C03-D3" in {f["id"] for f in run.open_findings()}:
                        stats["known_C03-D3_in_stream"] += 1
                        continue
                    if sd:
                        failures.append(("semantic", {"model_b64": R.b64(m), "api": api, "opts": {}, "sequence": seq, "kind": kind,
                                                      "history": "models of opsets %s folded before in this process" % seq},
                                         f"{api} on {kind}@opset{v} (after folding opsets {seq} in the same process) changes the result: {sd}"))
    return failures


# ----------------------------------------------------------------------------- shape inference ON + overridable shape operands


def shape_override_models(rng, n):
    out = []
    kinds = ["reshape", "expand", "tile", "constantofshape", "slice"]
    for k in range(n):
        kind = kinds[k % len(kinds)]
        x = vi("x", TP.FLOAT, [2, 3])
        if kind == "reshape":
            dflt, ov = np.array([2, 3], dtype=np.int64), np.array([3, 2], dtype=np.int64)
            nodes = [h.make_node("Reshape", ["x", "p"], ["r"])]
        elif kind == "expand":
            dflt, ov = np.array([2, 3], dtype=np.int64), np.array([2, 2, 3], dtype=np.int64)
            nodes = [h.make_node("Expand", ["x", "p"], ["r"])]
        elif kind == "tile":
            dflt, ov = np.array([1, 1], dtype=np.int64), np.array([2, 1], dtype=np.int64)
            nodes = [h.make_node("Tile", ["x", "p"], ["r"])]
        elif kind == "constantofshape":
            dflt, ov = np.array([2, 3], dtype=np.int64), np.array([4], dtype=np.int64)
            nodes = [h.make_node("ConstantOfShape", ["p"], ["r"])]
        else:
            dflt, ov = np.array([2], dtype=np.int64), np.array([1], dtype=np.int64)
            nodes = [h.make_node("Constant", [], ["st"], value=nh.from_array(np.array([0], dtype=np.int64))),
                     h.make_node("Constant", [], ["axs"], value=nh.from_array(np.array([0], dtype=np.int64))),
                     h.make_node("Slice", ["x", "st", "p", "axs"], ["r"])]
        tail = rng.choice(["shape", "size", "shape_gather"])
        if tail == "shape":
            nodes.append(h.make_node("Shape", ["r"], ["s"]))
        elif tail == "size":
            nodes.append(h.make_node("Size", ["r"], ["s"]))
        else:
            nodes += [h.make_node("Shape", ["r"], ["s0"]), h.make_node("Constant", [], ["i0"], value=nh.from_array(np.array([0], dtype=np.int64))),
                      h.make_node("Gather", ["s0", "i0"], ["s"], axis=0)]
        g = h.make_graph(nodes, "g", [x, vi("p", TP.INT64, [len(dflt)])],
                         [vi("s", TP.INT64, [] if tail == "size" else [None])], initializer=[nh.from_array(dflt, "p")])
        m = h.make_model(g, opset_imports=[h.make_opsetid("", 18)], ir_version=8)
        out.append((m, {"kind": kind, "tail": tail}, {"p": ov}))
    return out


class InferenceRecorder:
    """Records what FoldConstantsPass._do_inference hands to onnx.shape_inference.infer_node_outputs as constant data."""

    def __init__(self):
        self.calls = []

    def __enter__(self):
        import onnx.shape_inference as si

        self.si, self.orig = si, si.infer_node_outputs

        def rec(schema, node, input_types, input_data=None, *a, **kw):
            self.calls.append((node.op_type, list(node.input), sorted((input_data or {}).keys())))
            return self.orig(schema, node, input_types, input_data, *a, **kw)

        si.infer_node_outputs = rec
        return self

    def __exit__(self, *exc):
        self.si.infer_node_outputs = self.orig


def shape_override_stream(run: core.Run, stats: Counter, n: int):
    failures = []
    for m, meta, ov in shape_override_models(run.rng, n):
        try:
            onnx.checker.check_model(m)
        except Exception as e:
            raise core.Infra(f"shape-override host invalid: {meta}: {str(e)[:160]}")
        xv = np.arange(6, dtype=np.float32).reshape(2, 3)
        feeds = [{"x": xv, **ov}, {"x": xv}]
        for api, opts in (("optimize", {}), ("optimize", {"num_iterations": 1, "as_ir": True}), ("fold_constants", {"onnx_shape_inference": True})):
            stats["shape_override_runs"] += 1
            desc = {"model_b64": R.b64(m), "api": api, "opts": opts, "meta": meta, "override": {k: v.tolist() for k, v in ov.items()}}
            with InferenceRecorder() as rec:
                try:
                    m2 = R.apply_api(api, m, opts)
                except Exception as e:
                    failures.append(("validity", desc, f"{api}({opts}) raised {type(e).__name__}: {str(e)[:160]}"))
                    continue
            stats["inference_calls_recorded"] += len(rec.calls)
            # the model's rule (OV.C03.inferenceConstant / theorem inference_never_reads_graph_input_default):
            # a graph input is never handed over as constant data
            gin = {i.name for i in m.graph.input}
            for op, ins, data in rec.calls:
                leaked = sorted(set(data) & gin)
                if leaked:
                    failures.append(("validity", desc, f"{api}({opts}): node-level shape inference of {op} was given the default of graph input(s) {leaked} as constant data"))
                    break
            sd = L.semantic_diff(m, m2, feeds, must_run=True)
            if sd:
                failures.append(("semantic", desc, f"{api}({opts}) with the override {desc['override']}: {sd}"))
    return failures
