"""C06 — generators: seeded random patterns, host graphs derived from a pattern (instantiate +
mutate), unrelated random graphs, and the bounded enumeration over the small alphabet."""
from __future__ import annotations

import copy
import itertools

OPS = {"Neg": (1, 1), "Abs": (1, 1), "Add": (2, 1), "Mul": (2, 1), "Sub": (2, 1), "D2": (1, 2), "T3": (3, 1)}
OP_NAMES = list(OPS)
ATTR_CHOICES = [
    ("axis", ["c", 1]),
    ("axis", ["c", 0]),
    ("axis", ["v", "ax", False]),
    ("axis", ["v", "ax", True]),
    ("axis", ["v", None, False]),
    ("perm", ["c", [0, 1]]),
    ("perm", ["v", "pm", True]),
    ("mode", ["c", "abc"]),
    ("mode", ["c", ""]),
    ("alpha", ["v", "ax", False]),
]
HOST_ATTRS = [
    ("axis", "i", 1),
    ("axis", "i", 0),
    ("axis", "f", 1),
    ("perm", "is", [0, 1]),
    ("perm", "is", [1, 0]),
    ("perm", "is", []),
    ("mode", "s", "abc"),
    ("mode", "s", ""),
    ("mode", "ss", ["a", "b", "c"]),
    ("alpha", "i", 1),
    ("extra", "i", 7),
]


# a scalar attribute pattern against a list attribute raises TypeError before repair C06-F6: generated only when
# that finding is listed as fixed (set by c06.check_fixed_findings)
ALLOW_SCALAR_VS_LIST_ATTR = False

# --------------------------------------------------------------------------- patterns


def gen_pattern(rng, max_nodes=5):
    n_nodes = rng.choice([1, 1, 2, 2, 2, 3, 3, 3, 4, 4, 5, 6, 8])
    n_nodes = min(n_nodes, max_nodes)
    nodes: list = []
    ids = itertools.count(1)
    open_outs: list = []  # (np, idx) not yet consumed
    all_outs: list = []
    named: dict = {}
    shared_leaf: list = []  # unnamed leaf objects that may be reused (identity sharing)
    shared_or: list = []
    tagvars: list = []

    def var():
        if named and rng.random() < 0.55:
            return copy.deepcopy(rng.choice(list(named.values())))
        nm = rng.choice(["x", "y", "z", "w"])
        if nm in named:
            return copy.deepcopy(named[nm])
        chk = None
        r = rng.random()
        if r < 0.05:
            chk = False
        elif r < 0.12:
            chk = True
        v = ["V", next(ids), nm, rng.random() < 0.15, chk]
        named[nm] = v
        return copy.deepcopy(v)

    def node_out(prefer_open=True):
        if open_outs and (prefer_open or rng.random() < 0.7):
            o = rng.choice(open_outs)
            if rng.random() < 0.8:
                open_outs.remove(o)
            return ["O", o[0], o[1]]
        o = rng.choice(all_outs)
        return ["O", o[0], o[1]]

    def atom(depth=0, in_or=False):
        r = rng.random()
        if all_outs and r < 0.42:
            return node_out()
        if r < 0.70:
            return var()
        if r < 0.78:
            if shared_leaf and rng.random() < 0.3:
                return copy.deepcopy(rng.choice(shared_leaf))
            k = ["K", next(ids), rng.choice([0, 1, 1, 2, 1000, 1.0, 0.5, 1000.0, 0.0, [1, 2], [1], [], [1000, 0], [1.0, 2]])]
            if rng.random() < 0.2:
                k += rng.choice([[1e-2, 1e-8], [1e-5, 1e-3], [1e-8, 1e-5], [0.0, 0.0], [1e-5, None], [None, 1e-5]])
            shared_leaf.append(k)
            return copy.deepcopy(k)
        if r < 0.82:
            return ["A"]
        if r < 0.85 and not in_or:
            return ["W", next(ids), rng.choice([True, True, False])]
        if r < 0.89:
            if shared_leaf and rng.random() < 0.3:
                return copy.deepcopy(rng.choice(shared_leaf))
            u = ["V", next(ids), None, rng.random() < 0.2, rng.choice([None, None, True, False])]
            shared_leaf.append(u)
            return copy.deepcopy(u)
        if depth < 2:
            if shared_or and rng.random() < 0.15:
                return copy.deepcopy(rng.choice(shared_or))
            k = rng.choice([2, 2, 3])
            alts = [atom(depth + 1, True) for _ in range(k)]
            tagvar = None
            tags = None
            oid = next(ids)
            if rng.random() < 0.4:
                tagvar = f"tag{oid}"
                if tagvars and rng.random() < 0.25:
                    # a tag variable shared with another OR value: the second bind clashes when the two select
                    # alternatives with different tags (BacktrackingOr: next alternative; OpIdDispatchOr: the
                    # result of bind is ignored, the partial match is failed)
                    tagvar = rng.choice(tagvars)
                tagvars.append(tagvar)
                if rng.random() < 0.4:
                    tags = [rng.randint(5, 9) for _ in range(k)]
            o = ["OR", oid, (f"or{oid}" if rng.random() < 0.25 else None), tagvar, tags, alts]
            if tagvar is None and not any(a[0] == "OR" and a[3] for a in alts):
                # an OR carrying a tag variable is used once: two uses selecting different alternatives make
                # merge_current_match raise ValueError (outside the modelled domain, see design_notes/C06.md)
                shared_or.append(o)
            return copy.deepcopy(o)
        return var()

    for np_i in range(n_nodes):
        op = rng.choice(OP_NAMES)
        nin, nout = OPS[op]
        ins = [atom() for _ in range(nin)]
        if nin >= 2 and rng.random() < 0.12:
            ins[rng.randrange(1, nin)] = None  # optional input expected to be absent
        if rng.random() < 0.05 and nin >= 2:
            ins = ins[:-1]  # pattern lists fewer inputs than the operator has
        attrs = []
        if rng.random() < 0.3:
            for name, a in rng.sample(ATTR_CHOICES, rng.choice([1, 1, 2])):
                if all(name != n0 for n0, _ in attrs):
                    attrs.append([name, copy.deepcopy(a)])
        outs = []
        for i in range(nout):
            r = rng.random()
            outs.append(None if r < 0.75 else (f"o{np_i}_{i}" if r < 0.96 else "x"))
        dom = ["e", ""]
        opp = ["e", op]
        r = rng.random()
        if r < 0.04:
            opp = ["p", op[:2]]
        elif r < 0.07:
            dom = ["p", ""]
        elif r < 0.09:
            dom = ["e", "pkg.x"]
        node = {
            "dom": dom,
            "op": opp,
            "aoa": rng.choice([None, None, None, True, False]),
            "aoi": rng.choice([None, None, None, None, False, True]),
            "check": rng.choice([None] * 17 + [True, True, False]),
            "inputs": ins,
            "attrs": attrs,
            "outputs": outs,
        }
        nodes.append(node)
        for i in range(nout):
            all_outs.append((np_i, i))
        # D2: usually only one output stays "open"
        open_outs.append((np_i, rng.randrange(nout)))
        if nout == 2 and rng.random() < 0.4:
            open_outs.append((np_i, 1 - open_outs[-1][1]))
    # pattern outputs: everything still open, last node first
    outs = [["O", a, b] for a, b in reversed(open_outs)]
    if not any(o[1] == n_nodes - 1 for o in outs):
        outs.insert(0, ["O", n_nodes - 1, 0])
    outs = outs[:4]
    if rng.random() < 0.03 and named:
        outs.append(copy.deepcopy(rng.choice(list(named.values()))))
    if rng.random() < 0.04 and shared_or:
        outs.append(copy.deepcopy(rng.choice(shared_or)))
    inputs = list(named)
    if rng.random() < 0.15:
        inputs.append("unused")
    rng.shuffle(inputs)
    p = {"cond": rng.random() > 0.03, "inputs": inputs, "nodes": nodes, "outputs": outs}
    if rng.random() < 0.25 and all(n["dom"][0] == "e" for n in nodes):
        # written as a pattern function (entry point _to_graph_pattern); attribute variables become parameters
        for n in nodes:
            for _, a in n["attrs"]:
                if a[0] == "v" and a[1] is not None and not a[2] and a[1] not in p["inputs"]:
                    p["inputs"].append(a[1])
        p["via"] = "callable"
    return p


# --------------------------------------------------------------------------- graphs from a pattern


def instantiate(p, rng, fidelity=0.93):
    """A host graph that contains (with probability ~fidelity per decision) an instance of `p`."""
    gnodes: list = []
    vids = itertools.count(0)
    env: dict = {}  # var name / ("leaf", id) -> vid | None
    nmap: dict = {}  # np -> host node index
    consts: list = []
    leaves: list = []

    def leaf():
        v = next(vids)
        leaves.append(v)
        return v

    def some_value():
        pool = leaves + [o for n in gnodes for o in n["outputs"]]
        if pool and rng.random() < 0.6:
            return rng.choice(pool)
        return leaf()

    def near(x):
        # a value within the default tolerances (rel 1e-5 / abs 1e-8) but outside swapped ones for large x,
        # and for 0 a value outside the default abs_tol but inside 1e-5
        return x + x * 2e-6 if x != 0 else 5e-6

    def const_for(c):
        v = next(vids)
        leaves.append(v)
        r = rng.random()
        if rng.random() < 0.15:
            if isinstance(c, list):
                consts.append([v, [len(c)], [near(x) if i == 0 else x for i, x in enumerate(c)]])
            else:
                consts.append([v, [], [near(c)]])
            return v
        if isinstance(c, list):
            shape, data = [len(c)], list(c)
            if r > fidelity:
                k = rng.random()
                if k < 0.4 and data:
                    data[rng.randrange(len(data))] += 1
                elif k < 0.7:
                    shape, data = [len(c) + 1], data + [3]
                else:
                    shape, data = [1, len(c)], data
        else:
            shape, data = [], [c]
            if r > fidelity:
                k = rng.random()
                if k < 0.5:
                    data = [c + 1]
                elif k < 0.8:
                    shape = [1]
                else:
                    shape, data = [1, 1], [c]
        consts.append([v, shape, data])
        return v

    def value_for(v):
        k = v[0]
        if k == "V":
            key = v[2] if v[2] is not None else ("leaf", v[1])
            if key in env and rng.random() < fidelity:
                return env[key]
            if v[3] and rng.random() < 0.3:
                val = None
            else:
                val = some_value() if rng.random() < 0.5 else leaf()
            env.setdefault(key, val)
            return val
        if k == "W":
            return some_value()
        if k == "A":
            return some_value() if rng.random() < 0.9 else None
        if k == "K":
            key = ("leaf", v[1])
            if key in env and rng.random() < fidelity:
                return env[key]
            val = const_for(v[2]) if rng.random() < 0.95 else leaf()
            env.setdefault(key, val)
            return val
        if k == "O":
            h = node_for(v[1])
            outs = gnodes[h]["outputs"]
            idx = v[2] if rng.random() < 0.97 else rng.randrange(len(outs))
            return outs[min(idx, len(outs) - 1)]
        if k == "OR":
            key = ("leaf", v[1])
            if key in env and rng.random() < fidelity:
                return env[key]
            val = value_for(rng.choice(v[5]))
            env.setdefault(key, val)
            if v[2] is not None:
                env.setdefault(v[2], val)
            return val
        raise ValueError(v)

    def node_for(np_i):
        if np_i in nmap and rng.random() < 0.97:
            return nmap[np_i]
        n = p["nodes"][np_i]
        ins = []
        for i in n["inputs"]:
            if i is None:
                ins.append(None if rng.random() < fidelity else some_value())
            else:
                ins.append(value_for(i))
        # trailing Nones may be omitted in ONNX
        while ins and ins[-1] is None and rng.random() < 0.6:
            ins.pop()
        op = n["op"][1] if n["op"][0] == "e" else n["op"][1] + rng.choice(["", "g", "Xy"])
        if rng.random() > 0.97:
            op = rng.choice(OP_NAMES)
        want = OPS.get(op, (len(ins), len(n["outputs"])))[0]
        if len(ins) < want and rng.random() < 0.7:
            ins += [some_value() for _ in range(want - len(ins))]  # the operator's remaining inputs
        elif rng.random() < 0.05:
            ins.append(some_value())
        dom = n["dom"][1] if n["dom"][0] == "e" else n["dom"][1] + rng.choice(["", "pkg.t"])
        if rng.random() > 0.98:
            dom = "other"
        attrs = []
        for name, a in n["attrs"]:
            r = rng.random()
            if a[0] == "c":
                val = a[1]
                if r < fidelity:
                    if isinstance(val, str):
                        attrs.append([name, "s", val])
                    elif isinstance(val, int):
                        attrs.append([name, rng.choice(["i", "i", "f"]), val])
                    else:
                        attrs.append([name, "is", list(val)])
                elif r < fidelity + 0.04:
                    cand = [h for h in HOST_ATTRS if h[0] == name]
                    # a scalar-number pattern against a list attribute raises TypeError (known finding): keep out
                    if not ALLOW_SCALAR_VS_LIST_ATTR:
                        cand = [h for h in cand if not (isinstance(val, int) and h[1] in ("is", "fs", "ss"))]
                    if cand:
                        attrs.append(list(copy.deepcopy(rng.choice(cand))))
            else:
                key = a[1]
                if key is not None and ("attr", key) in env and r < fidelity:
                    prev = env[("attr", key)]
                    if prev is not None:
                        attrs.append([name, prev[1], copy.deepcopy(prev[2])])
                elif a[2] and r < 0.3:
                    if key is not None:
                        env.setdefault(("attr", key), None)
                else:
                    cand = [h for h in HOST_ATTRS if h[0] == name] or [("x", "i", 1)]
                    h = copy.deepcopy(rng.choice(cand))
                    attrs.append([name, h[1], h[2]])
                    if key is not None:
                        env.setdefault(("attr", key), [name, h[1], h[2]])
        if rng.random() < (0.12 if n.get("aoa") is False else 0.05):
            if all(a[0] != "extra" for a in attrs):
                attrs.append(["extra", "i", 7])
        nout = len(n["outputs"])
        if rng.random() > 0.95 and nout > 1:
            nout -= 1
        elif rng.random() > 0.97:
            nout += 1
        nout = max(nout, 1)
        outs = [next(vids) for _ in range(nout)]
        gnodes.append({"dom": dom, "op": op, "ov": "ov" if rng.random() < 0.015 else "", "inputs": ins,
                       "attrs": attrs, "outputs": outs})
        nmap.setdefault(np_i, len(gnodes) - 1)
        return len(gnodes) - 1

    roots = []
    out_vals = []
    for o in p["outputs"]:
        if o[0] == "O":
            h = node_for(o[1])
            roots.append(h)
            outs = gnodes[h]["outputs"]
            out_vals.append(outs[min(o[2], len(outs) - 1)])
    # noise: extra consumers / unrelated nodes
    for _ in range(rng.choice([0, 0, 0, 1, 1, 2, 3])):
        op = rng.choice(OP_NAMES)
        nin, nout = OPS[op]
        gnodes.append({"dom": "", "op": op, "ov": "", "inputs": [some_value() for _ in range(nin)], "attrs": [],
                       "outputs": [next(vids) for _ in range(nout)]})
    produced = [o for n in gnodes for o in n["outputs"]]
    used = {i for n in gnodes for i in n["inputs"] if i is not None}
    gouts = list(dict.fromkeys(out_vals))
    for v in produced:
        if v not in gouts and ((v not in used and rng.random() < 0.8) or rng.random() < 0.05):
            gouts.append(v)
    foreign = [v for v in leaves if rng.random() < 0.03 and all(v != c[0] for c in consts)]
    ext = [v for v in produced if rng.random() < 0.03]
    g = {"nodes": gnodes, "outputs": gouts, "consts": consts, "foreign": foreign,
         "foreign_kind": rng.choice(["free", "outer"]), "ext": ext}
    if not gnodes:
        gnodes.append({"dom": "", "op": "Neg", "ov": "", "inputs": [leaf()], "attrs": [], "outputs": [next(vids)]})
        g["outputs"] = [gnodes[0]["outputs"][0]]
    if roots and rng.random() < 0.9:
        root = roots[0]
    else:
        root = rng.randrange(len(gnodes))
    return g, root


def gen_graph_random(rng, max_nodes=6):
    n = rng.randint(1, max_nodes)
    vids = itertools.count(3)
    leaves = [0, 1, 2]
    consts = [[2, [], [1]]]
    avail = list(leaves)
    nodes = []
    for _ in range(n):
        op = rng.choice(OP_NAMES)
        nin, nout = OPS[op]
        ins = [rng.choice(avail) for _ in range(nin)]
        outs = [next(vids) for _ in range(nout)]
        attrs = []
        if rng.random() < 0.15:
            attrs.append(list(copy.deepcopy(rng.choice(HOST_ATTRS))))
        nodes.append({"dom": "", "op": op, "ov": "", "inputs": ins, "attrs": attrs, "outputs": outs})
        avail += outs
    used = {i for nd in nodes for i in nd["inputs"]}
    gouts = [o for nd in nodes for o in nd["outputs"] if o not in used] or [nodes[-1]["outputs"][0]]
    return {"nodes": nodes, "outputs": gouts, "consts": consts, "foreign": [], "foreign_kind": "free", "ext": []}, rng.randrange(n)


def gen_case(rng, big=False):
    p = gen_pattern(rng, max_nodes=8 if big else 4)
    r = rng.random()
    if r < 0.85:
        g, root = instantiate(p, rng, fidelity=rng.choice([0.99, 0.95, 0.9, 0.8]))
    else:
        g, root = gen_graph_random(rng, 20 if big else 6)
    return {"pattern": p, "graph": g, "root": root, "rm": rng.random() < 0.7}


# --------------------------------------------------------------------------- bounded enumeration
# alphabet {U = Neg, C = Add (commutative), B = Sub, D = D2 (two outputs)}


def _atoms(n_prev_outs):
    """leaf atoms of the core language: x, y (named vars), K1, and outputs of earlier nodes"""
    return [("x",), ("y",), ("K",)] + [("O", a, b) for a, b in n_prev_outs]


def enum_patterns(max_nodes: int, features: bool = True):
    """All single-root core patterns with <= max_nodes node patterns (every earlier node is consumed by a
    later one; pattern outputs = the last node's outputs [+ D's second output]) and, on top of each core
    pattern, one variant per feature."""
    alphabet = [("Neg", 1, 1), ("Add", 2, 1), ("Sub", 2, 1), ("D2", 1, 2)]

    def build(core):
        ids = itertools.count(1)
        vmap = {}

        def mk(a):
            if a[0] in ("x", "y"):
                if a[0] not in vmap:
                    vmap[a[0]] = ["V", next(ids), a[0], False, None]
                return copy.deepcopy(vmap[a[0]])
            if a[0] == "K":
                return ["K", next(ids), 1]
            return ["O", a[1], a[2]]

        nodes = []
        for op, ins in core:
            nout = OPS[op][1]
            nodes.append({"dom": ["e", ""], "op": ["e", op], "aoa": None, "aoi": None, "check": None,
                          "inputs": [mk(a) for a in ins], "attrs": [], "outputs": [None] * nout})
        last = len(nodes) - 1
        outs = [["O", last, 0]]
        return {"cond": True, "inputs": sorted(vmap), "nodes": nodes, "outputs": outs}, ids

    def cores(k, prev):
        # prev: list of (op, ins) ; yields lists of nodes
        if k == 0:
            yield []
            return
        for rest in cores(k - 1, prev):
            outs = []
            for i, (op, _) in enumerate(rest):
                for j in range(OPS[op][1]):
                    outs.append((i, j))
            for op, nin, _ in alphabet:
                for ins in itertools.product(_atoms(outs), repeat=nin):
                    yield rest + [(op, list(ins))]

    seen = set()
    for k in range(1, max_nodes + 1):
        for core in cores(k, []):
            # connectivity: every non-last node is used by a later node
            usedn = {a[1] for _, ins in core for a in ins if a[0] == "O"}
            if any(i not in usedn for i in range(len(core) - 1)):
                continue
            # canonical variable naming: x before y
            flat = [a[0] for _, ins in core for a in ins if a[0] in ("x", "y")]
            if "y" in flat and ("x" not in flat or flat.index("y") < flat.index("x")):
                continue
            key = repr(core)
            if key in seen:
                continue
            seen.add(key)
            p, ids = build(core)
            yield p
            if not features:
                continue
            last = p["nodes"][-1]
            # feature variants (one at a time)
            q = copy.deepcopy(p)
            q["nodes"][-1]["attrs"] = [["axis", ["c", 1]]]
            yield q
            q = copy.deepcopy(p)
            q["nodes"][-1]["attrs"] = [["axis", ["v", "ax", False]]]
            q["nodes"][-1]["aoa"] = False
            yield q
            q = copy.deepcopy(p)
            q["nodes"][-1]["aoi"] = True
            yield q
            if len(last["inputs"]) == 2:
                q = copy.deepcopy(p)
                q["nodes"][-1]["inputs"][1] = None
                yield q
                q = copy.deepcopy(p)
                a, b = q["nodes"][-1]["inputs"]
                q["nodes"][-1]["inputs"][0] = ["OR", next(ids), None, None, None, [a, b]]
                yield q
            if len(p["nodes"]) >= 2:
                # OR over the first node's output and a variable (dispatch when both alts are nodes)
                q = copy.deepcopy(p)
                for n in q["nodes"][1:]:
                    for i, a in enumerate(n["inputs"]):
                        if a is not None and a[0] == "O" and a[1] == 0:
                            n["inputs"][i] = ["OR", next(ids), None, "tag", None, [a, ["V", 1, "x", False, None]]]
                            break
                    else:
                        continue
                    break
                q["inputs"] = sorted(set(q["inputs"]) | {"x"})
                yield q
            if last["op"][1] == "D2":
                q = copy.deepcopy(p)
                q["outputs"] = [["O", len(p["nodes"]) - 1, 0], ["O", len(p["nodes"]) - 1, 1]]
                yield q


def enum_graphs(max_nodes: int):
    """All host graphs with <= max_nodes nodes over the alphabet; leaves a=0, b=1, c=2 (constant 1);
    graph outputs = values without consumer. Symmetry a<->b pruned by first-use order."""
    alphabet = [("Neg", 1, 1), ("Add", 2, 1), ("Sub", 2, 1), ("D2", 1, 2)]

    def rec(k, nodes, avail, nxt):
        if nodes:
            flat = [i for n in nodes for i in n["inputs"] if i in (0, 1)]
            if not (1 in flat and (0 not in flat or flat.index(1) < flat.index(0))):
                used = {i for n in nodes for i in n["inputs"]}
                gouts = [o for n in nodes for o in n["outputs"] if o not in used]
                yield {"nodes": copy.deepcopy(nodes), "outputs": gouts, "consts": [[2, [], [1]]], "foreign": [],
                       "foreign_kind": "free", "ext": []}
        if k == 0:
            return
        for op, nin, nout in alphabet:
            for ins in itertools.product(avail, repeat=nin):
                outs = list(range(nxt, nxt + nout))
                nodes.append({"dom": "", "op": op, "ov": "", "inputs": list(ins), "attrs": [], "outputs": outs})
                yield from rec(k - 1, nodes, avail + outs, nxt + nout)
                nodes.pop()

    yield from rec(max_nodes, [], [0, 1, 2], 3)


def extend_graph(g, rng):
    """one more node (same alphabet, inputs among all existing values) on an enumerated graph"""
    g = copy.deepcopy(g)
    avail = [0, 1, 2] + [o for n in g["nodes"] for o in n["outputs"]]
    nxt = max(avail) + 1
    op, nin, nout = rng.choice([("Neg", 1, 1), ("Add", 2, 1), ("Sub", 2, 1), ("D2", 1, 2)])
    g["nodes"].append({"dom": "", "op": op, "ov": "", "inputs": [rng.choice(avail) for _ in range(nin)], "attrs": [],
                       "outputs": list(range(nxt, nxt + nout))})
    used = {i for n in g["nodes"] for i in n["inputs"]}
    g["outputs"] = [o for n in g["nodes"] for o in n["outputs"] if o not in used]
    return g


def tolerance_cases():
    """Constant patterns on commutative operators against constants that separate the default tolerances
    (rel 1e-5, abs 1e-8) from other ones, reached through the written and through the swapped operand order"""
    out = []
    x = ["V", 1, "x", False, None]
    for op in ("Mul", "Add"):
        for v, hosts in ((1000, [1000, 1000.001, 1001]), (0, [0, 5e-6, 0.02]),
                         (1000.0, [1000, 1000.001, 1001]), (0.0, [0, 5e-6, 0.02])):
            for tol in (None, [1e-2, 1e-8], [1e-8, 1e-5], [1e-5, None], [None, 1e-5]):
                k = ["K", 2, v] + (tol or [])
                for pins in ([x, k], [k, x]):
                    p = {"cond": True, "inputs": ["x"],
                         "nodes": [{"dom": ["e", ""], "op": ["e", op], "aoa": None, "aoi": None, "check": None,
                                    "inputs": copy.deepcopy(pins), "attrs": [], "outputs": [None]}],
                         "outputs": [["O", 0, 0]]}
                    for h in hosts:
                        for gins in ([0, 1], [1, 0]):
                            g = {"nodes": [{"dom": "", "op": op, "ov": "", "inputs": gins, "attrs": [], "outputs": [2]}],
                                 "outputs": [2], "consts": [[1, [], [h]]], "foreign": [], "foreign_kind": "free", "ext": []}
                            out.append({"pattern": p, "graph": g, "root": 0, "rm": False, "commute": True})
    return out


def tag_cases():
    """OR values with tag variables that are shared, clash, or coincide with a variable name: two OR values
    (OpIdDispatchOr over Neg/Sub outputs, or BacktrackingOr with a variable alternative) as the operands of one
    Add, the second one optionally wrapped in a BacktrackingOr (tagged or not), against hosts selecting equal /
    different alternatives.  Covers the ignored result of bind(tag_var, i) of OpIdDispatchOr (top level: the match
    fails; inside an alternative: finding C06-F9) and the repaired BacktrackingOr tag clash (C06-F8)."""
    out = []
    x = ["V", 1, "x", False, None]

    def node(op, ins):
        return {"aoa": None, "aoi": None, "attrs": [], "check": None, "dom": ["e", ""], "inputs": ins,
                "op": ["e", op], "outputs": [None]}

    def gnode(op, ins, outs):
        return {"attrs": [], "dom": "", "inputs": ins, "op": op, "outputs": outs, "ov": ""}

    hosts = [
        ([gnode("Neg", [0], [1]), gnode("Sub", [0, 0], [2]), gnode("Add", [1, 2], [3])], 2),
        ([gnode("Neg", [0], [1]), gnode("Sub", [0, 0], [2]), gnode("Add", [2, 1], [3])], 2),
        ([gnode("Neg", [0], [1]), gnode("Add", [1, 1], [2])], 1),
        ([gnode("Sub", [0, 0], [1]), gnode("Add", [1, 1], [2])], 1),
        ([gnode("Neg", [0], [1]), gnode("Add", [1, 0], [2])], 1),
    ]
    for kind1 in ("D", "B"):
        for kind2 in ("D", "B"):
            for tag2 in ("t", "u", "x", None):
                for tags2 in (None, [0, 0], [1, 0]):
                    for wrap in (None, "plain", "tagged-t", "tagged-w"):
                        def orv(oid, kind, tag, tags):
                            alts = [["O", 0, 0], ["O", 1, 0]] if kind == "D" else [["O", 0, 0], copy.deepcopy(x)]
                            return ["OR", oid, None, tag, tags if tag else None, alts]
                        o1 = orv(10, kind1, "t", None)
                        o2 = orv(11, kind2, tag2, tags2)
                        ins = ["x"]
                        if wrap:
                            wt = {"plain": None, "tagged-t": "t", "tagged-w": "w"}[wrap]
                            o2 = ["OR", 12, None, wt, None, [o2, ["V", 13, "y", False, None]]]
                            ins = ["x", "y"]
                        for operands in ([o1, o2], [o2, o1]):
                            p = {"cond": True, "inputs": ins,
                                 "nodes": [node("Neg", [copy.deepcopy(x)]),
                                           node("Sub", [copy.deepcopy(x), copy.deepcopy(x)]),
                                           node("Add", copy.deepcopy(operands))],
                                 "outputs": [["O", 2, 0]]}
                            for gn, root in hosts:
                                g = {"consts": [], "ext": [], "foreign": [], "foreign_kind": "free",
                                     "nodes": copy.deepcopy(gn), "outputs": [gn[-1]["outputs"][0]]}
                                out.append({"pattern": p, "graph": g, "root": root, "rm": False,
                                            "commute": operands[0] is o1})
    return out


# --------------------------------------------------------------------------- histories (re-used Pattern object)


def _multi_out(p) -> bool:
    return len({o[1] for o in p["outputs"] if o[0] == "O"}) >= 2


def _edit_ops(g, rng):
    """a k-for-k replacement: 1-3 nodes get another operator / domain / overload (same inputs and outputs, so the
    leaves and the value ids of the graph stay); or two inputs of one node are exchanged"""
    g2 = copy.deepcopy(g)
    ops = sorted({n["op"] for n in g["nodes"]} | {"Neg", "Add", "Zz"})
    for i in rng.sample(range(len(g2["nodes"])), min(len(g2["nodes"]), rng.choice([1, 1, 2, 3]))):
        n = g2["nodes"][i]
        r = rng.random()
        if r < 0.75:
            n["op"] = rng.choice([o for o in ops if o != n["op"]])
        elif r < 0.85:
            n["dom"] = "other" if n["dom"] == "" else ""
        elif len(n["inputs"]) >= 2:
            n["inputs"][0], n["inputs"][1] = n["inputs"][1], n["inputs"][0]
        else:
            n["op"] = rng.choice([o for o in ops if o != n["op"]])
    return g2


def _edit_append(g, rng):
    """one more node at the end (the node count changes), consuming existing values"""
    g2 = copy.deepcopy(g)
    avail = sorted({i for n in g["nodes"] for i in n["inputs"] if i is not None} | {o for n in g["nodes"] for o in n["outputs"]})
    nxt = max(avail + [o for o in g["outputs"]] + [c[0] for c in g["consts"]] + list(g.get("foreign", []))) + 1
    op = rng.choice(sorted({n["op"] for n in g["nodes"]} | {"Neg"}))
    nin, nout = OPS.get(op, (1, 1))
    g2["nodes"].append({"dom": "", "op": op, "ov": "", "inputs": [rng.choice(avail) for _ in range(nin)], "attrs": [],
                        "outputs": list(range(nxt, nxt + nout))})
    return g2


def history_cases(rng, n):
    """Histories on ONE Pattern object and ONE host graph object: match, edit the graph in place, match again
    (and a third time after editing back).  Half of the patterns have several output nodes (the candidate tables
    of SimplePatternMatcher.match are built per call); the graph that is an instance of the pattern comes first or
    second; edits keep the node count (k-for-k replacement) in ~80 % of the histories and change it otherwise."""
    out = []
    tries = 0
    while len(out) < n and tries < 50 * n:
        tries += 1
        want_multi = len(out) % 2 == 0
        c = gen_case(rng)
        if _multi_out(c["pattern"]) != want_multi:
            continue
        g = c["graph"]
        if not g["nodes"]:
            continue
        other = _edit_ops(g, rng) if rng.random() < 0.8 else _edit_append(g, rng)
        same_count = len(other["nodes"]) == len(g["nodes"])
        seq = [g, other] if rng.random() < 0.5 else [other, g]
        if rng.random() < 0.4:
            seq.append(seq[0])
        root = c["root"]
        if root >= min(len(x["nodes"]) for x in seq):
            continue
        roots = [root] * len(seq)
        if rng.random() < 0.3:
            # another root first: the first call fails early (or matches elsewhere), the later ones are the real test
            roots[0] = rng.randrange(len(seq[0]["nodes"]))
        rms = [c["rm"] if rng.random() < 0.8 else (not c["rm"]) for _ in seq]
        out.append({"pattern": c["pattern"], "graph": seq[0], "root": roots[0], "rm": rms[0], "commute": False,
                    "hist": [{"graph": x, "root": r, "rm": m} for x, r, m in zip(seq[1:], roots[1:], rms[1:])],
                    "hist_same_count": same_count})
    return out
