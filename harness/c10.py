"""C10 — opset version conversion yields a valid, equivalent model at the target version.

Proof obligations: lean/OV/Props/C10.lean (model: lean/OV/Model/C10VersionConv.lean).
Tie: correspondence.  Every generated case (model shape x source opset x target x entry x fallback) is
run through the real `onnxscript.version_converter.convert_version` (ir.Model / ModelProto entry) or the
inner `_version_converter.convert_version` (native entry) and through the compiled Lean model; the
canonical observations (exception class, declared opsets at model / functions / proto, per-node version
stamps and adapter-relevant attributes, inputs, initializers) must be equal.
Oracle (search + findings): an independent opset-consistency/meaning walker, onnx.checker, and
onnxruntime before/after numerics.
Round 5: histories (the same object converted 2..4 times: driver `hist`, model `convertHistory`, theorems
`history_equivalent*`), a pass object reused on a second model vs a fresh call, conversion after optimizer.optimize,
subgraph owners other than `If`, required opset-boundary counters.
"""
from __future__ import annotations

import copy
import itertools
import json
import logging
from collections import Counter

import numpy as np

from harness import c10_lib as L
from harness import core

PROP_MODULES = ["OV.Props.C10", "OV.Props.C10Table"]
SRC = [
    ("onnxscript/version_converter/_version_converter.py",
     ["version_supported", "_get_onnx_opset_version", "_set_onnx_opset_version", "dft_19_20", "gridsample_19_20",
      "groupnormalization_20_21", "_VersionConverter.process_node", "_VersionConverter.visit_node",
      "_VersionConverter.visit_attribute", "_VersionConverter.visit_graph_or_function",
      "_VersionConverter.visit_model", "convert_version", "AdapterRegistry.lookup_adapters"]),
    ("onnxscript/version_converter/__init__.py",
     ["ConvertVersionPass.call", "ConvertVersionPass.__init__", "_ConvertVersionPassRequiresInline.call", "convert_version",
      "_restore_metadata"]),
    ("onnxscript/version_converter/_c_api_utils.py", ["call_onnx_api"]),
    ("onnxscript/_framework_apis/torch_2_9.py", ["convert_version"]),
]

# --------------------------------------------------------------------------- case generation


def leaf(op, d=1, v=None, ref=0):
    return {"d": d, "v": v, "ref": ref, "op": op}


def node(op, d=1, v=None, ref=0, bodies=None):
    return {"d": d, "v": v, "ref": ref, "op": op, "bodies": bodies or []}


def P(name="Relu"):
    return {"k": "P", "name": name}


def GS(mode=None, align=None, pad=None):
    return {"k": "GS", "mode": mode, "align": align, "pad": pad}


def DFT(axis=None, inv=None, one=None, ln=0, axis_in=None, rank=3):
    return {"k": "DFT", "axis": axis, "inv": inv, "one": one, "len": ln, "axisIn": axis_in, "rank": rank}


def GN(g=2, c=4, s_len=None, b_len=None, eps=None, has_s=1, has_b=1, xv="k", sv="k", bv="k"):
    s_len = g if s_len is None else s_len
    b_len = s_len if b_len is None else b_len
    return {"k": "GN", "hasS": has_s, "hasB": has_b, "g": g, "eps": L.eps_token(eps), "c": c,
            "sLen": s_len, "bLen": b_len, "xVis": xv, "sVis": sv, "bVis": bv}


def valid_gs(rng, s):
    if s <= 19:
        mode = rng.choice([None, "bilinear", "bicubic", "nearest", "bilinear", "bicubic"])
    else:
        mode = rng.choice([None, "linear", "cubic", "nearest"])
    return GS(mode, rng.choice([None, 0, 1]), rng.choice([None, "zeros", "border", "reflection"]))


def valid_dft(rng, s, allow_d23=False):
    rank = rng.choice([3, 4])
    ln = rng.choice([0, 1])
    inv, one = rng.choice([(None, None), (0, 0), (1, None), (None, 1), (0, 1)])
    if s <= 19:
        axes = [0, 1, 2, -2, -3] if rank == 4 else [0, 1, -2]
        axes += [None, None]
        return DFT(rng.choice(axes), inv, one, ln, None, rank)
    return DFT(None, inv, one, ln, rng.choice([None, 0, 1, -2] + ([2] if rank == 4 else [])), rank)


def valid_gn(rng, s, findings_ok=False):
    """A GroupNormalization valid at opset s; unless `findings_ok`, outside the predicates of D13/D24."""
    c = rng.choice([2, 4, 6, 8])
    g = rng.choice([d for d in (1, 2, 3, 4) if c % d == 0])
    if rng.random() < 0.2:
        g = c
    eps = rng.choice([None, 1e-5, 0.5, 0.01])
    if s <= 20:
        op = GN(g, c, g, g, eps)
    else:
        op = GN(g, c, c, c, eps)
    if True:
        r = rng.random()
        if r < 0.15:
            op["xVis"] = "s"
        elif r < 0.25:
            op["xVis"] = "m"
        r = rng.random()
        if r < 0.12:
            op["sVis"] = rng.choice(["m", "s"])
        elif r < 0.24:
            op["bVis"] = rng.choice(["m", "s"])
    return op


def rand_op(rng, s, findings_ok=False):
    r = rng.random()
    if r < 0.22:
        return P(rng.choice(["Relu", "Abs", "Neg"]))
    if r < 0.48:
        return valid_gs(rng, s)
    if r < 0.72:
        return valid_dft(rng, s, allow_d23=findings_ok)
    return valid_gn(rng, s, findings_ok)


def owner(rng):
    """Operator that owns the subgraphs: mostly `If`; also the other operators with a graph attribute (`body` of
    Loop / Scan / SequenceMap) and one GRAPHS-typed attribute (`MultiBody`) — the converter descends into every
    graph-valued attribute of every default-domain node, whatever its operator."""
    return rng.choice(["If", "If", "If", "Loop", "Scan", "SequenceMap", "MultiBody"])


def gen_consistent(rng, s, shape):
    """Self-consistent model at opset s (inputs of the property): versions unset or equal to s."""
    nodes, funcs = [], []
    valnames = False

    def vers():
        return rng.choice([None, None, None, s])

    if shape == "plain":
        nodes = [node(P("Relu"), v=vers()), node(P(), d=0), node(P("Abs"), v=vers())]
    elif shape == "gs":
        nodes = [node(valid_gs(rng, s), v=vers()), node(P("Relu"))]
    elif shape == "dft":
        nodes = [node(valid_dft(rng, s), v=vers()), node(valid_dft(rng, s))]
    elif shape == "gn":
        nodes = [node(valid_gn(rng, s), v=vers()), node(P("Neg"))]
    elif shape == "sub":
        def body(depth):
            out = [leaf(rand_op(rng, s), v=vers()) for _ in range(rng.choice([1, 2]))]
            if depth > 0 and rng.random() < 0.5:
                out.insert(rng.randrange(len(out) + 1), node(P(owner(rng)), v=vers(), bodies=[body(depth - 1), body(depth - 1)]))
            return out

        nodes = [node(rand_op(rng, s)), node(P(owner(rng)), bodies=[body(2), body(2)]), node(rand_op(rng, s))]
        if rng.random() < 0.5:
            # exporter-style names for the body outputs, and a node after the If that an adapter rewrites
            valnames = True
            nodes.append(node(valid_dft(rng, s) if rng.random() < 0.6 else valid_gn(rng, s)))
    elif shape == "func":
        fn = [node(rand_op(rng, s)) for _ in range(rng.choice([1, 2]))]
        if rng.random() < 0.3:
            fn.append(node(P(owner(rng)), bodies=[[leaf(rand_op(rng, s))], [leaf(rand_op(rng, s))]]))
        no_axis_input(fn)
        if rng.random() < 0.5:
            fn.insert(rng.randrange(len(fn) + 1), node(P("Foo"), d=0))  # a domain only the function imports
        funcs = [{"decl": s, "ai": None, "nodes": fn}]
        nodes = [node(rand_op(rng, s)), node({"k": "CALL", "f": 0}, d=0)]
        if rng.random() < 0.4:
            nodes.append(node({"k": "CALL", "f": 0}, d=0))
    elif shape == "mix":
        nodes = [node(rand_op(rng, s), v=vers()) for _ in range(rng.randint(1, 4))]
        if rng.random() < 0.3:
            nodes.insert(rng.randrange(len(nodes) + 1), node(P(), d=0))
    elif shape == "empty":
        nodes = [node(P(), d=0)] if rng.random() < 0.5 else []
    else:
        raise ValueError(shape)
    return {"decl": s, "ai": None, "nodes": nodes, "funcs": funcs,
            "extra_inits": rng.choice([0, 0, 1, 2, 3, 3, 4]), "valnames": valnames}


def no_axis_input(nodes):
    """Inside a function the DFT axis input would be a function parameter (not a visible constant)."""
    for m in L.iter_nodes(nodes):
        if m["op"]["k"] == "DFT":
            m["op"]["axisIn"] = None


SHAPES = ["plain", "gs", "dft", "gn", "sub", "func", "mix", "empty"]


def gen_adversarial(rng):
    """Tie-only cases: inconsistent inputs that reach the rarely hit branches (explicit mixed node
    versions, ref attributes, missing / clashing default-domain imports, bad GroupNormalization inputs)."""
    s = rng.choice([17, 18, 19, 20, 21, 22, 25])
    entry = rng.choice(["native", "native", "ir", "proto"])

    def vv():
        return rng.choice([None, None, s, 18, 19, 20, 21, 23])

    def aop():
        r = rng.random()
        if r < 0.3:
            op = valid_gn(rng, rng.choice([18, 20, 21]), findings_ok=True)
            if rng.random() < 0.25:
                op["hasB"] = 0
            if rng.random() < 0.12:
                op["hasS"] = 0
            if rng.random() < 0.15:
                op["g"] = None
            if rng.random() < 0.2:
                op["sLen"] = rng.choice([op["c"], 1, 3])
            if rng.random() < 0.2:
                op["bLen"] = rng.choice([op["c"], 1, 3])
            return op
        if r < 0.5:
            op = valid_gs(rng, rng.choice([18, 21]))
            return op
        if r < 0.7:
            return valid_dft(rng, rng.choice([18, 21]), allow_d23=True)
        return P(rng.choice(["Relu", "Abs"]))

    def anode(allow_body=True):
        n = node(aop(), d=0 if rng.random() < 0.1 else 1, v=vv(), ref=1 if rng.random() < 0.07 else 0)
        if allow_body and rng.random() < 0.25:
            def abody(depth):
                out = [leaf(aop(), d=0 if rng.random() < 0.1 else 1, v=vv(), ref=1 if rng.random() < 0.1 else 0)
                       for _ in range(rng.choice([1, 2]))]
                if depth > 0 and rng.random() < 0.4:
                    out.append(node(P(owner(rng)), v=vv(), ref=1 if rng.random() < 0.05 else 0,
                                    bodies=[abody(depth - 1), abody(depth - 1)]))
                return out

            n = node(P(owner(rng)), v=vv(), ref=1 if rng.random() < 0.05 else 0, bodies=[abody(2), abody(2)])
        return n

    nodes = [anode() for _ in range(rng.randint(0, 4))]
    funcs = []
    decl, ai = s, None
    if entry == "native":
        r = rng.random()
        if r < 0.15:
            decl, ai = None, s
        elif r < 0.25:
            decl, ai = s, s
        elif r < 0.33:
            decl, ai = s, s + 1
        elif r < 0.43:
            decl, ai = None, None
        for _ in range(rng.choice([0, 0, 1, 2])):
            funcs.append({"decl": rng.choice([s, None, 18, 21]), "ai": rng.choice([None, None, s]),
                          "nodes": [anode() for _ in range(rng.randint(0, 3))]})
            no_axis_input(funcs[-1]["nodes"])
        if funcs and rng.random() < 0.7:
            nodes.append(node({"k": "CALL", "f": 0}, d=0))
    else:
        # no ref attributes in API-entry cases that go through the inliner with functions
        if rng.random() < 0.2:
            clash = rng.random() < 0.4
            funcs = [{"decl": (s + 1) if clash else s, "ai": None, "nodes": [node(aop()) for _ in range(rng.randint(1, 2))]}]
            no_axis_input(funcs[-1]["nodes"])
            nodes.append(node({"k": "CALL", "f": 0}, d=0))
        if rng.random() < 0.15:
            decl, ai = (None, s) if rng.random() < 0.5 else (s, s)
    # a DFT read at opset <= 19 takes its axis as an attribute: an `axis` input there would be dropped by the
    # rewrite and its initializer removed by the clean-up passes (A-ir), which the model does not track
    for m in L.iter_nodes(nodes + [m for f in funcs for m in f["nodes"]]):
        # (a proto drops the stamps, so either the stamp or a declared opset may be the one that counts)
        cands = [x for x in (m["v"], decl, ai) + tuple(f["decl"] for f in funcs) if x is not None]
        if m["op"]["k"] == "DFT" and m["op"]["axisIn"] is not None and cands and min(cands) <= 19:
            m["op"]["axis"], m["op"]["axisIn"] = m["op"]["axisIn"], None
    return {"decl": decl, "ai": ai, "nodes": nodes, "funcs": funcs, "extra_inits": rng.choice([0, 0, 1, 3, 4]),
            "entry": entry, "fb": rng.choice(["none", "yes", "no"]),
            "target": rng.choice([17, 18, 19, 20, 21, 22, 24, 25, 26]), "adversarial": True}


# --------------------------------------------------------------------------- running the real code


class CapiSpy:
    """Records whether the ONNX C-API converter was called and whether it returned (contract parameter)."""

    def __init__(self):
        import onnx.version_converter as ovc

        self.ovc = ovc
        self.orig = ovc.convert_version
        self.called = False
        self.ok = False

    def __enter__(self):
        def spy(proto, target_version):
            self.called = True
            self.seen_inputs = [i.name for i in proto.graph.input]
            self.seen_inits = [i.name for i in proto.graph.initializer]
            r = self.orig(proto, target_version)
            self.ret = r
            self.ok = True
            return r

        self.ovc.convert_version = spy
        return self

    def __exit__(self, *a):
        self.ovc.convert_version = self.orig


def err_name(ex) -> str:
    n = type(ex).__name__
    return n if n in ("VersionConverterError", "ValueError", "PassError") else f"other:{n}"


def obs_proto(proto, err):
    import onnx_ir as ir

    m = ir.from_proto(proto)
    s = L.obs_model(m, err)
    # the declared opsets as the proto itself states them
    d = {o.domain: o.version for o in proto.opset_import}
    parts = s.split(" ")
    parts[1] = f"decl={L._o(d.get(''))}"
    parts[2] = f"ai={L._o(d.get('ai.onnx'))}"
    return " ".join(parts)


def run_real(case: dict):
    """Returns dict(obs, pre_obs, inputs, inits, capi_called, capi_ok, before_proto, after_proto)."""
    import onnx
    import onnx_ir as ir
    from onnxscript import version_converter as vc
    from onnxscript.version_converter import _version_converter as nvc

    proto = L.build_proto(case)
    before = onnx.ModelProto()
    before.CopyFrom(proto)
    fb = {"none": None, "yes": True, "no": False}[case["fb"]]
    err = "none"
    out = {}
    with CapiSpy() as spy:
        if case["entry"] == "proto":
            pre = ir.from_proto(proto)
            out["inputs"] = [v.name for v in pre.graph.inputs]
            out["inits"] = list(pre.graph.initializers.keys())
            try:
                vc.convert_version(proto, case["target"], fallback=fb)
            except Exception as ex:  # noqa: BLE001
                err = err_name(ex)
            out["obs"] = obs_proto(proto, err)
            out["after_proto"] = proto
        else:
            m = ir.from_proto(proto)
            L.apply_versions(m, case)
            out["inputs"] = [v.name for v in m.graph.inputs]
            out["inits"] = list(m.graph.initializers.keys())
            try:
                if case["entry"] == "ir" and fb is True:
                    # the stable torch API: convert_version(model, v) == convert_version(model, v, fallback=True)
                    from onnxscript._framework_apis import torch_2_9

                    if torch_2_9.convert_version(m, case["target"]) is not m:
                        err = "other:torch_2_9-returned-another-object"
                elif case["entry"] == "ir":
                    vc.convert_version(m, case["target"], fallback=fb)
                else:
                    nvc.convert_version(m, case["target"])
            except Exception as ex:  # noqa: BLE001
                err = err_name(ex)
            out["obs"] = L.obs_model(m, err)
            try:
                out["after_proto"] = ir.to_proto(m)
            except Exception:  # noqa: BLE001
                out["after_proto"] = None
            out["after_ir"] = m
    out.update(err=err, capi_called=spy.called, capi_ok=spy.ok, before_proto=before,
               capi_seen=(getattr(spy, "seen_inputs", None), getattr(spy, "seen_inits", None)),
               capi_ret=getattr(spy, "ret", None))
    return out


def normalise_capi(obs: str) -> str:
    """On the C-API success path the returned nodes are the contract's: keep only 'all versions unset'."""
    parts = obs.split(" ")
    for i, p in enumerate(parts):
        if p.startswith("nodes="):
            body = p[len("nodes="):]
            nodes = [n for n in body.split(";") if n]
            if all("@_/" in n for n in nodes):
                parts[i] = "nodes=10@_/P:CAPI"
    return " ".join(parts)


def sort_inits(obs: str) -> str:
    """Initializers live in a dict: their order is not an observation.  Inside a function body the
    inputs of a node are function parameters, which carry neither shape nor constant value: the
    visibility fields of GroupNormalization there are not compared (the native-entry cases are
    *encoded* with `missing` so that the adapters' decisions are)."""
    import re

    parts = obs.split(" ")
    for i, p in enumerate(parts):
        if p.startswith("init="):
            parts[i] = "init=" + ",".join(sorted(p[5:].split(",")))
        if p.startswith("funcs="):
            parts[i] = re.sub(r"(GN:\d\d\d:[^:]*:[^:]*):[msk]{3}:[^:;,}|]*:[^:;,}|]*:[^:;,}|]*", r"\1:***", p)
    return " ".join(parts)


def hide_function_shapes(case: dict) -> dict:
    """Case as the converter sees it when functions are visited in place (native entry)."""
    c = copy.deepcopy(case)
    for f in c["funcs"]:
        for m in L.iter_nodes(f["nodes"]):
            if m["op"]["k"] == "GN":
                m["op"].update(xVis="m", sVis="m", bVis="m")
    return c


# --------------------------------------------------------------------------- the property's oracle (independent walker)


def gs_meaning(op, v):
    m = op["mode"]
    if v <= 19:
        t = {None: "linear", "bilinear": "linear", "bicubic": "cubic", "nearest": "nearest"}.get(m)
    else:
        t = {None: "linear", "linear": "linear", "cubic": "cubic", "nearest": "nearest"}.get(m)
    return None if t is None else ("GS", t, op["align"] or 0, op["pad"] or "zeros")


def dft_meaning(op, v, rank):
    if v <= 19:
        if op["axisIn"] is not None:
            return None
        ax = 1 if op["axis"] is None else op["axis"]
    else:
        if op["axis"] is not None:
            return None
        ax = -2 if op["axisIn"] is None else op["axisIn"]
    if ax == "?":
        return None
    ax = ax + rank if ax < 0 else ax
    return ("DFT", ax, op["inv"] or 0, op["one"] or 0, op["len"])


def walk_after(model_ir):
    """Observation tokens of the default-domain nodes of the converted IR model with effective versions."""
    decl = model_ir.opset_imports.get("")
    out = []

    def rec(g):
        for n in g:
            if n.domain == "":
                out.append((n.op_type, n.version if n.version is not None else decl, L.obs_op(n), n))
            for a in n.attributes.values():
                if a.is_ref():
                    continue
                if a.type.name == "GRAPH":
                    rec(a.as_graph())
                elif a.type.name == "GRAPHS":
                    for s in a.as_graphs():
                        rec(s)

    rec(model_ir.graph)
    for f in model_ir.functions.values():
        rec(f)
    return decl, out


def parse_obs_op(tok: str):
    k = tok.split(":")
    if k[0] == "GS":
        return {"k": "GS", "mode": None if k[1] == "_" else k[1], "align": None if k[2] == "_" else int(k[2]),
                "pad": None if k[3] == "_" else k[3]}
    if k[0] == "DFT":
        f = lambda x: None if x == "_" else ("?" if x == "?" else int(x))  # noqa: E731
        return {"k": "DFT", "axis": f(k[1]), "inv": f(k[2]), "one": f(k[3]), "len": int(k[4]), "axisIn": f(k[5])}
    if k[0] == "GN":
        return {"k": "GN", "has": k[1], "g": None if k[2] == "_" else int(k[2]), "eps": None if k[3] == "_" else k[3]}
    return {"k": k[0], "name": k[1] if len(k) > 1 else ""}


def all_case_nodes(case):
    """Default-domain case nodes in visiting order (after inlining for API entries)."""
    out = []

    def rec(nodes):
        for n in nodes:
            if n["op"]["k"] == "CALL":
                if case["entry"] != "native":
                    rec(case["funcs"][n["op"]["f"]]["nodes"])
                continue
            out.append(n)
            for b in n.get("bodies", []):
                rec(b)

    rec(case["nodes"])
    for _ in range(case.get("extra_inits", 0)):
        out.append({"d": 1, "v": None, "ref": 0, "op": {"k": "P", "name": "Add"}})
    if case["entry"] == "native":
        for f in case["funcs"]:
            rec(f["nodes"])
    return [n for n in out if n["d"] == 1]


def gn_scale_len_after(n_ir):
    """Run-time length of the scale input of a converted GroupNormalization (through the Reshape/Expand chain)."""
    def length(v):
        if v is None:
            return None
        c = v.const_value
        if c is not None:
            return int(np.asarray(c.numpy()).size)
        p = v.producer()
        if p is not None and p.op_type == "Reshape":
            return length(p.inputs[0])
        if p is not None and p.op_type == "Expand":
            base = length(p.inputs[0])
            shp = L._const_of(p.inputs[1])
            if shp is None:
                # run-time ratio: Expand(·, Concat([1], Div(Shape(x,1,2), Shape(value))))
                cc = p.inputs[1].producer()
                dv = cc.inputs[1].producer() if cc is not None and cc.op_type == "Concat" and len(cc.inputs) == 2 else None
                if (dv is not None and dv.op_type == "Div" and all(i.producer() is not None and i.producer().op_type == "Shape" for i in dv.inputs)
                        and dv.inputs[1].producer().inputs[0] is p.inputs[0].producer().inputs[0]
                        and dv.inputs[0].producer().inputs[0] is n_ir.inputs[0]):
                    return ("C/len", base)
                return None
            if base is None:
                return None
            if isinstance(base, tuple):  # a chain on top of a run-time-ratio chain (a node rewritten twice)
                return ("mul", base, int(np.prod(shp)))
            return base * int(np.prod(shp))
        if v.shape is not None and len(v.shape) == 1 and isinstance(v.shape[0], int):
            return v.shape[0]
        return None

    ins = list(n_ir.inputs)
    return length(ins[1]) if len(ins) > 1 else None


def undeclared_domains(proto) -> set:
    """Operator domains used by a node of the main graph (subgraphs included) without an opset import of the model.
    (Calls of model-local functions use the function's domain, which the model imports like any other.)"""
    norm = lambda d: "" if d == "ai.onnx" else d  # noqa: E731
    declared = {norm(o.domain) for o in proto.opset_import}
    used = set()

    def rec(nodes):
        for n in nodes:
            used.add(norm(n.domain))
            for a in n.attribute:
                if a.type == 5:
                    rec(a.g.node)
                elif a.type == 10:
                    for sg in a.graphs:
                        rec(sg.node)

    rec(proto.graph.node)
    return used - declared


def ort_loads(proto) -> str:
    import onnxruntime as ort

    ort.set_default_logger_severity(4)
    try:
        so = ort.SessionOptions()
        so.graph_optimization_level = ort.GraphOptimizationLevel.ORT_DISABLE_ALL
        so.log_severity_level = 4
        ort.InferenceSession(proto.SerializeToString(), so, providers=["CPUExecutionProvider"])
        return ""
    except Exception as e:  # noqa: BLE001
        return str(e)[-200:]


def duplicate_names(graph) -> set:
    """Names defined twice in one graph, or defined in a subgraph although an enclosing graph defines them
    (the ONNX IR rule onnxruntime enforces; sibling subgraphs may reuse names)."""
    dup = set()

    def defs(g):
        out = [i.name for i in g.input]
        out += [i.name for i in g.initializer if i.name not in set(out)]
        for n in g.node:
            out += [o for o in n.output if o]
        return out

    def rec(g, outer: set):
        mine = defs(g)
        seen = set()
        for n in mine:
            if n in seen or n in outer:
                dup.add(n)
            seen.add(n)
        for n in g.node:
            for a in n.attribute:
                if a.type == 5:
                    rec(a.g, outer | seen)
                elif a.type == 10:
                    for sg in a.graphs:
                        rec(sg, outer | seen)

    rec(graph, set())
    return dup


def judge(case, real) -> list[tuple[str, str]]:
    """Property verdict on the real result for a self-consistent input: list of (finding-class | '', what)."""
    problems = []
    s, t = case["decl"], case["target"]
    obs = real["obs"]
    fields = dict(p.split("=", 1) for p in obs.split(" "))
    decl_after = None if fields["decl"] == "_" else int(fields["decl"])
    src_nodes = all_case_nodes(case)
    if case["entry"] == "proto" and real["err"] != "none":
        # an exception must leave the caller's proto exactly as it was
        if real["before_proto"].SerializeToString(deterministic=True) != real["after_proto"].SerializeToString(deterministic=True):
            problems.append(("", f"exception {real['err']} but the ModelProto was modified"))
        return problems
    after_ir = real.get("after_ir")
    if after_ir is None:
        import onnx_ir as ir

        after_ir = ir.from_proto(real["after_proto"])
    _, after = walk_after(after_ir)
    if case["entry"] == "proto":
        # the proto's own declaration decides the effective version of its nodes
        after = [(o, decl_after, tok, n) for (o, _v, tok, n) in after]
    principal = [a for a in after if a[0] not in ("Constant", "Reshape", "Expand") or a[2].startswith("P:Constant") is False and a[0] == "Constant" and False]
    principal = [a for a in after if not (a[0] in ("Reshape", "Expand", "Shape", "Div", "Concat") or a[2].startswith("K:"))]
    # signature and initializers
    bp, ap = real["before_proto"], real["after_proto"]
    if ap is not None:
        if [o.name for o in bp.graph.output] != [o.name for o in ap.graph.output]:
            problems.append(("", "graph outputs changed"))
        if [i.name for i in bp.graph.input] != [i.name for i in ap.graph.input]:
            problems.append(("", f"graph inputs changed: {[i.name for i in bp.graph.input]} -> {[i.name for i in ap.graph.input]}"))
        bi = {i.name: i.SerializeToString() for i in bp.graph.initializer}
        ai_ = {i.name: i.SerializeToString() for i in ap.graph.initializer}
        if bi != ai_:
            problems.append(("", f"initializers changed: {sorted(set(bi) ^ set(ai_))}"))
    if ap is not None and real["err"] == "none":
        und = undeclared_domains(ap)
        if und:
            problems.append(("", f"converted model uses operator domain(s) {sorted(und)} without an opset import "
                                 f"(declared: {sorted(o.domain for o in ap.opset_import)})"))
    if ap is not None and real["err"] == "none" and not (real["capi_called"] and real["capi_ok"]):
        dup = duplicate_names(ap.graph)
        if dup:
            problems.append(("",
                             f"converted model is not in SSA form: {sorted(dup)[:3]} defined more than once (graph + subgraphs)"))
        if case.get("valnames") and runnable(case) and not ort_loads(real["before_proto"]):
            why = ort_loads(ap)
            if why:
                problems.append(("", f"onnxruntime loads the source model but rejects the converted one: …{why[-150:]}"))
    if real["capi_called"] and real["capi_ok"]:
        if decl_after != t:
            problems.append(("", f"C-API path: declared {decl_after}, target {t}"))
        return problems
    converted = real["err"] == "none" and decl_after == t and s != t
    if not converted:
        # must be left as it was: same declared opset, same principal nodes with their source meaning
        if decl_after != s and not (real["err"] == "none" and s == t):
            problems.append(("", f"not converted (err={real['err']}) but declared opset went {s} -> {decl_after}"))
        if len(principal) != len(src_nodes):
            problems.append(("", f"not converted (err={real['err']}) but node count changed"))
        else:
            for cn, (o, v, tok, n) in zip(src_nodes, principal):
                if v != s:
                    problems.append(("", f"not converted but node {o} has effective version {v} in a model at {s}"))
                    break
        return problems
    if len(principal) != len(src_nodes):
        problems.append(("", f"principal node count {len(src_nodes)} -> {len(principal)}"))
        return problems
    for cn, (o, v, tok, n) in zip(src_nodes, principal):
        op = cn["op"]
        cls = finding_class(op, s, t)
        if v != t:
            problems.append((cls, f"{o}: effective version {v} != target {t}"))
            continue
        a = parse_obs_op(tok)
        if op["k"] == "GS":
            if a["k"] != "GS" or gs_meaning(a, t) is None or gs_meaning(a, t) != gs_meaning(op, s):
                problems.append((cls, f"GridSample meaning {gs_meaning(op, s)}@{s} -> {gs_meaning(a, t) if a['k'] == 'GS' else a}@{t}"))
        elif op["k"] == "DFT":
            before_m = dft_meaning(op, s, op["rank"])
            after_m = dft_meaning(a, t, op["rank"]) if a["k"] == "DFT" else None
            if after_m is None or before_m != after_m:
                problems.append((cls, f"DFT meaning (axis,inverse,onesided,len) {before_m}@{s} -> {after_m}@{t} (rank {op['rank']})"))
        elif op["k"] == "GN":
            if a["k"] != "GN":
                problems.append((cls, "GroupNormalization disappeared"))
                continue
            eps_b = 1e-5 if op["eps"] is None else float(op["eps"])
            eps_a = 1e-5 if a["eps"] is None else float(a["eps"])
            if abs(eps_b - eps_a) > 1e-12:
                problems.append((cls, f"GroupNormalization epsilon {eps_b} -> {eps_a}"))
            per_group_before = s <= 20
            slen_after = gn_scale_len_after(n)
            def resolve(x):
                """len * (C / len) with the run-time C of x and the run-time len of the value; chains may be stacked."""
                if not isinstance(x, tuple):
                    return x
                if x[0] == "mul":
                    b_ = resolve(x[1])
                    return None if b_ is None else b_ * x[2]
                b_ = resolve(x[1])
                b_ = op["sLen"] if b_ is None else b_
                return b_ * (op["c"] // b_) if b_ else None

            if isinstance(slen_after, tuple):
                slen_after = resolve(slen_after)
            if slen_after is None:
                slen_after = op["sLen"]  # scale untouched (graph input): its run-time length is the case's
            want = op["c"] if t >= 21 else op["g"]
            if per_group_before and t >= 21 and op["g"] != op["c"] and slen_after != want:
                problems.append((cls, f"GroupNormalization declares {t} (scale per channel, {want}) but scale has length {slen_after} (per group)"))
        elif op["k"] == "P":
            if a["k"] != "P" or a["name"] != op["name"]:
                problems.append((cls, f"{op['name']} became {tok}"))
    return problems


def crosses(s, t, step):
    return s <= step < t


def finding_class(op, s, t) -> str:
    """The open finding whose predicate contains this (node, source, target), or ''.
    All C10 findings are fixed (D9 4aa0d5c, C10-DFT-AXIS 765f1d4, C10-GN-EPS 71fb858, D13a/b 090a933,
    C10-SUBGRAPH-SSA 40eff54): no region is carved out any more."""
    return ""


def creates_values(op, s, t) -> bool:
    """The adapter rewrites this node into several nodes with fresh TapeBuilder names (val_0, val_1, …)."""
    if t > 25 or t < 18:
        return False
    if op["k"] == "DFT":
        return crosses(s, t, 19)  # since 765f1d4 the adapter always rewrites (axis default materialised)
    if op["k"] == "GN":
        if not (crosses(s, t, 20) and op["hasS"] and op["hasB"] and op["g"] is not None):
            return False
        static = op["xVis"] == "k" and op["sVis"] == "k" and op["bVis"] == "k"
        return (not static) or (op["g"] != op["c"] and op["g"] == op["sLen"] == op["bLen"])
    return False


def pred_subgraph_ssa(case) -> bool:
    """C10-SUBGRAPH-SSA: in some graph (at any nesting level) a value-creating rewrite happens inside a
    subgraph (at any depth) of node i and another one at a later node of that graph: both define val_0 and
    NameFixPass leaves the clash."""
    if case["decl"] is None:
        return False
    s, t = case["decl"], case["target"]

    def expand(nodes):
        out = []
        for n in nodes:
            if n["op"]["k"] == "CALL":
                if case["entry"] != "native":
                    out += case["funcs"][n["op"]["f"]]["nodes"]
                continue
            out.append(n)
        return out

    def creating_inside(n):
        return any(m["d"] == 1 and creates_values(m["op"], s, t) for b in n.get("bodies", []) for m in L.iter_nodes(b))

    def scan(nodes):
        nodes = expand(nodes)
        seen_inner = False
        for n in nodes:
            if seen_inner and n["d"] == 1 and creates_values(n["op"], s, t):
                return True
            if n["d"] == 1 and creating_inside(n):
                seen_inner = True
        return any(scan(b) for n in nodes for b in n.get("bodies", []))

    if scan(case["nodes"]):
        return True
    return case["entry"] == "native" and any(scan(f["nodes"]) for f in case["funcs"])


def case_in_findings(case) -> bool:
    if case["entry"] == "native" or case["decl"] is None:
        return False
    return any(finding_class(n["op"], case["decl"], case["target"]) for n in all_case_nodes(case)
               if n["op"]["k"] in ("GN", "DFT"))


# --------------------------------------------------------------------------- numerics (onnxruntime before / after)


def numeric_diff(before_proto, after_proto, seed=0):
    """max |before - after| over all outputs on random inputs, or a string describing a failure."""
    import onnxruntime as ort

    ort.set_default_logger_severity(4)

    def sess(p):
        so = ort.SessionOptions()
        so.graph_optimization_level = ort.GraphOptimizationLevel.ORT_DISABLE_ALL
        so.log_severity_level = 4
        return ort.InferenceSession(p.SerializeToString(), so, providers=["CPUExecutionProvider"])

    rs = np.random.RandomState(seed)
    feeds = {}
    inits = {i.name for i in before_proto.graph.initializer}
    for i in before_proto.graph.input:
        if i.name in inits:
            continue
        tt = i.type.tensor_type
        shape = [d.dim_value if d.HasField("dim_value") else 4 for d in tt.shape.dim]
        if tt.elem_type == 9:
            feeds[i.name] = np.array(rs.rand() < 0.5)
        elif i.name.endswith("_g"):
            feeds[i.name] = np.asarray(rs.rand(*shape) * 2 - 1, dtype=np.float32)
        else:
            feeds[i.name] = np.asarray(rs.randn(*shape), dtype=np.float32)
    try:
        b = sess(before_proto).run(None, feeds)
    except Exception as e:  # noqa: BLE001
        return None, f"before-fails:{str(e)[:80]}"
    try:
        a = sess(after_proto).run(None, feeds)
    except Exception as e:  # noqa: BLE001
        return None, f"after-fails:{str(e)[:120]}"
    worst = 0.0
    for x, y in zip(b, a):
        if x.shape != y.shape:
            return None, f"shape {x.shape} -> {y.shape}"
        if x.size:
            worst = max(worst, float(np.nanmax(np.abs(x - y))))
    return worst, ""


def runnable(case) -> bool:
    """Cases whose real model onnxruntime can execute (static shapes, no custom ops, no functions with bodies)."""
    for n in all_case_nodes(case):
        op = n["op"]
        if op["k"] == "GN" and (op["xVis"] != "k" or op["sVis"] != "k" or op["bVis"] != "k" or not op["hasS"] or not op["hasB"]):
            return False
        if op["k"] == "DFT" and (op["one"] == 1 and op["inv"] == 1):
            return False
        if n.get("bodies") and op["name"] != "If":
            return False  # Loop / Scan / SequenceMap / MultiBody owners are built for their structure only
    if any(n["d"] == 0 and n["op"]["k"] != "CALL" for n in case["nodes"]):
        return False
    if any(m["d"] == 0 and m["op"]["k"] != "CALL" for m in L.iter_nodes(case["nodes"])):
        return False
    return True


# --------------------------------------------------------------------------- witnesses of the findings (hand-built, checker-valid)


def witness_models():
    """Hand-written witnesses replayed on the real code on every run: id -> (proto, target, feeds)."""
    import onnx
    from onnx import TensorProto as TP
    from onnx import helper as h
    from onnx import numpy_helper as nh

    rs = np.random.RandomState(0)
    out = {}
    sc = np.array([1.0, 2.0], dtype=np.float32)
    bi = np.array([0.0, 0.5], dtype=np.float32)
    X = rs.randn(2, 4, 3).astype(np.float32)

    def gn(xinfo, via_relu, eps=None):
        kw = {"num_groups": 2}
        if eps is not None:
            kw["epsilon"] = eps
        nodes = []
        src = "x"
        if via_relu:
            nodes.append(h.make_node("Identity", ["x"], ["xi"]))
            src = "xi"
        nodes.append(h.make_node("GroupNormalization", [src, "s", "b"], ["y"], **kw))
        g = h.make_graph(nodes, "g", [L.vi("x", xinfo)], [L.vi("y", [2, 4, 3])],
                         initializer=[nh.from_array(sc, "s"), nh.from_array(bi, "b")])
        return h.make_model(g, opset_imports=[h.make_opsetid("", 20)], ir_version=10)

    out["D13a"] = (gn([2, 4, 3], True), 21, {"x": X})           # x of the node has no shape annotation
    out["D13b"] = (gn([2, "C", 3], False), 21, {"x": X})        # symbolic channel dimension
    out["C10-GN-EPS"] = (gn([2, 4, 3], False, eps=0.5), 21, {"x": X})  # epsilon dropped by the rewrite
    Xd = rs.randn(2, 3, 4, 1).astype(np.float32)
    n = h.make_node("DFT", ["x"], ["y"])
    g = h.make_graph([n], "g", [L.vi("x", [2, 3, 4, 1])], [L.vi("y", [2, 3, 4, 2])])
    out["C10-DFT-AXIS"] = (h.make_model(g, opset_imports=[h.make_opsetid("", 19)], ir_version=10), 20, {"x": Xd})
    # C10-SUBGRAPH-SSA: rewrite inside an If branch, then a rewrite in the main graph
    ssa_case = {"entry": "proto", "fb": "none", "target": 20, "decl": 19, "ai": None, "funcs": [], "extra_inits": 0,
                "nodes": [node(P("If"), bodies=[[leaf(P("Neg"))], [leaf(DFT(1))]]), node(DFT(1))]}
    sp = L.build_proto(ssa_case)
    out["C10-SUBGRAPH-SSA"] = (sp, 20, {"s101_c": np.array(True), "s102_x": rs.randn(2, 3).astype(np.float32),
                                        "s103_x": rs.randn(2, 4, 1).astype(np.float32),
                                        "s104_x": rs.randn(2, 4, 1).astype(np.float32)})
    # D9 (fixed): proto entry must update opset_import
    xg = rs.randn(1, 1, 4, 4).astype(np.float32)
    gg = (rs.rand(1, 3, 3, 2).astype(np.float32) * 2 - 1)
    n = h.make_node("GridSample", ["x", "g"], ["y"], mode="bilinear")
    g = h.make_graph([n], "g", [L.vi("x", [1, 1, 4, 4]), L.vi("g", [1, 3, 3, 2])], [L.vi("y", [1, 1, 3, 3])])
    out["D9"] = (h.make_model(g, opset_imports=[h.make_opsetid("", 18)], ir_version=10), 21, {"x": xg, "g": gg})
    return out


def ort_run(proto, feeds):
    import onnxruntime as ort

    ort.set_default_logger_severity(4)
    so = ort.SessionOptions()
    so.graph_optimization_level = ort.GraphOptimizationLevel.ORT_DISABLE_ALL
    so.log_severity_level = 4
    try:
        s = ort.InferenceSession(proto.SerializeToString(), so, providers=["CPUExecutionProvider"])
        return s.run(None, feeds)[0]
    except Exception as e:  # noqa: BLE001
        return f"runtime-error: {str(e)[:90]}"


def metadata_witness(run: core.Run, stats: Counter):
    """C15-FALLBACK (fixed in 7ba1077), regression case: metadata_props and value doc strings survive the C-API route."""
    import onnx
    from onnx import TensorProto as TP
    from onnx import helper as h
    from onnxscript import version_converter as vc

    x = h.make_tensor_value_info("x", TP.FLOAT, [2])
    x.doc_string = "xdoc"
    n1 = h.make_node("Relu", ["x"], ["t"], name="relu0")
    n1.metadata_props.add(key="nk", value="nv")
    n2 = h.make_node("Neg", ["t"], ["y"], name="neg0")
    g = h.make_graph([n1, n2], "g", [x], [h.make_tensor_value_info("y", TP.FLOAT, [2])])
    g.metadata_props.add(key="gk", value="gv")
    m = h.make_model(g, opset_imports=[h.make_opsetid("", 20)], ir_version=10)
    try:
        vc.convert_version(m, 19, fallback=True)
    except Exception as ex:  # noqa: BLE001
        run.violation({"witness": "C15-FALLBACK"}, f"metadata witness: convert_version(20->19, fallback=True) raised {type(ex).__name__}")
        return
    got = ({p.key: p.value for p in m.graph.metadata_props}, {p.key: p.value for p in m.graph.node[0].metadata_props},
           m.graph.input[0].doc_string, {o.domain: o.version for o in m.opset_import}.get(""))
    ok = got == ({"gk": "gv"}, {"nk": "nv"}, "xdoc", 19)
    stats["witness_C15-FALLBACK_" + ("holds" if ok else "fails")] += 1
    if not ok:
        run.violation({"witness": "C15-FALLBACK", "got": str(got)},
                      f"witness C15-FALLBACK fails on the real code: after convert_version(Relu@20 with metadata, 19, fallback=True) "
                      f"(graph metadata, node metadata, input doc string, opset) = {got}")


def replay_witnesses(run: core.Run, stats: Counter):
    """Each witness: real conversion through the ModelProto entry, then checker + onnxruntime before/after."""
    import onnx
    from onnxscript import version_converter as vc

    findings = {f["id"]: f for f in run.findings}
    for wid, (proto, target, feeds) in witness_models().items():
        before = onnx.ModelProto()
        before.CopyFrom(proto)
        try:
            vc.convert_version(proto, target)
        except Exception as ex:  # noqa: BLE001  (behaviour changed: the correspondence stream reports it)
            unchanged = proto.SerializeToString(deterministic=True) == before.SerializeToString(deterministic=True)
            stats[f"witness_{wid}_raises"] += 1
            print(f"NOTE property=C10 witness {wid}: convert_version now raises {type(ex).__name__}; proto unchanged={unchanged}", flush=True)
            if not unchanged:
                run.violation({"witness": wid, "exception": type(ex).__name__},
                              f"witness {wid}: convert_version raised {type(ex).__name__} and left the ModelProto modified")
            continue
        decl = {o.domain: o.version for o in proto.opset_import}.get("")
        b, a = ort_run(before, feeds), ort_run(proto, feeds)
        if isinstance(a, str) or isinstance(b, str):
            differs, detail = isinstance(a, str) != isinstance(b, str), f"before={'ok' if not isinstance(b, str) else b} after={a if isinstance(a, str) else 'ok'}"
        else:
            d = float(np.abs(a - b).max()) if a.shape == b.shape else float("inf")
            differs, detail = d > 1e-4, f"max|before-after|={d:.4g}"
        stats[f"witness_{wid}_{'fails' if differs else 'holds'}"] += 1
        f = findings.get(wid)
        status = f.get("status") if f else None
        if differs or decl != target:
            what = f"convert_version(ModelProto, {target}) declares {decl}; onnxruntime {detail}"
            if status == "open":
                run.known(wid, what)
            else:
                run.violation({"witness": wid, "detail": detail, "declared": decl, "target": target},
                              f"witness {wid} fails on the real code: {what}")
        elif status == "open":
            # the defect is gone: the finding must be moved to "fixed" and the full theorem proved
            print(f"NOTE property=C10 open finding {wid} no longer reproduces ({detail})", flush=True)
            stats[f"witness_{wid}_stale"] += 1


# --------------------------------------------------------------------------- histories (the same object converted again)

BOUNDARY = [19, 20, 21]  # a target on either side of the two adapter boundaries 19->20 and 20->21


def gen_history_case(rng):
    """A self-consistent model and a history of 2..4 calls of convert_version on the same object."""
    kind = rng.choice(["up-up", "up-up", "same", "up-down-up", "err-retry", "down-up", "random", "split-boundaries"])
    s = rng.choice([18, 19]) if kind == "split-boundaries" else rng.choice([18, 18, 19, 19, 20, 21, 22, 24, 25, 17])
    shape = rng.choice(["gs", "dft", "gn", "mix", "mix", "sub", "func", "plain"])
    c = gen_consistent(rng, s, shape)
    c["extra_inits"] = rng.choice([0, 0, 0, 3])
    entry = rng.choice(["ir", "ir", "proto", "proto", "native"])
    if entry == "native":
        c["extra_inits"] = 0
    fbs = ["none", "yes", "no"]
    up = lambda lo: rng.choice([x for x in BOUNDARY + list(range(18, 26)) if x >= lo] or [25])  # noqa: E731
    if kind == "up-up":
        t1 = up(s)
        calls = [(rng.choice(fbs), t1), (rng.choice(fbs), up(t1))]
    elif kind == "same":
        t1 = up(s + 1)
        calls = [(rng.choice(fbs), t1), (rng.choice(fbs), t1)]
        if rng.random() < 0.5:
            calls.append((rng.choice(fbs), up(t1)))
    elif kind == "up-down-up":
        t1 = up(s + 1)
        t2 = rng.choice([x for x in range(17, t1)] or [17])
        calls = [(rng.choice(fbs), t1), (rng.choice(["yes", "yes", "no", "none"]), t2), (rng.choice(fbs), up(t2))]
    elif kind == "err-retry":
        calls = [(rng.choice(fbs), rng.choice([26, 17, 27, 16])), (rng.choice(fbs), up(s)), (rng.choice(fbs), rng.choice([26, 25]))]
    elif kind == "down-up":
        t1 = rng.choice([x for x in range(17, max(s, 18))] or [17])
        calls = [("yes", t1), (rng.choice(fbs), up(s))]
    elif kind == "split-boundaries":
        # 19->20 (DFT, GridSample) in one call and 20->21 (GroupNormalization) in the next
        calls = [(rng.choice(fbs), 20), (rng.choice(fbs), rng.choice([21, 21, 23, 25]))]
    else:
        calls = [(rng.choice(fbs), rng.choice(list(range(17, 27)))) for _ in range(rng.choice([2, 3, 4]))]
    if entry == "native":
        calls = [("none", t) for _fb, t in calls]
    c.update(entry=entry, fb=calls[0][0], target=calls[0][1], history=[list(x) for x in calls], hist_kind=kind, shape=shape)
    return c


def run_real_history(case: dict):
    """The calls of `case['history']` on one object.  Returns per-call observations and the final state."""
    import onnx
    import onnx_ir as ir
    from onnxscript import version_converter as vc
    from onnxscript.version_converter import _version_converter as nvc

    proto = L.build_proto(case)
    before = onnx.ModelProto()
    before.CopyFrom(proto)
    steps, problems = [], []
    out = {"before_proto": before}
    if case["entry"] == "proto":
        pre = ir.from_proto(proto)
        obj = proto
    else:
        pre = obj = ir.from_proto(proto)
        L.apply_versions(obj, case)
    out["inputs"] = [v.name for v in pre.graph.inputs]
    out["inits"] = list(pre.graph.initializers.keys())
    for fbs, t in case["history"]:
        fb = {"none": None, "yes": True, "no": False}[fbs]
        err = "none"
        snap = obj.SerializeToString(deterministic=True) if case["entry"] == "proto" else None
        with CapiSpy() as spy:
            try:
                if case["entry"] == "native":
                    nvc.convert_version(obj, t)
                else:
                    vc.convert_version(obj, t, fallback=fb)
            except Exception as ex:  # noqa: BLE001
                err = err_name(ex)
        if snap is not None and err != "none" and snap != obj.SerializeToString(deterministic=True):
            problems.append(f"call convert_version(proto, {t}, fallback={fb}) raised {err} but the ModelProto was modified")
        obs = obs_proto(obj, err) if case["entry"] == "proto" else L.obs_model(obj, err)
        steps.append({"obs": obs, "err": err, "capi_called": spy.called, "capi_ok": spy.ok})
    out["steps"] = steps
    out["problems"] = problems
    if case["entry"] == "proto":
        out["after_proto"] = obj
    else:
        out["after_ir"] = obj
        try:
            out["after_proto"] = ir.to_proto(obj)
        except Exception:  # noqa: BLE001
            out["after_proto"] = None
    return out


def history_line(case: dict, hr: dict) -> str:
    base = L.case_line(hide_function_shapes(case) if case["entry"] == "native" else case, True, hr["inputs"], hr["inits"]).split(" ")
    head = ["hist", case["entry"], ",".join(fb for fb, _ in case["history"]), ",".join(str(t) for _, t in case["history"]),
            ",".join("ok" if (st["capi_ok"] or not st["capi_called"]) else "fail" for st in hr["steps"])]
    toks = head + base[5:]
    extra = []
    for _ in range(case.get("extra_inits", 0)):
        extra += ["N", "1", "_", "0", "P:Add"]
    if extra:
        idx = toks.index("F") if "F" in toks else len(toks)
        toks[idx:idx] = extra
    return " ".join(toks)


def light_judge(hr) -> list[str]:
    """What must hold after any history, whatever route the calls took: declared opset = the opset every default-domain
    node is written for; signature and initializer bytes kept; every used domain imported; names defined once."""
    import onnx_ir as ir

    problems = []
    bp, ap = hr["before_proto"], hr["after_proto"]
    if ap is None:
        return ["the model cannot be serialised after the history"]
    after_ir = hr.get("after_ir") or ir.from_proto(ap)
    decl, after = walk_after(after_ir)
    if "after_ir" not in hr:
        after = [(o, decl, tok, n) for (o, _v, tok, n) in after]
    for o, v, _tok, _n in after:
        if v != decl:
            problems.append(f"after the history the model declares {decl} but node {o} is written for {v}")
            break
    if [o.name for o in bp.graph.output] != [o.name for o in ap.graph.output]:
        problems.append("graph outputs changed")
    if [i.name for i in bp.graph.input] != [i.name for i in ap.graph.input]:
        problems.append(f"graph inputs changed: {[i.name for i in bp.graph.input]} -> {[i.name for i in ap.graph.input]}")
    bi = {i.name: i.SerializeToString() for i in bp.graph.initializer}
    ai_ = {i.name: i.SerializeToString() for i in ap.graph.initializer}
    if bi != ai_:
        problems.append(f"initializers changed: {sorted(set(bi) ^ set(ai_))}")
    und = undeclared_domains(ap)
    if und:
        problems.append(f"model uses operator domain(s) {sorted(und)} without an opset import")
    return problems


def check_histories(run, drv, cases, stats: Counter, keep: list | None = None):
    """History stream: the real API called again and again on one object vs `convertHistory` of the model, call by
    call; oracle on the final state (`history_equivalent`: it reads as the original at the opset it declares)."""
    tie, prop = [], []
    hrs = [run_real_history(c) for c in cases]
    outs = drv.ask([history_line(c, hr) for c, hr in zip(cases, hrs)])
    for c, hr, mo in zip(cases, hrs, outs):
        if mo == "bad-op":
            raise core.Infra(f"driver rejected a history line for case {json.dumps(c)[:300]}")
        stats["hist_cases"] += 1
        stats[f"hist_entry_{c['entry']}"] += 1
        stats[f"hist_kind_{c['hist_kind']}"] += 1
        stats["hist_len_2" if len(c["history"]) == 2 else "hist_len_3plus"] += 1
        msteps = mo.split(" || ")
        capi_seen = False
        prev_decl = c["decl"]
        broke = False
        for i, (st, ms) in enumerate(zip(hr["steps"], msteps)):
            branch, mobs = ms.split(" ", 1)
            branch = branch.split("=")[1]
            fields = dict(p.split("=", 1) for p in st["obs"].split(" "))
            decl_now = None if fields["decl"] == "_" else int(fields["decl"])
            if i >= 1:
                stats[f"hist_later_call_{branch}"] += 1
                if capi_seen:
                    stats["hist_call_after_capi_ok"] += 1
                if branch.startswith("native") and st["err"] == "none" and decl_now != prev_decl:
                    stats["hist_later_call_converts_natively"] += 1
                if st["err"] == "none" and any(x["err"] != "none" for x in hr["steps"][:i]):
                    stats["hist_success_after_error"] += 1
                if st["err"] != "none":
                    stats["hist_later_call_raises"] += 1
            if not capi_seen and not broke:
                # the model follows the real object exactly up to (and including) the first successful C-API call
                robs = st["obs"]
                if st["capi_called"] != branch.startswith("capi"):
                    tie.append((c, f"history call {i + 1}: C-API called={st['capi_called']} but model takes branch {branch}"))
                    broke = True
                else:
                    if branch == "capi-ok":
                        robs = normalise_capi(robs)
                    robs, mobs = sort_inits(robs), sort_inits(mobs)
                    if robs != mobs:
                        tie.append((c, f"history call {i + 1} of {c['history']}:\n   impl  {robs}\n   model {mobs}"))
                        broke = True
            if st["capi_called"] and st["capi_ok"]:
                capi_seen = True
            prev_decl = decl_now
        if c["decl"] is not None and c["decl"] <= 19 and prev_decl is not None and prev_decl >= 21 and not capi_seen \
                and sum(1 for st in hr["steps"] if st["err"] == "none") >= 2 and len({t for _, t in c["history"]} & {20}) == 1:
            stats["hist_adapter_boundaries_in_separate_calls"] += 1
        # property verdict
        if c["entry"] == "native":
            continue
        stats["hist_judged"] += 1
        for w in hr["problems"] + light_judge(hr):
            prop.append((c, "", f"history {c['history']}: {w}"))
        if c["entry"] == "proto" and all(st["err"] != "none" for st in hr["steps"]):
            continue  # every call raised: the proto is byte-for-byte what it was (checked call by call above)
        if not capi_seen and hr["after_proto"] is not None:
            final = prev_decl
            if final != c["decl"] and final not in [t for _, t in c["history"]]:
                prop.append((c, "", f"history {c['history']}: the model ends declaring {final}, which was never requested"))
            else:
                c2 = dict(c, target=final)
                real2 = dict(hr, obs=hr["steps"][-1]["obs"], err="none", capi_called=False, capi_ok=False)
                for cls, what in judge(c2, real2):
                    prop.append((c, cls, f"history {c['history']} (ends at {final}): {what}"))
                stats["hist_judged_meaning"] += 1
                if keep is not None and runnable(c) and c["decl"] >= 18 and final is not None and final <= 25 and final != c["decl"] \
                        and sum(1 for st in hr["steps"] if st["err"] == "none") >= 2:
                    keep.append((c, hr))
    return tie, prop


def check_pass_reuse(run, stats: Counter, n_pairs: int):
    """Second use of a pass object: one `ConvertVersionPass(t, fallback)` applied to model A and then to model B must
    leave B exactly as a fresh `convert_version(B, t, fallback)` does (serialised bytes: nodes, names, imports) and
    raise the same exception class.  The public function builds a new pass per call; exporters keep pass objects."""
    import onnx_ir as ir
    from onnxscript import version_converter as vc

    prop = []
    for _ in range(n_pairs):
        sa, sb = run.rng.choice(range(18, 26)), run.rng.choice(range(18, 26))
        ca = gen_consistent(run.rng, sa, run.rng.choice(["gs", "dft", "gn", "mix", "sub", "func"]))
        cb = gen_consistent(run.rng, sb, run.rng.choice(["gs", "dft", "gn", "mix", "sub", "func"]))
        t = run.rng.choice(BOUNDARY + list(range(18, 26)) + [26])
        fbs = run.rng.choice(["none", "yes", "no"])
        fb = {"none": None, "yes": True, "no": False}[fbs]
        for c in (ca, cb):
            c.update(entry="ir", fb=fbs, target=t)

        def conv(fn, m):
            try:
                fn(m)
                return "none"
            except Exception as ex:  # noqa: BLE001
                return err_name(ex)

        fresh = ir.from_proto(L.build_proto(cb))
        L.apply_versions(fresh, cb)
        e1 = conv(lambda m: vc.convert_version(m, t, fallback=fb), fresh)
        pas = vc.ConvertVersionPass(target_version=t, fallback=fb)
        ma = ir.from_proto(L.build_proto(ca))
        L.apply_versions(ma, ca)
        ea = conv(pas, ma)
        mb = ir.from_proto(L.build_proto(cb))
        L.apply_versions(mb, cb)
        e2 = conv(pas, mb)
        stats["pass_reuse_pairs"] += 1
        if ea != "none":
            stats["pass_reuse_after_a_raising_call"] += 1
        if ea == "none" and e2 == "none" and sa != t and sb != t:
            stats["pass_reuse_both_convert"] += 1
        try:
            b1 = ir.to_proto(fresh).SerializeToString(deterministic=True)
            b2 = ir.to_proto(mb).SerializeToString(deterministic=True)
        except Exception:  # noqa: BLE001
            continue
        if e1 != e2 or b1 != b2:
            what = (f"a ConvertVersionPass({t}, fallback={fb}) object that converted another model first "
                    f"({sa}->{t}: err={ea}) converts this model differently from a fresh call: err {e1} vs {e2}, "
                    f"serialised models {'equal' if b1 == b2 else 'differ'}; fresh: {L.obs_model(fresh, e1)[:300]} ; reused: {L.obs_model(mb, e2)[:300]}")
            prop.append((dict(cb, reuse_after=ca), "", what))
    return prop


def check_after_optimize(run, stats: Counter, cases, limit: int):
    """Convert after optimize: the model first goes through `onnxscript.optimizer.optimize` (constant folding, dead
    code, node fusion leave a graph the generators never build directly), then through convert_version; oracle only:
    onnxruntime optimized-vs-converted, declared opset = opset of every default-domain node, signature kept."""
    import onnx_ir as ir
    from onnxscript import optimizer
    from onnxscript import version_converter as vc

    fails = []
    done = 0
    for c in cases:
        if done >= limit:
            break
        raw = L.build_proto(c)
        # give the optimizer something to do: every initializer that is not a graph input is fed through an Identity
        # (constant-folded away again; the operands of the adapted nodes then come from folded constants)
        gin = {i.name for i in raw.graph.input}
        ids = []
        for t_ in raw.graph.initializer:
            if t_.name not in gin:
                ids.append(L.h.make_node("Identity", [t_.name + "_raw"], [t_.name]))
                t_.name = t_.name + "_raw"
        for k_, n_ in enumerate(ids):
            raw.graph.node.insert(k_, n_)
        n_raw = len(raw.graph.node)
        m = ir.from_proto(raw)
        try:
            optimizer.optimize(m)
            before = ir.to_proto(m)
        except Exception:  # noqa: BLE001
            stats["optimize_refused"] += 1
            continue
        fb = {"none": None, "yes": True, "no": False}[c["fb"]]
        try:
            if c["entry"] == "proto":
                after = type(before)()
                after.CopyFrom(before)
                vc.convert_version(after, c["target"], fallback=fb)
                m2 = ir.from_proto(after)
            else:
                vc.convert_version(m, c["target"], fallback=fb)
                m2, after = m, ir.to_proto(m)
        except Exception as ex:  # noqa: BLE001
            fails.append((c, f"after optimize: convert_version {c['decl']}->{c['target']} raised {type(ex).__name__}: {str(ex)[:120]}"))
            continue
        done += 1
        stats["after_optimize_cases"] += 1
        if len(before.graph.node) != n_raw:
            stats["after_optimize_graph_changed_by_optimizer"] += 1
        hr = {"before_proto": before, "after_proto": after}
        if c["entry"] != "proto":
            hr["after_ir"] = m2
        for w in light_judge(hr):
            fails.append((c, f"after optimize: {w}"))
        d, why = numeric_diff(before, after, seed=done)
        if d is None and why.startswith("before-fails"):
            stats["numeric_before_unrunnable"] += 1
            continue
        stats["after_optimize_numeric_compared"] += 1
        if d is None or d > 1e-3:
            fails.append((c, f"after optimize: onnxruntime optimized/converted: {why or d}"))
    return fails


# --------------------------------------------------------------------------- main


CAPI_TABLE: Counter = Counter()


def check_cases(run, drv, cases, stats: Counter):
    """Returns (tie_problems, property_problems)."""
    tie, prop = [], []
    reals, lines = [], []
    for c in cases:
        r = run_real(c)
        reals.append(r)
        extra = []
        for j in range(c.get("extra_inits", 0)):
            extra += ["N", "1", "_", "0", "P:Add"]
        line = L.case_line(hide_function_shapes(c) if c["entry"] == "native" else c,
                           r["capi_ok"] or not r["capi_called"], r["inputs"], r["inits"])
        if extra:
            # the Add strands of the extra initializers are main-graph nodes placed before the functions
            toks = line.split(" ")
            idx = toks.index("F") if "F" in toks else len(toks)
            toks[idx:idx] = extra
            line = " ".join(toks)
        lines.append(line)
    outs = drv.ask(lines)
    # second stream: the fallback route in detail (call_onnx_api view, finally-restore, recovery loop), exact orders
    fb_cases = [(c, r) for c, r in zip(cases, reals) if r["capi_called"] and not c["funcs"] and r["after_proto"] is not None]
    fb_lines = []
    for c, r in fb_cases:
        bp = r["before_proto"]
        ins = ",".join(i.name for i in bp.graph.input) or "-"
        its = ",".join(f"{t.name}:{int(np.prod(t.dims)) if len(t.dims) else 1}" for t in bp.graph.initializer) or "-"
        fb_lines.append(f"fallback in={ins} init={its}")
    for (c, r), mo in zip(fb_cases, drv.ask(fb_lines)):
        f = dict(p.split("=", 1) for p in mo.split(" "))
        lst = lambda x: [] if x == "-" else x.split(",")  # noqa: E731
        seen_in, seen_init = r["capi_seen"]
        ap = r["after_proto"]
        real_in = [i.name for i in ap.graph.input]
        real_init = [t.name for t in ap.graph.initializer]
        stats["fallback_route_cases"] += 1
        want_in, want_init = (lst(f["ok_in"]), lst(f["ok_init"])) if r["capi_ok"] else (lst(f["fail_in"]), lst(f["fail_init"]))
        if seen_in != lst(f["prep_in"]) or seen_init != lst(f["prep_init"]):
            tie.append((c, f"call_onnx_api view: impl inputs={seen_in} inits={seen_init} ; model inputs={f['prep_in']} inits={f['prep_init']}"))
        elif real_in != want_in or real_init != want_init:
            tie.append((c, f"fallback route ({'ok' if r['capi_ok'] else 'failed'}): impl inputs={real_in} inits={real_init} ; model inputs={want_in} inits={want_init}"))
        stats["fallback_" + ("ok" if r["capi_ok"] else "failed")] += 1
        if any(len(t.dims) and int(np.prod(t.dims)) > 1000 for t in r["before_proto"].graph.initializer):
            stats["fallback_with_stripped_initializer"] += 1
            if not r["capi_ok"]:
                stats["fallback_failed_with_stripped_initializer"] += 1
    # metadata stream: `_restore_metadata(original, converted)` on the successful C-API route
    def flat_nodes(g, acc):
        for n in g.node:
            acc.append(n)
            for a in n.attribute:
                if a.type == 5:
                    flat_nodes(a.g, acc)
                elif a.type == 10:
                    for sg in a.graphs:
                        flat_nodes(sg, acc)
        return acc

    def props_tok(mp):
        return ",".join(f"{p.key}={p.value}" for p in mp) or "-"

    def node_items(tag, g):
        out = []
        for n in flat_nodes(g, []):
            out += [tag + "N", n.name or "_", n.op_type, n.domain or "@", n.doc_string or "_", props_tok(n.metadata_props)]
        return out

    def value_items(tag, g):
        out = []
        vinfo = {v.name: v for v in g.value_info}
        for i in g.input:
            out += [tag + "V", i.name, i.doc_string or "_", props_tok(i.metadata_props)]
        for n in flat_nodes(g, []):
            for o in n.output:
                if o:
                    v = vinfo.get(o)
                    out += [tag + "V", o, (v.doc_string if v is not None else "") or "_", props_tok(v.metadata_props) if v is not None else "-"]
        return out

    md_cases = [(c, r) for c, r in fb_cases if r["capi_ok"] and r.get("capi_ret") is not None]
    md_lines = []
    for c, r in md_cases:
        og, cg = r["before_proto"].graph, r["capi_ret"].graph
        md_lines.append(" ".join(["meta", "og=" + props_tok(og.metadata_props), "od=" + (og.doc_string or "_"),
                                  "cg=" + props_tok(cg.metadata_props), "cd=" + (cg.doc_string or "_")]
                                 + node_items("O", og) + value_items("O", og) + node_items("C", cg) + value_items("C", cg)))
    for (c, r), mo in zip(md_cases, drv.ask(md_lines)):
        ap = r["after_proto"].graph
        parts = mo.split(";")
        real_nodes = [f"N:{','.join(sorted(f'{p.key}={p.value}' for p in n.metadata_props)) or '-'}:{n.doc_string or '_'}" for n in flat_nodes(ap, [])]
        real_g = f"G:{','.join(sorted(f'{p.key}={p.value}' for p in ap.metadata_props)) or '-'}:{ap.doc_string or '_'}"
        real_in = [f"V:{','.join(sorted(f'{p.key}={p.value}' for p in i.metadata_props)) or '-'}:{i.doc_string or '_'}" for i in ap.input]
        canon = lambda t: t.split(":")[0] + ":" + (",".join(sorted(t.split(":")[1].split(","))) if t.split(":")[1] != "-" else "-") + ":" + t.split(":")[2]  # noqa: E731
        m_g = canon(parts[0]) if mo != "bad-op" else "bad-op"
        m_nodes = [canon(p) for p in parts[1:] if p.startswith("N:")]
        m_in = [canon(p) for p in parts[1:] if p.startswith("V:")][: len(real_in)]
        stats["metadata_cases"] += 1
        if any(p != "N:-:_" for p in real_nodes):
            stats["metadata_cases_with_restored_node"] += 1
        if (real_g, real_nodes, real_in) != (m_g, m_nodes, m_in):
            tie.append((c, f"_restore_metadata: impl {real_g} {real_nodes} {real_in} ; model {m_g} {m_nodes} {m_in}"))
    # third stream: names of the values the adapters create (collect + first-unused-counter loop)
    import re as _re

    def proto_names(g, acc):
        for i in g.input:
            acc.append(i.name)
        for n in g.node:
            acc.extend(x for x in n.input if x)
            acc.extend(x for x in n.output if x)
            for a in n.attribute:
                if a.type == 5:
                    proto_names(a.g, acc)
                elif a.type == 10:
                    for sg in a.graphs:
                        proto_names(sg, acc)
        return acc

    def defined_in_order(g, acc):
        for n in g.node:
            for a in n.attribute:
                if a.type == 5:
                    defined_in_order(a.g, acc)
                elif a.type == 10:
                    for sg in a.graphs:
                        defined_in_order(sg, acc)
            acc.extend(x for x in n.output if x)
        return acc

    def repl_size(op, s_, t_):
        if not creates_values(op, s_, t_) and not (op["k"] == "GS" and crosses(s_, t_, 19) and 18 <= t_ <= 25 and op["mode"] in ("bilinear", "bicubic")):
            return 0
        if op["k"] == "GS":
            return 1
        if op["k"] == "DFT":
            return 2
        static = op["xVis"] == "k" and op["sVis"] == "k" and op["bVis"] == "k"
        return 10 if static else 17

    nm_cases = [(c, r) for c, r in zip(cases, reals)
                if c["entry"] in ("ir", "proto") and not c["funcs"] and not c.get("adversarial") and r["err"] == "none"
                and not r["capi_called"] and r["after_proto"] is not None and c["decl"] is not None and c["decl"] < c["target"]]
    nm_lines, nm_real = [], []
    for c, r in nm_cases:
        before_names = set(proto_names(r["before_proto"].graph, []))
        used = sorted({int(m.group(1)) for n in before_names for m in [_re.fullmatch(r"val_(\d+)", n)] if m})
        sizes = [z for z in (repl_size(n["op"], c["decl"], c["target"]) for n in all_case_nodes(c) if n["d"] == 1) if z]
        nm_lines.append(f"names used={','.join(map(str, used)) or '-'} sizes={','.join(map(str, sizes)) or '-'}")
        new = [n for n in defined_in_order(r["after_proto"].graph, []) if n not in before_names]
        nm_real.append([int(m.group(1)) if m else n for n in new for m in [_re.fullmatch(r"val_(\d+)", n)]])
    for (c, r), line, mo, real_new in zip(nm_cases, nm_lines, drv.ask(nm_lines), nm_real):
        want = [int(x) for part in mo.split(";") for x in part.split(",") if x] if mo not in ("", "bad-op") else []
        stats["names_cases"] += 1
        if real_new:
            stats["names_cases_with_new_values"] += 1
        if "used=-" not in line and real_new:
            stats["names_cases_with_val_names_in_source"] += 1
        if mo == "bad-op" or sorted(x for x in real_new if isinstance(x, int)) != sorted(want) or any(not isinstance(x, int) for x in real_new):
            tie.append((c, f"adapter-created value names: impl {real_new} ; model {mo} ({line})"))
    # fourth stream: opset imports through inline / remove-unused / bump / proto rebuild
    def doms(nodes, acc, skip_calls=True):
        for n in nodes:
            if not (skip_calls and n.domain == "fn"):
                acc.append(n.domain if n.domain != "ai.onnx" else "")
            for a in n.attribute:
                if a.type == 5:
                    doms(a.g.node, acc, skip_calls)
                elif a.type == 10:
                    for sg in a.graphs:
                        doms(sg.node, acc, skip_calls)
        return acc

    at = lambda d: d if d else "@"  # noqa: E731
    im_cases = [(c, r) for c, r in zip(cases, reals)
                if c["entry"] in ("ir", "proto") and r["err"] == "none" and not (r["capi_called"] and r["capi_ok"])
                and r["after_proto"] is not None and c["decl"] is not None and c["ai"] is None]
    im_lines, im_keep = [], []
    for c, r in im_cases:
        bp, ap = r["before_proto"], r["after_proto"]
        declared_after = {o.domain: o.version for o in ap.opset_import}.get("")
        if declared_after != c["target"]:
            continue  # not converted (refused / C API failed): the imports are not rebuilt for a new target
        fmap = {f.name: f for f in bp.functions}
        fs = []
        for n in bp.graph.node:
            if n.domain == "fn" and n.op_type in fmap:
                f = fmap[n.op_type]
                fs.append("f=" + ",".join(f"{at(o.domain)}:{o.version}" for o in f.opset_import) + "/"
                          + (",".join(sorted({at(d) for d in doms(f.node, [])})) or "-"))
        im_lines.append(" ".join(["imports", str(c["target"]),
                                  "imp=" + ",".join(f"{at(o.domain)}:{o.version}" for o in bp.opset_import),
                                  "used=" + (",".join(sorted({at(d) for d in doms(bp.graph.node, [])})) or "-")] + fs))
        im_keep.append((c, r))
    for (c, r), line, mo in zip(im_keep, im_lines, drv.ask(im_lines)):
        real = sorted(f"{at(o.domain)}:{o.version}" for o in r["after_proto"].opset_import)
        stats["imports_cases"] += 1
        if " f=" in line and "priv" in line:
            stats["imports_cases_private_domain_via_function"] += 1
        if mo == "bad-op" or sorted(x for x in mo.split(",") if x) != real:
            tie.append((c, f"opset imports after conversion: impl {real} ; model {mo} ({line})"))
    for c, r, mo in zip(cases, reals, outs):
        stats["cases"] += 1
        stats[f"entry_{c['entry']}"] += 1
        if mo == "bad-op":
            raise core.Infra(f"driver rejected a line for case {json.dumps(c)[:300]}")
        branch, mobs = mo.split(" ", 1)
        branch = branch.split("=")[1]
        stats[f"branch_{branch}"] += 1
        stats[f"err_{r['err']}"] += 1
        robs = r["obs"]
        if r["capi_called"] and not c.get("adversarial"):
            # which part of the ONNX C-API converter (a contract of the model) the run exercised: operator, from -> to, outcome
            for kind in sorted({n["op"]["name"] if n["op"]["k"] == "P" else n["op"]["k"] for n in all_case_nodes(c)}):
                CAPI_TABLE[f"{kind}:{c['decl']}->{c['target']}:{'ok' if r['capi_ok'] else 'raises'}"] += 1
        if r["capi_called"] != branch.startswith("capi"):
            tie.append((c, f"C-API called={r['capi_called']} but model takes branch {branch}"))
            continue
        if branch == "capi-ok":
            robs = normalise_capi(robs)
        robs, mobs = sort_inits(robs), sort_inits(mobs)
        if robs != mobs:
            tie.append((c, f"impl  {robs}\n   model {mobs}"))
        if not c.get("adversarial") and c["decl"] is not None and 18 <= c["target"] <= 25 and c["entry"] != "native" and branch.startswith("native"):
            # opset-boundary counters: every adapter boundary with every optional attribute / input / shape fact present and absent
            s_, t_ = c["decl"], c["target"]
            if (s_, t_) in ((19, 20), (20, 21)):
                stats[f"bd_exact_{s_}_{t_}"] += 1
            if s_ <= 19 and t_ >= 21:
                stats["bd_span_both"] += 1
            for n in all_case_nodes(c):
                o = n["op"]
                if o["k"] == "DFT" and crosses(s_, t_, 19):
                    stats[f"bd_DFT_axis{'Y' if o['axis'] is not None else 'N'}_len{o['len']}"] += 1
                    stats[f"bd_DFT_rank{o['rank']}"] += 1
                elif o["k"] == "GS" and crosses(s_, t_, 19):
                    stats[f"bd_GS_mode_{o['mode']}"] += 1
                elif o["k"] == "GN" and crosses(s_, t_, 20):
                    stats["bd_GN_eps" + ("N" if o["eps"] is None else "Y")] += 1
                    if o["g"] == o["c"]:
                        stats["bd_GN_groups_eq_channels"] += 1
                    if o["xVis"] == "m":
                        stats["bd_GN_x_no_shape"] += 1
                    elif o["xVis"] == "s":
                        stats["bd_GN_x_symbolic_channels"] += 1
                    elif o["sVis"] != "k":
                        stats["bd_GN_scale_not_static"] += 1
                    elif o["bVis"] != "k":
                        stats["bd_GN_bias_not_static"] += 1
                    else:
                        stats["bd_GN_all_static"] += 1
        for n in all_case_nodes(c):
            stats["op_" + n["op"]["k"]] += 1
            if n["op"]["k"] == "GN" and c["decl"] is not None and crosses(c["decl"], c["target"], 20):
                stats["gn_step_taken"] += 1
        for n in L.iter_nodes(c["nodes"] + [m for f in c["funcs"] for m in f["nodes"]]):
            if n.get("bodies"):
                stats["subgraph_owner_" + n["op"]["name"]] += 1
                if n["op"]["name"] != "If" and n["d"] == 1 and c["decl"] is not None and not c.get("adversarial") and any(
                        creates_values(m["op"], c["decl"], c["target"]) or
                        (m["op"]["k"] == "GS" and m["op"]["mode"] in ("bilinear", "bicubic") and crosses(c["decl"], c["target"], 19) and 18 <= c["target"] <= 25)
                        for b_ in n["bodies"] for m in L.iter_nodes(b_) if m["d"] == 1):
                    stats["non_if_owner_with_rewritten_body"] += 1
        if "{" in mobs:
            stats["with_subgraph"] += 1
            depth = lambda ns: max([0] + [1 + max([depth(b) for b in n["bodies"]]) for n in ns if n.get("bodies")])  # noqa: E731
            stats[f"subgraph_nesting_depth_{depth(c['nodes'] + [n for f in c['funcs'] for n in f['nodes']])}"] += 1
        if c["funcs"]:
            stats["with_functions"] += 1
            if any(m["d"] == 0 and m["op"]["k"] != "CALL" for f in c["funcs"] for m in L.iter_nodes(f["nodes"])):
                stats["function_with_private_domain"] += 1
        if c.get("valnames") and any(creates_values(n["op"], c["decl"], c["target"]) for n in c["nodes"] if c["decl"] is not None):
            stats["val_named_body_outputs_then_rewrite"] += 1
        if branch == "capi-ok" and c.get("extra_inits", 0) >= 3:
            stats["capi_ok_big_initializer_also_input"] += 1
        # property verdict only on self-consistent inputs through the public entry points
        if not c.get("adversarial") and c["entry"] != "native":
            stats["judged"] += 1
            for cls, what in judge(c, r):
                prop.append((c, cls, what))
    return tie, prop


def grid_cases(rng, per_shape_sample, combos):
    cases = []
    for shape in SHAPES:
        for (s, t, entry, fb) in combos if per_shape_sample is None else rng.sample(combos, per_shape_sample):
            for _ in range(60):
                c = gen_consistent(rng, s, shape)
                c.update(entry=entry, fb=fb, target=t, shape=shape)
                if not case_in_findings(c):
                    break
            else:
                continue
            cases.append(c)
    return cases


def main(run: core.Run) -> None:
    logging.disable(logging.CRITICAL)
    run.assumptions += [
        "A-ir: InlinePass / RemoveUnused*Pass / NameFixPass / replace_nodes_and_values / serde of onnx_ir are contracts "
        "(the real ones run in every correspondence case)",
        "A-capi: onnx.version_converter.convert_version is a parameter of the model: it either raises or returns a model "
        "declaring the target with the inputs it was given; its success/failure is observed per case",
        "A-shape: shape annotations present in a model are truthful",
        "A-op: meaning of GridSample modes, DFT axis default (attribute default 1 up to opset 19, input default -2 from 20) "
        "and GroupNormalization scale/bias layout (per group up to opset 20, per channel from 21) as in the ONNX operator "
        "specification; validated numerically on onnxruntime for the witnesses and a sample of the cases",
        "subgraphs of every nesting depth are modelled (the driver is instantiated at depth 4, generators nest up to 3); "
        "call depth 1; GroupNormalization with num_groups = 0 or rank(x) < 2 "
        "(Python ZeroDivisionError / IndexError inside the adapter) is outside the model and not generated",
        "histories: `history_equivalent(_proto)` cover histories during which the ONNX C API does not succeed; once a C-API call "
        "succeeded the model no longer follows the object (contract) and only the route-independent oracle (declared opset = node "
        "versions, signature, initializer bytes, imports) judges the rest of the history; subgraph owners other than `If` are built "
        "for their structure only (never executed on onnxruntime)",
    ]
    # translator part of the tie: adapter registry and constants, regenerated from the source on every run
    try:
        from harness import c10_extract

        table = c10_extract.regenerate()
        run.coverage["registry_from_source"] = [list(r) for r in table["rows"]]
    except Exception as e:  # noqa: BLE001
        raise core.Infra(f"cannot read the adapter registry from {core.REPO}: {e}") from e
    audit = run.prove(PROP_MODULES)
    drv = core.Driver("C10")
    stats: Counter = Counter()

    if run.replay_path:
        body = json.loads(open(run.replay_path).read())
        c = body["case"].get("case")
        if c is None:
            print("REPLAY: the replay names a broken obligation, not an input")
            return
        tie, prop = (check_histories if c.get("history") else check_cases)(run, drv, [c], stats)
        for _c, d in tie:
            print("REPLAY tie:", d)
        for _c, cls, what in prop:
            print("REPLAY property:", cls, what)
        if tie or prop:
            run.violation({"case": c}, "replayed case still fails")
        run.coverage.update(evaluations=1, distinct_nontrivial=1)
        return

    drift = []
    fp_file = core.VERIF / "harness" / "fingerprints_c10.json"
    recorded = json.loads(fp_file.read_text()) if fp_file.exists() else {}
    for rel, names in SRC:
        cur = core.source_fingerprint(rel, names)
        drift += [f"{rel}:{q}" for q in names if recorded.get(rel, {}).get(q) not in (None, cur.get(q))]
    run.coverage["fingerprint_drift"] = drift

    vers = list(range(18, 26))
    combos = [(s, t, e, f) for s in vers for t in vers for e in ("ir", "proto") for f in ("none", "yes", "no")]
    edge = [(s, t, e, f) for (s, t) in [(17, 21), (17, 18), (18, 26), (25, 26), (18, 17), (16, 17), (26, 27), (17, 26)]
            for e in ("ir", "proto") for f in ("none", "yes", "no")]
    all_tie, all_prop = [], []

    def batch(cases):
        for k in range(0, len(cases), 200):
            t, p = check_cases(run, drv, cases[k:k + 200], stats)
            all_tie.extend(t)
            all_prop.extend(p)

    # 1. corpus (witness-shaped cases of the findings + minimised past disagreements)
    corpus_file = core.VERIF / "harness" / "corpus_c10.jsonl"
    corpus = [json.loads(l) for l in corpus_file.read_text().splitlines() if l.strip()] if corpus_file.exists() else []
    batch([c for c in corpus if not c.get("history")])
    t_, p_ = check_histories(run, drv, [c for c in corpus if c.get("history")], stats)
    all_tie.extend(t_)
    all_prop.extend(p_)
    stats["corpus"] = len(corpus)
    # 2. the grid: every (source, target, entry, fallback) combination on every model shape
    escal = bool(drift) and run.tier == "quick"
    if run.tier == "quick" and not escal:
        cases = grid_cases(run.rng, 150, combos)
    else:
        cases = []
        for _ in range(run.size(1, 5)):
            cases += grid_cases(run.rng, None, combos)
    cases += grid_cases(run.rng, None, edge)
    batch(cases)
    stats["grid_cases"] = len(cases)
    # 3. native entry on consistent models with functions kept (visit_model's function loop)
    nat = []
    for _ in range(run.size(150, 1500)):
        s = run.rng.choice(vers)
        c = gen_consistent(run.rng, s, run.rng.choice(["func", "func", "sub", "mix"]))
        c.update(entry="native", fb="none", target=run.rng.choice(vers + [17, 26]))
        if run.rng.random() < 0.3 and c["funcs"]:
            c["funcs"][0]["decl"] = run.rng.choice(vers)
        nat.append(c)
    batch(nat)
    # 4. adversarial tie-only cases
    batch([gen_adversarial(run.rng) for _ in range(run.size(700, 12000))])

    # 4b. histories: the same object converted again and again (2..4 calls), call-by-call tie + oracle on the final state
    hist_keep: list = []
    hist_cases = [gen_history_case(run.rng) for _ in range(run.size(400, 5000))]
    for k in range(0, len(hist_cases), 200):
        t, p = check_histories(run, drv, hist_cases[k:k + 200], stats, hist_keep)
        all_tie.extend(t)
        all_prop.extend(p)

    # 4c. second use of a pass object (reuse vs fresh call, byte-exact)
    all_prop.extend(check_pass_reuse(run, stats, run.size(120, 1500)))

    # 5. numerics on a sample of judged, runnable, natively converted cases
    import onnx

    nnum = 0
    numeric_fail = []
    pool = [c for c in cases if c["entry"] == "proto" and runnable(c) and 18 <= c["decl"] < c["target"] <= 25
            and c["shape"] in ("gs", "dft", "gn", "mix", "sub", "func")]
    run.rng.shuffle(pool)
    for c in pool[: run.size(90, 600)]:
        r = run_real(c)
        if r["err"] != "none" or r["after_proto"] is None:
            continue
        d, why = numeric_diff(r["before_proto"], r["after_proto"], seed=nnum)
        nnum += 1
        if d is None and why.startswith("before-fails"):
            stats["numeric_before_unrunnable"] += 1
            continue
        stats["numeric_compared"] += 1
        if d is None or d > 1e-3:
            numeric_fail.append((c, f"onnxruntime before/after: {why or d}"))
        else:
            try:
                onnx.checker.check_model(r["before_proto"])
            except Exception:  # noqa: BLE001  (e.g. GroupNormalization-18 is flagged deprecated by the checker)
                stats["checker_rejects_source"] += 1
                continue
            stats["checker_compared"] += 1
            try:
                onnx.checker.check_model(r["after_proto"])
            except Exception as e:  # noqa: BLE001
                numeric_fail.append((c, f"onnx.checker rejects the converted model: {str(e)[:120]}"))
    # 5b. numerics through histories: the original model vs the model after two or more successful native calls
    run.rng.shuffle(hist_keep)
    for c, hr in hist_keep[: run.size(40, 300)]:
        d, why = numeric_diff(hr["before_proto"], hr["after_proto"], seed=nnum)
        nnum += 1
        if d is None and why.startswith("before-fails"):
            stats["numeric_before_unrunnable"] += 1
            continue
        stats["hist_numeric_compared"] += 1
        if d is None or d > 1e-3:
            numeric_fail.append((c, f"history {c['history']}: onnxruntime original/final: {why or d}"))
    # 5c. convert after optimize (oracle only)
    opt_pool = [c for c in cases if runnable(c) and 18 <= c["decl"] < c["target"] <= 25 and c["shape"] in ("gs", "dft", "gn", "mix", "sub")]
    run.rng.shuffle(opt_pool)
    numeric_fail += check_after_optimize(run, stats, opt_pool, run.size(40, 300))
    # 6. witnesses of the listed findings, on the real code
    replay_witnesses(run, stats)
    metadata_witness(run, stats)

    for c in cases[:4] + nat[:2]:
        run.sample({k: c[k] for k in ("entry", "fb", "target", "decl", "nodes")})

    import os

    if os.environ.get("VERIF_DEBUG"):
        print(f"DEBUG tie={len(all_tie)} prop={len(all_prop)} numeric={len(numeric_fail)}")
        for c, d in all_tie[:int(os.environ["VERIF_DEBUG"])]:
            print("TIE", json.dumps({k: v for k, v in c.items()})[:600], "\n   ", d)
        for c, cls, w in all_prop[:int(os.environ["VERIF_DEBUG"])]:
            print("PROP", cls, w, json.dumps(c)[:400])
    # ---- verdict
    open_ids = {f["id"] for f in run.open_findings()}
    prop_fail = []
    for c, cls, what in all_prop:
        if cls and cls in open_ids:
            stats[f"known_{cls}"] += 1  # generators avoid the predicates; reachable via corpus only
        else:
            prop_fail.append((c, what))
    prop_fail += numeric_fail
    if prop_fail:
        prop_fail.sort(key=lambda p: len(json.dumps(p[0])))
        c, what = prop_fail[0]
        run.violation({"case": c, "detail": what, "others": len(prop_fail) - 1},
                      f"convert_version(entry={c['entry']}, {c['decl']}->{c['target']}, fallback={c['fb']}): {what}")
    elif all_tie:
        all_tie.sort(key=lambda p: len(json.dumps(p[0])))
        c, detail = all_tie[0]
        run.violation({"case": c, "detail": detail, "broken": "correspondence OV.C10.convertVersionApi vs implementation",
                       "others": len(all_tie) - 1},
                      f"correspondence broken: entry={c['entry']} fb={c['fb']} {c['decl']}->{c['target']}\n   {detail}\n"
                      "   no input found on which the real result is inconsistent / not equivalent",
                      no_input=True)
    if not audit["ok"]:
        run.violation({"broken": "proof obligations of OV.Props.C10", "problems": audit["problems"],
                       "log": audit["build_log"][-1500:]},
                      "Lean proof obligations for C10 do not check: " + "; ".join(audit["problems"][:3]), no_input=True)

    needed = ["branch_early-exit", "branch_native-nofallback", "branch_native-supported", "branch_capi-ok",
              "branch_capi-fail", "branch_native-direct", "branch_inline-error", "err_VersionConverterError",
              "err_ValueError", "with_subgraph", "with_functions", "op_GN", "op_DFT", "op_GS",
              "subgraph_nesting_depth_2", "subgraph_nesting_depth_3", "function_with_private_domain",
              "val_named_body_outputs_then_rewrite", "capi_ok_big_initializer_also_input",
              "fallback_ok", "fallback_failed", "fallback_with_stripped_initializer", "fallback_failed_with_stripped_initializer",
              "names_cases_with_new_values", "names_cases_with_val_names_in_source",
              "imports_cases", "imports_cases_private_domain_via_function", "metadata_cases_with_restored_node",
              "subgraph_owner_If", "subgraph_owner_Loop", "subgraph_owner_Scan", "subgraph_owner_SequenceMap",
              "subgraph_owner_MultiBody", "non_if_owner_with_rewritten_body",
              "bd_exact_19_20", "bd_exact_20_21", "bd_span_both", "bd_DFT_axisY_len0", "bd_DFT_axisY_len1", "bd_DFT_axisN_len0",
              "bd_DFT_axisN_len1", "bd_DFT_rank3", "bd_DFT_rank4", "bd_GS_mode_None", "bd_GS_mode_bilinear", "bd_GS_mode_bicubic",
              "bd_GS_mode_nearest", "bd_GN_epsN", "bd_GN_epsY", "bd_GN_groups_eq_channels", "bd_GN_x_no_shape",
              "bd_GN_x_symbolic_channels", "bd_GN_scale_not_static", "bd_GN_bias_not_static", "bd_GN_all_static",
              "pass_reuse_both_convert", "pass_reuse_after_a_raising_call", "after_optimize_numeric_compared",
              "after_optimize_graph_changed_by_optimizer",
              "hist_entry_ir", "hist_entry_proto", "hist_entry_native", "hist_len_3plus", "hist_later_call_early-exit",
              "hist_later_call_converts_natively", "hist_later_call_raises", "hist_success_after_error",
              "hist_call_after_capi_ok", "hist_adapter_boundaries_in_separate_calls", "hist_judged_meaning",
              "hist_numeric_compared"]
    missing = [k for k in needed if stats[k] == 0]
    if missing and not run.violations:  # a behavioural difference is reported as such, never as exit 2
        raise core.Infra(f"generator degenerated: never produced {missing}")
    run.coverage["capi_contract_exercised"] = {
        "note": "ONNX C-API converter = contract parameter of the model (raises | returns a model declaring the target with the "
                "inputs it was given); rows: operator kind present in the model : source->target : outcome observed, count",
        "rows": dict(sorted(CAPI_TABLE.items())),
        "distinct_from_to_pairs": len({k.split(":")[1] for k in CAPI_TABLE}),
    }
    run.coverage.update(
        evaluations=stats["cases"],
        distinct_nontrivial=stats["cases"] - stats["branch_early-exit"],
        rule="cases (model shape x source opset x target x entry x fallback) that do not take the `== target` early exit; "
        "each is run through the real convert_version and the compiled Lean model and the observations compared",
        traces_validated_against_impl=stats["cases"],
        distribution=dict(stats),
        exhaustive=run.tier == "thorough" or escal,
        explanation="the (source 18..25) x (target 18..25) x {ir, proto} x {None, True, False} grid is enumerated "
        + ("completely (5 rounds)" if run.tier == "thorough" else "completely (fingerprint drift)" if escal else "by a sample of 150 of 384 combinations")
        + " for each of the 8 model shapes; node parameters are seeded random; edge sources/targets 16,17,26,27 are always complete",
    )
