"""C09 helpers: encodings for the Lean driver, wrappers calling the real shape helpers / partial
evaluators / rules of /repo on constructed `ir` objects, generators of symbolic shapes."""
from __future__ import annotations

import re
import types

import numpy as np

# --------------------------------------------------------------------------- encodings
# python-side shape: None | list of (int | str | None)


def enc_dim(d) -> str:
    if d is None:
        return "u"
    if isinstance(d, (int, np.integer)) and not isinstance(d, bool):
        return f"k{int(d)}"
    return f"s{d}"


def enc_shape(s) -> str:
    if s is None:
        return "N"
    if len(s) == 0:
        return "-"
    return ",".join(enc_dim(d) for d in s)


def enc_ints(l) -> str:
    if l is None:
        return "N"
    if len(l) == 0:
        return "-"
    return ",".join(str(int(x)) for x in l)


def enc_oint(i) -> str:
    return "N" if i is None else str(int(i))


def ir_dim_to_py(d):
    import onnx_ir as ir

    if isinstance(d, ir.SymbolicDim):
        return d.value
    return int(d)


def ir_shape_to_py(s):
    if s is None:
        return None
    return [ir_dim_to_py(d) for d in s]


def enc_ir_shape(s) -> str:
    return enc_shape(ir_shape_to_py(s))


# --------------------------------------------------------------------------- generators

INTS = [0, 1, 1, 2, 3, 7]
NAMES = ["N", "M", "B", "N+M", "1", "N+-5"]


def gen_dim(rng, p_unknown=0.15, p_sym=0.35):
    r = rng.random()
    if r < p_unknown:
        return None
    if r < p_unknown + p_sym:
        return rng.choice(NAMES[:3]) if rng.random() < 0.85 else rng.choice(NAMES)
    return rng.choice(INTS)


def gen_shape(rng, max_rank=4, **kw):
    rank = rng.choice([0, 1, 1, 2, 2, 2, 3, 3, 4][: 2 * max_rank + 1])
    return [gen_dim(rng, **kw) for _ in range(rank)]


def mutate_shape(rng, s, **kw):
    """A shape related to `s`: identical, one dim changed, padded/truncated on the left, 1s injected."""
    s = list(s)
    r = rng.random()
    if r < 0.35:
        return s
    if r < 0.55 and s:
        i = rng.randrange(len(s))
        s[i] = gen_dim(rng, **kw)
        return s
    if r < 0.70 and s:
        i = rng.randrange(len(s))
        s[i] = 1
        return s
    if r < 0.80:
        return [gen_dim(rng, **kw) for _ in range(rng.randint(1, 2))] + s
    if r < 0.90 and s:
        return s[rng.randint(1, len(s)) :]
    return gen_shape(rng, **kw)


def gen_oshape(rng, p_none=0.08, **kw):
    return None if rng.random() < p_none else gen_shape(rng, **kw)


# --------------------------------------------------------------------------- real helpers


class Real:
    """Lazy import of the real modules (after ./check put VERIF_REPO first on sys.path)."""

    def __init__(self):
        import onnx_ir as ir

        from onnxscript._internal.tape_builder import TapeBuilder
        from onnxscript.optimizer import _constant_folding as cf
        from onnxscript.rewriter import _ir_utils as iu
        from onnxscript.rewriter._rewrite_rule import RewriteRuleSet
        from onnxscript.rewriter.rules.common import _basic_rules as br
        from onnxscript.rewriter.rules.common import _materialize_reshape_shape as mrs
        from onnxscript.rewriter.rules.common import _remove_expand_before_binary_op as reb

        self.ir, self.cf, self.iu, self.reb, self.mrs, self.br = ir, cf, iu, reb, mrs, br
        self.TapeBuilder = TapeBuilder
        self.RewriteRuleSet = RewriteRuleSet
        self._n = 0

    # ---- object construction
    def shape(self, s):
        return None if s is None else self.ir.Shape(list(s))

    def dim(self, d):
        return int(d) if isinstance(d, int) else self.ir.SymbolicDim(d)

    def value(self, shape=None, dtype=None, const=None, name=None):
        ir = self.ir
        self._n += 1
        v = ir.Value(name=name or f"v{self._n}", shape=self.shape(shape), type=ir.TensorType(dtype or ir.DataType.FLOAT))
        if const is not None:
            v.const_value = ir.tensor(const)
            v.shape = ir.Shape(list(const.shape))
            v.type = ir.TensorType(ir.DataType(v.const_value.dtype))
        return v

    def int64_const(self, l, name=None):
        return self.value(const=np.array(l, dtype=np.int64), name=name)

    def shape_value_input(self, state, sv, as_const: bool):
        """An ir.Value whose `state.get_shape_value` is `sv` (None: no shape value)."""
        ir = self.ir
        if sv is None:
            return self.value(shape=[None], dtype=ir.DataType.INT64)
        if as_const and all(isinstance(d, int) for d in sv) and len(sv) <= 10:
            return self.int64_const(list(sv))
        v = self.value(shape=[len(sv)], dtype=ir.DataType.INT64)
        state.set_sym_value(v, ir.Shape(list(sv)))
        return v

    def node(self, op, inputs, attrs=None, n_out=1):
        ir = self.ir
        al = []
        for k, a in (attrs or {}).items():
            al.append(ir.AttrInt64(k, int(a)))
        return ir.Node("", op, inputs=inputs, attributes=al, num_outputs=n_out)

    # ---- helper functions
    def same_shape_fold(self, a, b):
        return "T" if self.cf._same_shape(self.shape(a), self.shape(b)) else "F"

    def same_shape(self, a, b):
        return "T" if self.iu.same_shape(self.shape(a), self.shape(b)) else "F"

    def same_dim(self, a, b):
        return "T" if self.iu.same_dim(self.dim(a), self.dim(b)) else "F"

    def get_dim(self, s, i):
        v = self.value(shape=s) if s is not None else self.ir.Value(name="noshape")
        d = self.iu.get_dim(v, i)
        return "N" if d is None and not isinstance(d, self.ir.SymbolicDim) else enc_dim(ir_dim_to_py(d))

    def merge(self, a, b):
        try:
            r = self.cf._merge_shapes(self.shape(a), self.shape(b))
        except ValueError:
            return "RAISE"
        return enc_ir_shape(r)

    def bcast_dim(self, a, b):
        r = self.reb._compute_broadcast_dim(self.dim(a), self.dim(b))
        if r is None and not isinstance(r, self.ir.SymbolicDim):
            return "N"
        return enc_dim(ir_dim_to_py(r))

    def bcast_shape(self, a, b):
        r = self.reb._compute_broadcast_shape(self.shape(a), self.shape(b))
        return "N" if r is None else enc_shape([ir_dim_to_py(d) for d in r])

    _DIM_RE = re.compile(r"at dimension (\d+)")

    def dims_suff(self, e, x, y):
        r = self.reb._check_dims_sufficient(self.shape(e), self.shape(x), self.shape(y))
        if bool(r):
            return "ok"
        if (r.reason or "").startswith("Expand adds leading dimensions"):
            return "fail:rank"
        m = self._DIM_RE.search(r.reason or "")
        return f"fail:{m.group(1)}" if m else "fail:?"

    def expand_removable(self, x, y, const, eo, bo):
        ir = self.ir
        xv = self.value(shape=x) if x is not None else ir.Value(name="x_noshape")
        yv = self.value(shape=y) if y is not None else ir.Value(name="y_noshape")
        sv = self.int64_const(const) if const is not None else self.value(shape=[None], dtype=ir.DataType.INT64)
        ev = self.value(shape=eo) if eo is not None else ir.Value(name="e_noshape")
        bv = self.value(shape=bo) if bo is not None else ir.Value(name="b_noshape")
        r = self.reb._check_expand_removable(xv, sv, yv, expand_output=ev, binary_op_output=bv)
        reason = r.reason or ""
        if bool(r):
            if const is not None:
                return "ok1"
            return "ok2" if eo is not None else "ok3"
        if reason.startswith("Input shapes are not known"):
            return "noshapes"
        if reason.startswith("Expand adds leading dimensions"):
            return "rank1" if const is not None else "rank2"
        m = self._DIM_RE.search(reason)
        if m:
            return ("fail1:" if const is not None else "fail2:") + m.group(1)
        if reason.startswith("broadcast(x.shape, y.shape) does not match"):
            return "fail3"
        if reason.startswith("Expand target shape is not a constant and no shape"):
            return "noinfo"
        return "fail:?" + reason[:40]

    # ---- partial evaluators of the fold pass
    def _ret(self, r):
        """Describe what an evaluator returned: None | producing op + attributes."""
        if r is None:
            return None
        node = r.producer()
        return node

    def ev_shape(self, s, start, stop, rng):
        cf = self.cf
        state = cf.OptimizerState()
        x = self.value(shape=s) if s is not None else self.ir.Value(name="x_noshape")
        attrs = {}
        if start != 0 or rng.random() < 0.5:
            attrs["start"] = start
        if stop is not None:
            attrs["end"] = stop
        node = self.node("Shape", [x], attrs)
        r = cf.shape(node, self.TapeBuilder(), state)
        sym = state.get_sym_value(node.outputs[0])
        if r is None and sym is None:
            return "none"
        const = None
        if r is not None:
            n = r.producer()
            assert n.op_type == "Constant"
            const = list(n.attributes["value_ints"].value)
        return enc_ir_shape(sym) + " " + enc_ints(const)

    def ev_size(self, s):
        cf = self.cf
        state = cf.OptimizerState()
        x = self.value(shape=s) if s is not None else self.ir.Value(name="x_noshape")
        node = self.node("Size", [x])
        r = cf.size(node, self.TapeBuilder(), state)
        if r is None:
            return "none"
        n = r.producer()
        assert n.op_type == "Constant"
        return str(n.attributes["value_int"].value)

    def ev_gather(self, sv, axis, idx, as_const):
        cf, ir = self.cf, self.ir
        state = cf.OptimizerState()
        x = self.shape_value_input(state, sv, as_const)
        i = self.int64_const(idx) if idx is not None else self.value(shape=[None], dtype=ir.DataType.INT64)
        node = self.node("Gather", [x, i], {} if axis is None else {"axis": axis})
        try:
            r = cf.gather(node, self.TapeBuilder(), state)
        except IndexError:
            return "RAISE"
        sym = state.get_sym_value(node.outputs[0])
        if r is None and sym is None:
            return "none"
        const = None
        if r is not None:
            const = list(r.producer().attributes["value_ints"].value)
        return enc_ir_shape(sym) + " " + enc_ints(const)

    def ev_add(self, a, b, ca, cb):
        cf = self.cf
        state = cf.OptimizerState()
        node = self.node("Add", [self.shape_value_input(state, a, ca), self.shape_value_input(state, b, cb)])
        r = cf.add(node, self.TapeBuilder(), state)
        assert r is None
        return enc_ir_shape(state.get_sym_value(node.outputs[0]))

    def ev_abs(self, a, ca):
        cf = self.cf
        state = cf.OptimizerState()
        node = self.node("Abs", [self.shape_value_input(state, a, ca)])
        r = cf.abs(node, self.TapeBuilder(), state)
        if r is None:
            return "F"
        assert r.producer().op_type == "Identity"
        return "T"

    def ev_reshape(self, ishape, sval, isym, cs):
        cf, ir = self.cf, self.ir
        state = cf.OptimizerState()
        x = self.value(shape=ishape) if ishape is not None else ir.Value(name="x_noshape")
        if isym is not None:
            state.set_sym_value(x, ir.Shape(list(isym)))
        node = self.node("Reshape", [x, self.shape_value_input(state, sval, cs)])
        r = cf.reshape(node, self.TapeBuilder(), state)
        ident = "F"
        if r is not None:
            assert r.producer().op_type == "Identity"
            ident = "T"
        return ident + " " + enc_ir_shape(state.get_sym_value(node.outputs[0]))

    def ev_squeeze(self, isym):
        cf, ir = self.cf, self.ir
        state = cf.OptimizerState()
        x = self.value(shape=[1], dtype=ir.DataType.INT64)
        if isym is not None:
            state.set_sym_value(x, ir.Shape(list(isym)))
        node = self.node("Squeeze", [x])
        r = cf.squeeze(node, self.TapeBuilder(), state)
        assert r is None
        return enc_ir_shape(state.get_sym_value(node.outputs[0]))

    def ev_expand(self, ishape, kind, const, symt):
        cf, ir = self.cf, self.ir
        state = cf.OptimizerState()
        x = self.value(shape=ishape) if ishape is not None else ir.Value(name="x_noshape")
        if kind == "c":
            t = self.int64_const(const)
        elif kind == "m":
            t = self.value(const=np.array([list(const)], dtype=np.int64))
        else:
            t = self.shape_value_input(state, symt, False)
        node = self.node("Expand", [x, t])
        r = cf.expand(node, self.TapeBuilder(), state)
        if r is None:
            return "F"
        assert r.producer().op_type == "Identity"
        return "T"

    def ev_concat(self, ins, axis, consts):
        cf, ir = self.cf, self.ir
        state = cf.OptimizerState()
        vals = []
        for (tshape, sv), c in zip(ins, consts):
            if sv is not None and c and all(isinstance(d, int) for d in sv) and tshape == [len(sv)]:
                v = self.int64_const(list(sv))
            else:
                v = self.value(shape=tshape, dtype=ir.DataType.INT64) if tshape is not None else ir.Value(
                    name=f"c_noshape{len(vals)}", type=ir.TensorType(ir.DataType.INT64))
                if sv is not None:
                    state.set_sym_value(v, ir.Shape(list(sv)))
            vals.append(v)
        node = self.node("Concat", vals, {} if axis is None else {"axis": axis})
        r = cf.concat(node, self.TapeBuilder(), state)
        if r is not None:
            n = r.producer()
            if n.op_type == "Identity":
                k = [i for i, v in enumerate(vals) if v is n.inputs[0]][0]
                return f"identity:{k}"
            assert n.op_type == "Concat" and n.attributes["axis"].value == axis
            keep = []
            for inp in n.inputs:
                keep.append([i for i, v in enumerate(vals) if v is inp][0])
            return "concat:" + ",".join(map(str, keep))
        sym = state.get_sym_value(node.outputs[0])
        if sym is None:
            return "none"
        return "sym:" + enc_ir_shape(sym)

    def ev_identity(self, ishape, oshape, graph_input=False):
        cf, ir = self.cf, self.ir
        state = cf.OptimizerState()
        x = self.value(shape=ishape) if ishape is not None else ir.Value(name="x_noshape", type=ir.TensorType(ir.DataType.FLOAT))
        node = self.node("Identity", [x])
        if graph_input:
            self._keep = ir.Graph([x], [node.outputs[0]], nodes=[node], opset_imports={"": 18})
            assert x.is_graph_input()
        if oshape is not None:
            node.outputs[0].shape = ir.Shape(list(oshape))
        import logging

        lg = logging.getLogger(cf.__name__)
        old = lg.level
        lg.setLevel(logging.ERROR)
        try:
            r = cf.identity(node, None, state)
        finally:
            lg.setLevel(old)
        assert r is None and state.get_sym_value(node.outputs[0]) is x
        return enc_ir_shape(x.shape)

    def rule_expand_binary(self, op, side, x, y, tkind, const, eo, bo, use_set):
        """Apply the real expand-before-binary-op rule(s) to `op(Expand(x, t), y)` (side 0) or
        `op(y, Expand(x, t))` (side 1).  `x` = shape of the Expand input, `y` = shape of the other operand,
        tkind: 'c' constant target `const`, 'i' target is a graph input, 's' target is Shape(z) of a third input;
        `eo`/`bo`: annotations of the Expand output / binary-op output (None = absent).
        Answer: 'no' or 'fired:<in0>,<in1>' (names of the rebuilt node's inputs)."""
        import onnx
        from onnx import TensorProto, helper

        def vi(name, dt, shp):
            if shp is None:
                return helper.make_value_info(name, helper.make_tensor_type_proto(dt, None))
            return helper.make_tensor_value_info(name, dt, list(shp))

        inputs = [vi("xin", TensorProto.FLOAT, x), vi("yin", TensorProto.FLOAT, y)]
        inits, nodes = [], []
        if tkind == "c":
            inits.append(onnx.numpy_helper.from_array(np.array(const, dtype=np.int64), "tgt"))
        elif tkind == "i":
            inputs.append(vi("tgt", TensorProto.INT64, [None]))
        else:
            inputs.append(vi("zin", TensorProto.FLOAT, [None, None]))
            nodes.append(helper.make_node("Shape", ["zin"], ["tgt"]))
        nodes.append(helper.make_node("Expand", ["xin", "tgt"], ["e"]))
        nodes.append(helper.make_node(op, ["e", "yin"] if side == 0 else ["yin", "e"], ["out"]))
        value_info = [vi("e", TensorProto.FLOAT, eo)] if eo is not None else []
        g = helper.make_graph(nodes, "g", inputs, [vi("out", TensorProto.FLOAT, bo)], initializer=inits, value_info=value_info)
        m = self.ir.from_proto(helper.make_model(g, opset_imports=[helper.make_opsetid("", 18)], ir_version=8))
        if x is None or y is None:
            for v in m.graph.inputs:
                if (v.name == "xin" and x is None) or (v.name == "yin" and y is None):
                    v.shape = None
        if use_set:
            rs = self.reb.expand_before_binary_op_rules
        else:
            cls = self.reb._ExpandFirstInput if side == 0 else self.reb._ExpandSecondInput
            rs = self.RewriteRuleSet([cls.rule(op)])
        cnt = rs.apply_to_model(m)
        if cnt == 0:
            return "no"
        ns = [n for n in m.graph if n.op_type == op]
        assert cnt == 1 and len(ns) == 1
        return "fired:" + ",".join(i.name for i in ns[0].inputs)


    def rule_scatter_dyn(self, start, axis, dshape, tdshape):
        """Apply the real redundant-ScatterND rule set to the index-chain pattern.
        start: None (attribute absent) | int; axis: constant scalar; shapes of `data` and `transposed_data`."""
        from onnx import TensorProto, helper, numpy_helper

        from onnxscript.rewriter.rules.common import _redundant_scatter_nd as rsn

        def vi(name, dt, shp):
            if shp is None:
                return helper.make_value_info(name, helper.make_tensor_type_proto(dt, None))
            return helper.make_tensor_value_info(name, dt, list(shp))

        inits = [numpy_helper.from_array(np.array(axis, dtype=np.int64), "ax"), numpy_helper.from_array(np.array(0, dtype=np.int64), "zero"),
                 numpy_helper.from_array(np.array(1, dtype=np.int64), "one"), numpy_helper.from_array(np.array([-1], dtype=np.int64), "m1")]
        nodes = [
            helper.make_node("Shape", ["data"], ["sh"], **({} if start is None else {"start": start})),
            helper.make_node("Gather", ["sh", "ax"], ["dim"], axis=0),
            helper.make_node("Range", ["zero", "dim", "one"], ["r"]),
            helper.make_node("Unsqueeze", ["r", "m1"], ["r2"]),
            helper.make_node("ScatterND", ["td", "r2", "upd"], ["out"], reduction="none"),
        ]
        g = helper.make_graph(nodes, "g", [vi("data", TensorProto.FLOAT, dshape), vi("td", TensorProto.FLOAT, tdshape),
                                           vi("upd", TensorProto.FLOAT, tdshape)], [vi("out", TensorProto.FLOAT, None)], initializer=inits)
        m = self.ir.from_proto(helper.make_model(g, opset_imports=[helper.make_opsetid("", 18)], ir_version=8))
        cnt = self.RewriteRuleSet([rsn.no_op_dynamic_scatter_nd_rule]).apply_to_model(m)
        if cnt == 0:
            return "F"
        outn = [n for n in m.graph if n.outputs[0].name == "out" or n.op_type == "Identity"]
        assert any(n.op_type == "Identity" and n.inputs[0].name == "upd" for n in m.graph)
        return "T"

    def _vi(self, name, dt, shp):
        from onnx import helper

        if shp is None:
            return helper.make_value_info(name, helper.make_tensor_type_proto(dt, None))
        return helper.make_tensor_value_info(name, dt, list(shp))

    def rule_scatter_static(self, red, dshape, ushape, idx_rows):
        """red: None (attribute absent) | 'none' | 'add'; idx_rows: None (not a constant) | list of rows."""
        from onnx import TensorProto, helper, numpy_helper

        from onnxscript.rewriter.rules.common import _redundant_scatter_nd as rsn

        inputs = [self._vi("data", TensorProto.FLOAT, dshape), self._vi("upd", TensorProto.FLOAT, ushape)]
        inits = []
        if idx_rows is None:
            inputs.append(self._vi("idx", TensorProto.INT64, [None, 1]))
        else:
            arr = np.array(idx_rows, dtype=np.int64).reshape(len(idx_rows), len(idx_rows[0]) if idx_rows else 1)
            inits.append(numpy_helper.from_array(arr, "idx"))
        attrs = {} if red is None else {"reduction": red}
        g = helper.make_graph([helper.make_node("ScatterND", ["data", "idx", "upd"], ["out"], **attrs)], "g", inputs,
                              [self._vi("out", TensorProto.FLOAT, None)], initializer=inits)
        m = self.ir.from_proto(helper.make_model(g, opset_imports=[helper.make_opsetid("", 18)], ir_version=8))
        cnt = self.RewriteRuleSet([rsn.no_op_static_scatter_nd_rule]).apply_to_model(m)
        if cnt == 0:
            return "F"
        assert [n.op_type for n in m.graph] == ["Identity"] and list(m.graph)[0].inputs[0].name == "upd"
        return "T"

    def rule_collapse_slice(self, which, start, stop, axis, step, dshape, oshape):
        """start/stop/axis/step: None (graph input, not constant) | list of ints (constant). which: 1 | 2."""
        from onnx import TensorProto, helper, numpy_helper

        from onnxscript.rewriter.rules.common import _collapse_slices as cs

        inputs = [self._vi("data", TensorProto.FLOAT, dshape)]
        inits = []
        for name, v in (("st", start), ("en", stop), ("ax", axis), ("sp", step)):
            if v is None:
                inputs.append(self._vi(name, TensorProto.INT64, [None]))
            else:
                inits.append(numpy_helper.from_array(np.array(v, dtype=np.int64), name))
        g = helper.make_graph([helper.make_node("Slice", ["data", "st", "en", "ax", "sp"], ["out"])], "g", inputs,
                              [self._vi("out", TensorProto.FLOAT, oshape)], initializer=inits)
        m = self.ir.from_proto(helper.make_model(g, opset_imports=[helper.make_opsetid("", 18)], ir_version=8))
        rule = cs.collapse_slice_rule if which == 1 else cs.collapse_slice2_rule
        cnt = self.RewriteRuleSet([rule]).apply_to_model(m)
        if cnt == 0:
            return "F"
        assert [n.op_type for n in m.graph] == ["Identity"] and list(m.graph)[0].inputs[0].name == "data"
        return "T"

    def rule_squeeze_reshape(self, xshape):
        from onnx import TensorProto, helper, numpy_helper

        inits = [numpy_helper.from_array(np.array([-1], dtype=np.int64), "m1")]
        nodes = [helper.make_node("Squeeze", ["x"], ["sq"]), helper.make_node("Reshape", ["sq", "m1"], ["out"])]
        g = helper.make_graph(nodes, "g", [self._vi("x", TensorProto.INT64, xshape)], [self._vi("out", TensorProto.INT64, None)], initializer=inits)
        m = self.ir.from_proto(helper.make_model(g, opset_imports=[helper.make_opsetid("", 18)], ir_version=8))
        cnt = self.RewriteRuleSet([self.br.squeeze_reshape_1d_rule]).apply_to_model(m)
        if cnt == 0:
            return "F"
        assert any(n.op_type == "Identity" and n.inputs[0].name == "x" for n in m.graph)
        return "T"

    def rule_reshape_reshape(self, shape, oshape, az, xshape, s0, inner_az=None):
        """Apply the real `reshape_reshape_rule` to Reshape(Reshape(x, s0), shape).  shape: list (constant) | ("dyn", k)
        (graph input of length k); az: None (attribute absent) | int; s0: list (constant) | None (graph input).
        Answer: "N" | "RAISE" | "<new target> az<0|1>"."""
        from onnx import TensorProto, helper, numpy_helper

        inputs = [self._vi("x", TensorProto.FLOAT, xshape)]
        inits = []
        if s0 is None:
            inputs.append(self._vi("s0", TensorProto.INT64, [None]))
        else:
            inits.append(numpy_helper.from_array(np.array(s0, dtype=np.int64), "s0"))
        if isinstance(shape, tuple):
            inputs.append(self._vi("s1", TensorProto.INT64, [shape[1]]))
        else:
            inits.append(numpy_helper.from_array(np.array(shape, dtype=np.int64), "s1"))
        a1 = {} if az is None else {"allowzero": az}
        a0 = {} if inner_az is None else {"allowzero": inner_az}
        nodes = [helper.make_node("Reshape", ["x", "s0"], ["mid"], **a0), helper.make_node("Reshape", ["mid", "s1"], ["out"], **a1)]
        g = helper.make_graph(nodes, "g", inputs, [self._vi("out", TensorProto.FLOAT, oshape)], initializer=inits)
        m = self.ir.from_proto(helper.make_model(g, opset_imports=[helper.make_opsetid("", 18)], ir_version=8))
        try:
            cnt = self.RewriteRuleSet([self.br.reshape_reshape_rule]).apply_to_model(m)
        except IndexError:
            return "RAISE"
        if cnt == 0:
            return "N"
        rs = [n for n in m.graph if n.op_type == "Reshape"]
        assert len(rs) == 1 and rs[0].inputs[0].name == "x", "rewritten Reshape must read x"
        n = rs[0]
        tgt = n.inputs[1].const_value.numpy().tolist()
        a = n.attributes.get_int("allowzero", 0)
        return enc_ints(tgt) + f" az{a}"

    def get_shape_value(self, kind, is_i64, ndim, vals, sym):
        cf, ir = self.cf, self.ir
        state = cf.OptimizerState()
        if kind == "c":
            arr = np.array(vals, dtype=np.int64 if is_i64 else np.int32)
            if ndim == 0:
                arr = arr.reshape(())
            elif ndim == 2:
                arr = arr.reshape(1, -1)
            v = self.value(const=arr)
        else:
            v = self.value(shape=[None], dtype=ir.DataType.INT64)
        if sym is not None:
            state.set_sym_value(v, ir.Shape(list(sym)))
        return enc_ir_shape(state.get_shape_value(v))

    def rule_no_op(self, op, side, xshape, cshape, cval, as_init):
        """Apply the real `_no_op.rules` to op(x, c) (side 1) / op(c, x) (side 0); c a constant of the given shape."""
        from onnx import TensorProto, helper, numpy_helper

        from onnxscript.rewriter.rules.common import _no_op

        arr = np.full(cshape, cval, dtype=np.float32)
        inits, nodes = [], []
        if as_init:
            inits.append(numpy_helper.from_array(arr, "c"))
        else:
            nodes.append(helper.make_node("Constant", [], ["c"], value=numpy_helper.from_array(arr, "c_v")))
        nodes.append(helper.make_node(op, ["x", "c"] if side == 1 else ["c", "x"], ["out"]))
        g = helper.make_graph(nodes, "g", [self._vi("x", TensorProto.FLOAT, xshape)], [self._vi("out", TensorProto.FLOAT, None)], initializer=inits)
        m = self.ir.from_proto(helper.make_model(g, opset_imports=[helper.make_opsetid("", 18)], ir_version=8))
        cnt = _no_op.rules.apply_to_model(m)
        if cnt == 0:
            return "F"
        assert any(n.op_type == "Identity" and n.inputs[0].name == "x" for n in m.graph) and not any(n.op_type == op for n in m.graph)
        return "T"

    # ---- rules (through real rule application on a one-node model)
    def _model(self, inputs, node_op, node_inputs, attrs, out_shape, out_dtype=None):
        import onnx
        from onnx import TensorProto, helper

        def vi(name, dt, shp):
            if shp is None:
                t = helper.make_tensor_type_proto(dt, None)
                return helper.make_value_info(name, t)
            return helper.make_tensor_value_info(name, dt, [d for d in shp])

        g_inputs = [vi(n, dt, s) for (n, dt, s) in inputs]
        node = helper.make_node(node_op, node_inputs, ["out"], **attrs)
        g = helper.make_graph([node], "g", g_inputs, [vi("out", out_dtype or TensorProto.FLOAT, out_shape)])
        m = helper.make_model(g, opset_imports=[helper.make_opsetid("", 18)], ir_version=8)
        return self.ir.from_proto(m)

    def rule_materialize(self, oshape, is_const, ishape_rank=2):
        from onnx import TensorProto

        ir = self.ir
        k = len(oshape) if oshape is not None else 2
        m = self._model(
            [("x", TensorProto.FLOAT, [None] * ishape_rank), ("s", TensorProto.INT64, [k])],
            "Reshape", ["x", "s"], {}, oshape,
        )
        if is_const:
            sv = [v for v in m.graph.inputs if v.name == "s"][0]
            sv.const_value = ir.tensor(np.array([1] * k, dtype=np.int64))
        cnt = self.mrs.rules.apply_to_model(m)
        if cnt == 0:
            return "N"
        rs = [n for n in m.graph if n.op_type == "Reshape"]
        assert len(rs) == 1
        n = rs[0]
        tgt = n.inputs[1].const_value.numpy().tolist()
        az = n.attributes.get_int("allowzero", 0)
        return enc_ints(tgt) + f" az{az}"

    def rule_flatten(self, ishape, oshape, axis, rng):
        from onnx import TensorProto

        attrs = {} if (axis == 1 and rng.random() < 0.5) else {"axis": axis}
        m = self._model([("x", TensorProto.FLOAT, ishape)], "Flatten", ["x"], attrs, oshape)
        rs = self.RewriteRuleSet([self.br.flatten_to_reshape_rule])
        cnt = rs.apply_to_model(m)
        if cnt == 0:
            return "N"
        ns = [n for n in m.graph if n.op_type == "Reshape"]
        assert len(ns) == 1
        n = ns[0]
        tgt = n.inputs[1].const_value.numpy().tolist()
        az = n.attributes.get_int("allowzero", 0)
        return enc_ints(tgt) + f" az{az}"

    def rule_expand_identity(self, xshape, const):
        from onnx import TensorProto

        ir = self.ir
        k = len(const) if const is not None else 1
        m = self._model([("x", TensorProto.FLOAT, xshape), ("s", TensorProto.INT64, [k])], "Expand", ["x", "s"], {}, None)
        if const is not None:
            sv = [v for v in m.graph.inputs if v.name == "s"][0]
            sv.const_value = ir.tensor(np.array(const, dtype=np.int64))
        rs = self.RewriteRuleSet([self.br.no_op_expand_rule])
        cnt = rs.apply_to_model(m)
        return "T" if cnt == 1 and [n.op_type for n in m.graph] == ["Identity"] else "F"


def fake_ns(**kw):
    return types.SimpleNamespace(**kw)
