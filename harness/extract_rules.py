"""C05 translator: enumerate every shipped rewrite rule from /repo's working tree and emit
`lean/OV/Gen/C05RuleTable.lean`.

What is enumerated
* every name in `onnxscript.rewriter.rules.common.__all__` (a RewriteRule, a RewriteRuleSet, or a
  function returning a RewriteRuleSet);
* every module-level RewriteRule / RewriteRuleSet of the `rules.fusion` sub-modules;
* the optimizer's default set `onnxscript.rewriter._DEFAULT_REWRITE_RULES` (object by object; commuted
  copies are mapped back to the exported rule whose replacement object they share).

Per rule: key, implementing class (or condition-function name), a printed *skeleton* of the target
pattern (ops, constant literals with their tolerances, attribute literals, allow_other_* flags,
output arity), `remove_nodes`, `as_function`, number of commuted variants, membership in the default set.
The hand-written side (`OV/Model/C05Table.lean`) records what the models assume; `OV/Props/C05.lean`
closes `default_rules_covered`, `exported_rules_covered`, `skeletons_as_modelled` by `decide`.
"""
from __future__ import annotations

import importlib
import pkgutil
from pathlib import Path

GEN = Path(__file__).resolve().parent.parent / "lean" / "OV" / "Gen" / "C05RuleTable.lean"


def _lean_str(s: str) -> str:
    return '"' + s.replace("\\", "\\\\").replace('"', '\\"').replace("\n", " ") + '"'


def skeleton(rule) -> str:
    """Canonical, name-free print of a rule's target pattern."""
    from onnxscript.rewriter import _pattern_ir as P

    tp = rule._target_pattern
    names: dict[int, str] = {}

    def vname(v) -> str:
        if v is None:
            return "None"
        if isinstance(v, P.Constant):
            return f"Const({v._value!r},rel={v._rel_tol:g},abs={v._abs_tol:g})"
        if isinstance(v, P.NodeOutputPattern):
            return node(v.producer()) + (f".{v.output_index}" if v.output_index else "")
        if isinstance(v, P.BacktrackingOr):
            return "Or[" + "|".join(vname(x) for x in v._values) + "]"
        if isinstance(v, P.OpIdDispatchOr):
            return "OpOr[" + "|".join(sorted(vname(x) for x in v._op_to_pattern.values())) + "]" if hasattr(
                v, "_op_to_pattern"
            ) else "OpOr[?]"
        if isinstance(v, P.AnyValue):
            return "_"
        k = id(v)
        if k not in names:
            names[k] = f"v{len(names)}"
        return names[k]

    def attr(a) -> str:
        if isinstance(a, P.AttrConstantPattern):
            return repr(a._value)
        return "?"

    def node(n) -> str:
        op = n.op.value() if hasattr(n.op, "value") else str(n.op)
        dom = n.domain.value() if hasattr(n.domain, "value") else str(n.domain)
        s = (dom + "::" if dom else "") + op + "(" + ",".join(vname(i) for i in n.inputs)
        if n.allow_other_inputs:
            s += ",*"
        if n.attributes:
            s += ";" + ",".join(f"{k}={attr(a)}" for k, a in sorted(n.attributes.items()))
        if not n.allow_other_attributes:
            s += ";noextra"
        return s + ")"

    outs = []
    for o in tp.outputs:
        outs.append(vname(o))
    return " & ".join(outs)


def _func_tokens(fn, depth: int = 0, seen=None) -> list:
    """Source-order tokens of a condition function that carry its *decisions*: comparison / boolean operators, literal
    constants, names of called methods and helpers — not variable names, messages or docstrings.  Module-level helper functions
    it calls are followed (two levels)."""
    import ast
    import inspect
    import textwrap

    seen = seen if seen is not None else set()
    target = getattr(fn, "__func__", fn)
    if target in seen or depth > 2:
        return []
    seen.add(target)
    try:
        tree = ast.parse(textwrap.dedent(inspect.getsource(target)))
    except (OSError, TypeError, SyntaxError):
        return ["<no-source>"]
    glob = getattr(target, "__globals__", {})
    mod = getattr(target, "__module__", None)
    out: list = []

    class V(ast.NodeVisitor):
        def visit_FunctionDef(self, node):
            body = node.body
            if body and isinstance(body[0], ast.Expr) and isinstance(getattr(body[0], "value", None), ast.Constant) \
                    and isinstance(body[0].value.value, str):
                body = body[1:]          # docstring
            for st in body:
                self.visit(st)

        def visit_Compare(self, node):
            self.visit(node.left)
            for op, c in zip(node.ops, node.comparators):
                out.append(type(op).__name__)
                self.visit(c)

        def visit_BoolOp(self, node):
            out.append(type(node.op).__name__)
            self.generic_visit(node)

        def visit_UnaryOp(self, node):
            out.append(type(node.op).__name__)
            self.generic_visit(node)

        def visit_BinOp(self, node):
            out.append(type(node.op).__name__)
            self.generic_visit(node)

        def visit_Constant(self, node):
            out.append(repr(node.value))

        def visit_JoinedStr(self, node):
            return               # f-string: a message

        def visit_Return(self, node):
            out.append("return")
            self.generic_visit(node)

        def visit_Call(self, node):
            f = node.func
            name = f.attr if isinstance(f, ast.Attribute) else f.id if isinstance(f, ast.Name) else "?"
            if name == "fail":
                out.append("fail")       # the message is not a decision
                return
            out.append("call:" + name)
            for a in node.args:
                self.visit(a)
            for k in node.keywords:
                out.append(str(k.arg) + "=")
                self.visit(k.value)
            if isinstance(f, ast.Attribute):
                self.visit(f.value)
            if isinstance(f, ast.Name):
                g = glob.get(f.id)
                if inspect.isfunction(g) and getattr(g, "__module__", None) == mod:
                    out.append("{")
                    out.extend(_func_tokens(g, depth + 1, seen))
                    out.append("}")

    V().visit(tree)
    return out


def condition_tokens(rule) -> list:
    return _func_tokens(rule._condition_function)


def describe(rule, key: str, source: str, in_default: bool) -> dict:
    cf = rule._condition_function
    owner = getattr(cf, "__self__", None)
    cls = owner.__class__.__name__ if owner is not None else "fn:" + getattr(cf, "__name__", "?")
    try:
        ncomm = len(rule.commute())
    except (AssertionError, ValueError):
        ncomm = 0  # commute() is not applicable to this pattern (variadic commutative op / OrValue clone)
    import hashlib

    toks = condition_tokens(rule)
    return {
        "key": key,
        "cls": cls,
        "cond_tokens": toks,
        "cond_hash": hashlib.sha1(" ".join(toks).encode()).hexdigest()[:16],
        "skeleton": skeleton(rule),
        "remove_nodes": bool(rule.remove_nodes),
        "as_function": bool(rule.as_function),
        "commutes": ncomm,
        "in_default": in_default,
        "source": source,
    }


def enumerate_rules() -> tuple[list[dict], list[str], list[str]]:
    """Returns (rows, default_keys, exported_keys)."""
    import onnxscript.rewriter as rw
    from onnxscript.rewriter import RewriteRule, RewriteRuleSet
    from onnxscript.rewriter.rules import common as C
    from onnxscript.rewriter.rules import fusion as F

    rows: dict[str, dict] = {}
    objs: dict[str, object] = {}
    exported: list[str] = []

    def add(key, rule, source):
        rows[key] = describe(rule, key, source, False)
        objs[key] = rule
        exported.append(key)

    def add_any(name, obj, source):
        if callable(obj) and not isinstance(obj, (RewriteRule, RewriteRuleSet)):
            obj = obj()
        if isinstance(obj, RewriteRule):
            add(name, obj, source)
        elif isinstance(obj, RewriteRuleSet):
            for i, r in enumerate(obj.rules):
                add(f"{name}[{i}:{r.name or skeleton(r).split('(')[0]}]", r, source)
        else:
            raise TypeError(f"{name}: unexpected exported object {type(obj)}")

    for name in C.__all__:
        add_any(name, getattr(C, name), "common")
    for mi in sorted(pkgutil.iter_modules(F.__path__), key=lambda m: m.name):
        if mi.name.endswith("_test"):
            continue
        mod = importlib.import_module(f"{F.__name__}.{mi.name}")
        seen_ids = set()
        for attr_name in sorted(vars(mod)):
            obj = vars(mod)[attr_name]
            if isinstance(obj, RewriteRule) and id(obj) not in seen_ids:
                seen_ids.add(id(obj))
                add(f"fusion.{mi.name}.{attr_name}", obj, "fusion")

    # default set: map each object to an exported key (identity, or shared replacement object for commuted copies)
    default_keys: list[str] = []
    by_id = {id(o): k for k, o in objs.items()}
    by_repl = {id(o._replacement_pattern): k for k, o in objs.items()}
    counts: dict[str, int] = {}
    for r in rw._DEFAULT_REWRITE_RULES:
        base = by_id.get(id(r)) or by_repl.get(id(r._replacement_pattern))
        if base is None:
            key = f"default-only.{r.name or skeleton(r)}"
            rows[key] = describe(r, key, "default-only", True)
        elif by_id.get(id(r)) == base:
            key = base
            rows[key]["in_default"] = True
        else:
            k = counts.get(base, 0)
            counts[base] = k + 1
            key = f"{base}#c{k}"
            rows[key] = describe(r, key, "commuted", True)
        default_keys.append(key)
    return list(rows.values()), default_keys, exported


def condition_data() -> dict:
    """Literal data the rules' condition functions decide with, read from the live objects / source."""
    import ast
    import inspect
    import textwrap

    from onnxscript.rewriter.rules.common import _basic_rules as B
    from onnxscript.rewriter.rules.common import _collapse_slices as S
    from onnxscript.rewriter.rules.common import _fuse_hardswish as H
    from onnxscript.rewriter.rules.common import _remove_expand_before_binary_op as E
    from onnxscript.rewriter.rules.fusion import _layer_norm as LN

    data = {
        "cast_cast_allowed": sorted((int(a), int(b)) for a, b in B.CastCast._allowed_type2_type3),
        "broadcast_binary_ops": list(E._BROADCAST_BINARY_OPS),
        "int64_max": int(S._INT64_MAX),
        "layer_norm_compute_types": sorted(int(t) for t in LN.LAYER_NORM_COMPUTE_TYPES),
    }
    # is_singleton_value(<operand>, <expected>, rtol=<r>) calls of the hard-sigmoid base check, in source order
    tree = ast.parse(textwrap.dedent(inspect.getsource(H._HardSigmoidFusionBase.check)))
    hs = []
    for node in ast.walk(tree):
        if isinstance(node, ast.Call) and getattr(node.func, "id", getattr(node.func, "attr", "")) == "is_singleton_value":
            name = node.args[0].id if isinstance(node.args[0], ast.Name) else "?"
            expected = ast.literal_eval(node.args[1])
            rtol = None
            for k in node.keywords:
                if k.arg == "rtol":
                    rtol = ast.literal_eval(k.value)
            hs.append((node.lineno, name, expected, rtol))
    data["hardsigmoid_constants"] = [(n, e, r) for _, n, e, r in sorted(hs)]
    return data


def _rat(v) -> str:
    from fractions import Fraction
    if v is None:
        return "none"
    f = Fraction(str(v)) if isinstance(v, float) else Fraction(v)
    return f"some (({f.numerator} : Rat) / {f.denominator})"


def render(rows, default_keys, exported) -> str:
    out = [
        "/-! GENERATED by harness/extract_rules.py from /repo's working tree — do not edit. -/",
        "namespace OV.Gen.C05",
        "structure RuleRow where",
        "  key : String",
        "  cls : String",
        "  skeleton : String",
        "  removeNodes : Bool",
        "  asFunction : Bool",
        "  commutes : Nat",
        "  inDefault : Bool",
        "  source : String",
        "  condHash : String",
        "  deriving DecidableEq, Repr",
        "",
        "def rows : List RuleRow := [",
    ]
    body = []
    for r in rows:
        body.append(
            "  { key := %s, cls := %s, skeleton := %s, removeNodes := %s, asFunction := %s, commutes := %d, inDefault := %s, source := %s, condHash := %s }"
            % (
                _lean_str(r["key"]),
                _lean_str(r["cls"]),
                _lean_str(r["skeleton"]),
                "true" if r["remove_nodes"] else "false",
                "true" if r["as_function"] else "false",
                r["commutes"],
                "true" if r["in_default"] else "false",
                _lean_str(r["source"]),
                _lean_str(r["cond_hash"]),
            )
        )
    out.append(",\n".join(body))
    out.append("]")
    out.append("")
    out.append("def defaultRules : List String := [" + ", ".join(_lean_str(k) for k in default_keys) + "]")
    out.append("")
    out.append("def exportedRules : List String := [" + ", ".join(_lean_str(k) for k in exported) + "]")
    d = condition_data()
    out.append("")
    out.append("/-! Literal data of condition functions (live objects / source of /repo). -/")
    out.append("def castCastAllowed : List (Nat × Nat) := [" + ", ".join(f"({a}, {b})" for a, b in d["cast_cast_allowed"]) + "]")
    out.append("def broadcastBinaryOps : List String := [" + ", ".join(_lean_str(o) for o in d["broadcast_binary_ops"]) + "]")
    out.append(f"def int64Max : Int := {d['int64_max']}")
    out.append("def layerNormComputeTypes : List Nat := [" + ", ".join(str(t) for t in d["layer_norm_compute_types"]) + "]")
    out.append("/-- (operand, expected value, rtol) of each `is_singleton_value` test in `_HardSigmoidFusionBase.check`; `is_int` = exact compare. -/")
    out.append("def hardSigmoidConstants : List (String × Rat × Option Rat × Bool) := ["
               + ", ".join(f"({_lean_str(n)}, ({__import__('fractions').Fraction(str(e)).numerator} : Rat) / {__import__('fractions').Fraction(str(e)).denominator}, {_rat(r)}, {'true' if isinstance(e, int) else 'false'})"
                           for n, e, r in d["hardsigmoid_constants"]) + "]")
    out.append("end OV.Gen.C05")
    return "\n".join(out) + "\n"


def regenerate() -> dict:
    rows, dk, ex = enumerate_rules()
    text = render(rows, dk, ex)
    GEN.parent.mkdir(exist_ok=True)
    changed = not GEN.exists() or GEN.read_text() != text
    if changed:
        GEN.write_text(text)
    # readable companion of the hashes, for the violation message (not an input of any theorem)
    import json
    tok_file = GEN.parent.parent.parent.parent / "harness" / "c05_cond_tokens.current.json"
    tok_file.write_text(json.dumps({r["key"]: r["cond_tokens"] for r in rows}, indent=0))
    return {"rows": rows, "default": dk, "exported": ex, "changed": changed}


if __name__ == "__main__":
    r = regenerate()
    for row in r["rows"]:
        print(row["key"], "|", row["cls"], "|", row["skeleton"], "|", row["remove_nodes"], row["commutes"], row["in_default"])
    print(len(r["rows"]), "rows;", len(r["default"]), "default;", len(r["exported"]), "exported; changed:", r["changed"])
