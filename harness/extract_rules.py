"""C05 translator: enumerate every shipped rewrite rule from /repo's working tree and emit
`lean/OV/Gen/C05RuleTable.lean`.

What is enumerated
* every name in `onnxscript.rewriter.rules.common.__all__` (a RewriteRule, a RewriteRuleSet, or a
  function returning a RewriteRuleSet);
* every module-level RewriteRule / RewriteRuleSet of the `rules.fusion` sub-modules;
* the optimizer's default set `onnxscript.rewriter._DEFAULT_REWRITE_RULES` (object by object; commuted
  copies are mapped back to the exported rule whose replacement object they share).

Per rule: key, implementing class (or condition-function name), a printed *skeleton* of the target
pattern (ops, constant literals with their tolerances, attribute literals, allow_other_* flags,
output arity), `remove_nodes`, `as_function`, number of commuted variants, membership in the default set.
The hand-written side (`OV/Model/C05Table.lean`) records what the models assume; `OV/Props/C05.lean`
closes `default_rules_covered`, `exported_rules_covered`, `skeletons_as_modelled` by `decide`.
"""
from __future__ import annotations

import importlib
import pkgutil
from pathlib import Path

GEN = Path(__file__).resolve().parent.parent / "lean" / "OV" / "Gen" / "C05RuleTable.lean"


def _lean_str(s: str) -> str:
    return '"' + s.replace("\\", "\\\\").replace('"', '\\"').replace("\n", " ") + '"'


def skeleton(rule) -> str:
    """Canonical, name-free print of a rule's target pattern."""
    from onnxscript.rewriter import _pattern_ir as P

    tp = rule._target_pattern
    names: dict[int, str] = {}

    def vname(v) -> str:
        if v is None:
            return "None"
        if isinstance(v, P.Constant):
            return f"Const({v._value!r},rel={v._rel_tol:g},abs={v._abs_tol:g})"
        if isinstance(v, P.NodeOutputPattern):
            return node(v.producer()) + (f".{v.output_index}" if v.output_index else "")
        if isinstance(v, P.BacktrackingOr):
            return "Or[" + "|".join(vname(x) for x in v._values) + "]"
        if isinstance(v, P.OpIdDispatchOr):
            return "OpOr[" + "|".join(sorted(vname(x) for x in v._op_to_pattern.values())) + "]" if hasattr(
                v, "_op_to_pattern"
            ) else "OpOr[?]"
        if isinstance(v, P.AnyValue):
            return "_"
        k = id(v)
        if k not in names:
            names[k] = f"v{len(names)}"
        return names[k]

    def attr(a) -> str:
        if isinstance(a, P.AttrConstantPattern):
            return repr(a._value)
        return "?"

    def node(n) -> str:
        op = n.op.value() if hasattr(n.op, "value") else str(n.op)
        dom = n.domain.value() if hasattr(n.domain, "value") else str(n.domain)
        s = (dom + "::" if dom else "") + op + "(" + ",".join(vname(i) for i in n.inputs)
        if n.allow_other_inputs:
            s += ",*"
        if n.attributes:
            s += ";" + ",".join(f"{k}={attr(a)}" for k, a in sorted(n.attributes.items()))
        if not n.allow_other_attributes:
            s += ";noextra"
        return s + ")"

    outs = []
    for o in tp.outputs:
        outs.append(vname(o))
    return " & ".join(outs)


def describe(rule, key: str, source: str, in_default: bool) -> dict:
    cf = rule._condition_function
    owner = getattr(cf, "__self__", None)
    cls = owner.__class__.__name__ if owner is not None else "fn:" + getattr(cf, "__name__", "?")
    try:
        ncomm = len(rule.commute())
    except (AssertionError, ValueError):
        ncomm = 0  # commute() is not applicable to this pattern (variadic commutative op / OrValue clone)
    return {
        "key": key,
        "cls": cls,
        "skeleton": skeleton(rule),
        "remove_nodes": bool(rule.remove_nodes),
        "as_function": bool(rule.as_function),
        "commutes": ncomm,
        "in_default": in_default,
        "source": source,
    }


def enumerate_rules() -> tuple[list[dict], list[str], list[str]]:
    """Returns (rows, default_keys, exported_keys)."""
    import onnxscript.rewriter as rw
    from onnxscript.rewriter import RewriteRule, RewriteRuleSet
    from onnxscript.rewriter.rules import common as C
    from onnxscript.rewriter.rules import fusion as F

    rows: dict[str, dict] = {}
    objs: dict[str, object] = {}
    exported: list[str] = []

    def add(key, rule, source):
        rows[key] = describe(rule, key, source, False)
        objs[key] = rule
        exported.append(key)

    def add_any(name, obj, source):
        if callable(obj) and not isinstance(obj, (RewriteRule, RewriteRuleSet)):
            obj = obj()
        if isinstance(obj, RewriteRule):
            add(name, obj, source)
        elif isinstance(obj, RewriteRuleSet):
            for i, r in enumerate(obj.rules):
                add(f"{name}[{i}:{r.name or skeleton(r).split('(')[0]}]", r, source)
        else:
            raise TypeError(f"{name}: unexpected exported object {type(obj)}")

    for name in C.__all__:
        add_any(name, getattr(C, name), "common")
    for mi in sorted(pkgutil.iter_modules(F.__path__), key=lambda m: m.name):
        if mi.name.endswith("_test"):
            continue
        mod = importlib.import_module(f"{F.__name__}.{mi.name}")
        seen_ids = set()
        for attr_name in sorted(vars(mod)):
            obj = vars(mod)[attr_name]
            if isinstance(obj, RewriteRule) and id(obj) not in seen_ids:
                seen_ids.add(id(obj))
                add(f"fusion.{mi.name}.{attr_name}", obj, "fusion")

    # default set: map each object to an exported key (identity, or shared replacement object for commuted copies)
    default_keys: list[str] = []
    by_id = {id(o): k for k, o in objs.items()}
    by_repl = {id(o._replacement_pattern): k for k, o in objs.items()}
    counts: dict[str, int] = {}
    for r in rw._DEFAULT_REWRITE_RULES:
        base = by_id.get(id(r)) or by_repl.get(id(r._replacement_pattern))
        if base is None:
            key = f"default-only.{r.name or skeleton(r)}"
            rows[key] = describe(r, key, "default-only", True)
        elif by_id.get(id(r)) == base:
            key = base
            rows[key]["in_default"] = True
        else:
            k = counts.get(base, 0)
            counts[base] = k + 1
            key = f"{base}#c{k}"
            rows[key] = describe(r, key, "commuted", True)
        default_keys.append(key)
    return list(rows.values()), default_keys, exported


def render(rows, default_keys, exported) -> str:
    out = [
        "/-! GENERATED by harness/extract_rules.py from /repo's working tree — do not edit. -/",
        "namespace OV.Gen.C05",
        "structure RuleRow where",
        "  key : String",
        "  cls : String",
        "  skeleton : String",
        "  removeNodes : Bool",
        "  asFunction : Bool",
        "  commutes : Nat",
        "  inDefault : Bool",
        "  source : String",
        "  deriving DecidableEq, Repr",
        "",
        "def rows : List RuleRow := [",
    ]
    body = []
    for r in rows:
        body.append(
            "  { key := %s, cls := %s, skeleton := %s, removeNodes := %s, asFunction := %s, commutes := %d, inDefault := %s, source := %s }"
            % (
                _lean_str(r["key"]),
                _lean_str(r["cls"]),
                _lean_str(r["skeleton"]),
                "true" if r["remove_nodes"] else "false",
                "true" if r["as_function"] else "false",
                r["commutes"],
                "true" if r["in_default"] else "false",
                _lean_str(r["source"]),
            )
        )
    out.append(",\n".join(body))
    out.append("]")
    out.append("")
    out.append("def defaultRules : List String := [" + ", ".join(_lean_str(k) for k in default_keys) + "]")
    out.append("")
    out.append("def exportedRules : List String := [" + ", ".join(_lean_str(k) for k in exported) + "]")
    out.append("end OV.Gen.C05")
    return "\n".join(out) + "\n"


def regenerate() -> dict:
    rows, dk, ex = enumerate_rules()
    text = render(rows, dk, ex)
    GEN.parent.mkdir(exist_ok=True)
    changed = not GEN.exists() or GEN.read_text() != text
    if changed:
        GEN.write_text(text)
    return {"rows": rows, "default": dk, "exported": ex, "changed": changed}


if __name__ == "__main__":
    r = regenerate()
    for row in r["rows"]:
        print(row["key"], "|", row["cls"], "|", row["skeleton"], "|", row["remove_nodes"], row["commutes"], row["in_default"])
    print(len(r["rows"]), "rows;", len(r["default"]), "default;", len(r["exported"]), "exported; changed:", r["changed"])
