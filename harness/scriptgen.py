"""Compile batches of @script functions from generated source (shared by C01/C02/C11/C12/C13/C14).

`@script()` needs (a) source in a real file, (b) the module registered in sys.modules,
(c) an explicit default_opset.  Each function is wrapped in try/except so one refusal does
not lose the batch; refusals are reported per function as the exception class name.
"""
from __future__ import annotations

import importlib.util
import os
import shutil
import sys
import tempfile
import textwrap
from typing import Sequence

HEADER = """\
import numpy as np
import onnx
from onnxscript import script, graph, FLOAT, INT64, BOOL, DOUBLE, INT32, UINT8, FLOAT16
from onnxscript import opset18 as op
from onnxscript import opset17, opset19, opset20, opset21
ERR = {}
FN = {}
"""

_counter = 0


def compile_functions(bodies: Sequence[tuple[str, str]], header_extra: str = "", workdir: str | None = None):
    """bodies: [(name, source-of-decorated-def)].  Returns (FN: name->OnnxFunction, ERR: name->(cls,msg)).

    The source of each entry must start with the decorator line(s) at column 0.
    """
    global _counter
    _counter += 1
    tmp = workdir or tempfile.mkdtemp(prefix="ovscript_")
    modname = f"ov_gen_{os.getpid()}_{_counter}"
    path = os.path.join(tmp, modname + ".py")
    parts = [HEADER, header_extra, "\n"]
    for name, src in bodies:
        parts.append("try:\n")
        parts.append(textwrap.indent(src.rstrip("\n") + "\n", "    "))
        parts.append(f"    FN[{name!r}] = {name}\n")
        parts.append("except Exception as _e:\n")
        parts.append(f"    ERR[{name!r}] = (type(_e).__name__, str(_e)[:300])\n\n")
    with open(path, "w") as fh:
        fh.write("".join(parts))
    spec = importlib.util.spec_from_file_location(modname, path)
    mod = importlib.util.module_from_spec(spec)
    sys.modules[modname] = mod
    try:
        spec.loader.exec_module(mod)
    finally:
        pass
    fn, err = dict(mod.FN), dict(mod.ERR)
    # keep module registered until caller is done with protos; source file can go
    if workdir is None:
        shutil.rmtree(tmp, ignore_errors=True)
    return fn, err, modname


def release(modname: str) -> None:
    sys.modules.pop(modname, None)
