"""C15 model generator: valid small models carrying *every carrier* the property names.

A generated model has
  * a foldable part (`Add(w1,w2)`), a dead node, a rewritable no-op (`Mul(x,1)` / `Reshape∘Reshape`),
    a called model-local function, an unused model-local function, an unused opset import;
  * a custom-domain `Sink` node that keeps a bag of *exotic initializers* alive (no schema → never folded,
    never removed because its output is a graph output), so their payloads must survive every API;
  * metadata_props / doc_string on model, graph, nodes, value_info, functions, tensors;
  * several opset imports; ir_version from {8, 9, 10, 11, 12, 13} (function value_info lives in the
    function from 10 on, in the main graph's value_info below 10).
Everything random derives from the `random.Random` passed in.
"""
from __future__ import annotations

import struct

import numpy as np
import onnx
from onnx import TensorProto as TP
from onnx import helper

EXT_FILE = "c15_ext.bin"  # written into the run's scratch cwd by the harness (passes read external payloads)
EXT_BLOB = bytes((i * 37 + 11) % 256 for i in range(256))
CUSTOM = "c15.custom"
CUSTOM2 = "c15.custom.second"
REPL = "c15.repl"  # domain of an op that has NO model-local function: `replace_functions` is given its expansion


def triple_function(opset: int) -> onnx.FunctionProto:
    """Expansion handed to replace_functions for the `c15.repl::Triple` call (never a model-local function)."""
    fn = helper.make_function(
        REPL, "Triple", ["X"], ["Y"],
        [helper.make_node("Add", ["X", "X"], ["x2"], name="r_add1"), helper.make_node("Add", ["x2", "X"], ["Y"], name="r_add2")],
        [helper.make_opsetid("", opset)],
    )
    fn.doc_string = "expansion of Triple"
    return fn
LOCAL = "c15.local"

# ---------------------------------------------------------------------------------- exotic tensors

_RAW_WIDTH = {
    TP.FLOAT: 4, TP.UINT8: 1, TP.INT8: 1, TP.UINT16: 2, TP.INT16: 2, TP.INT32: 4, TP.INT64: 8, TP.BOOL: 1,
    TP.FLOAT16: 2, TP.DOUBLE: 8, TP.UINT32: 4, TP.UINT64: 8, TP.COMPLEX64: 8, TP.COMPLEX128: 16, TP.BFLOAT16: 2,
    TP.FLOAT8E4M3FN: 1, TP.FLOAT8E4M3FNUZ: 1, TP.FLOAT8E5M2: 1, TP.FLOAT8E5M2FNUZ: 1, TP.FLOAT8E8M0: 1,
}
_PACKED = {TP.UINT4: 2, TP.INT4: 2, TP.FLOAT4E2M1: 2, TP.UINT2: 4, TP.INT2: 4}  # elements per byte

ALL_DTYPES = sorted(list(_RAW_WIDTH) + list(_PACKED) + [TP.STRING])

# odd payloads, as raw little-endian bytes, per type
_ODD = {
    TP.FLOAT: [struct.pack("<I", v) for v in (0x7FC00001, 0xFFC12345, 0x7F800001, 0x80000000, 0x00000001, 0x807FFFFF, 0x7F800000, 0xFF800000)],
    TP.DOUBLE: [struct.pack("<Q", v) for v in (0x7FF8000000000001, 0xFFF0000000000123, 0x8000000000000000, 0x0000000000000001, 0x800FFFFFFFFFFFFF)],
    TP.FLOAT16: [struct.pack("<H", v) for v in (0x7E01, 0xFE55, 0x8000, 0x0001, 0x83FF, 0x7C00)],
    TP.BFLOAT16: [struct.pack("<H", v) for v in (0x7FC1, 0xFFFF, 0x8000, 0x0001, 0x807F, 0x7F80)],
}


def raw_tensor(rng, name: str, dtype: int, shape: list[int]) -> onnx.TensorProto:
    t = onnx.TensorProto()
    t.name = name
    t.data_type = dtype
    t.dims.extend(shape)
    n = int(np.prod(shape)) if shape else 1
    if dtype == TP.STRING:
        pool = [b"", b"a", "é∀".encode(), b"\x00\xff\xfe", b"x" * 40]
        t.string_data.extend(rng.choice(pool) for _ in range(n))
        return t
    if dtype in _PACKED:
        per = _PACKED[dtype]
        nbytes = (n + per - 1) // per
        b = bytearray(rng.getrandbits(8) for _ in range(nbytes))
        # padding bits of the last byte must be zero for a canonical packing
        rem = n % per
        if nbytes and rem:
            bits = 8 // per
            b[-1] &= (1 << (bits * rem)) - 1
        t.raw_data = bytes(b)
        return t
    w = _RAW_WIDTH[dtype]
    if dtype == TP.BOOL:
        t.raw_data = bytes(rng.randint(0, 1) for _ in range(n))
        return t
    odd = _ODD.get(dtype)
    chunks = []
    for _ in range(n):
        if odd and rng.random() < 0.6:
            chunks.append(rng.choice(odd))
        else:
            chunks.append(bytes(rng.getrandbits(8) for _ in range(w)))
    t.raw_data = b"".join(chunks)
    return t


def typed_field_tensor(rng, name: str, kind: str, shape: list[int]) -> onnx.TensorProto:
    """Tensors stored in the typed repeated fields instead of raw_data."""
    n = int(np.prod(shape)) if shape else 1
    t = onnx.TensorProto()
    t.name = name
    t.dims.extend(shape)
    if kind == "float_data":
        t.data_type = TP.FLOAT
        vals = [rng.choice([0.0, -0.0, 1.5, float("nan"), float("inf"), 1e-45, -3.25]) for _ in range(n)]
        t.float_data.extend(vals)
    elif kind == "int32_data_i8":
        t.data_type = TP.INT8
        t.int32_data.extend(rng.randint(-128, 127) for _ in range(n))
    elif kind == "int32_data_f16":
        t.data_type = TP.FLOAT16
        t.int32_data.extend(rng.choice([0x7E01, 0x8000, 0x0001, 0x3C00]) for _ in range(n))
    elif kind == "int64_data":
        t.data_type = TP.INT64
        t.int64_data.extend(rng.choice([0, -1, 2**63 - 1, -(2**63), 7]) for _ in range(n))
    elif kind == "double_data":
        t.data_type = TP.DOUBLE
        t.double_data.extend(rng.choice([0.0, -0.0, 5e-324, float("nan"), -2.5]) for _ in range(n))
    elif kind == "uint64_data":
        t.data_type = TP.UINT64
        t.uint64_data.extend(rng.choice([0, 2**64 - 1, 9]) for _ in range(n))
    else:
        raise ValueError(kind)
    return t


TYPED_KINDS = ["float_data", "int32_data_i8", "int32_data_f16", "int64_data", "double_data", "uint64_data"]


def external_tensor(name: str, dtype: int, shape: list[int], location: str, offset: int, length: int) -> onnx.TensorProto:
    t = onnx.TensorProto()
    t.name = name
    t.data_type = dtype
    t.dims.extend(shape)
    t.data_location = TP.EXTERNAL
    for k, v in (("location", location), ("offset", str(offset)), ("length", str(length))):
        e = t.external_data.add()
        e.key, e.value = k, v
    return t


def rand_shape(rng) -> list[int]:
    r = rng.random()
    if r < 0.12:
        return []
    if r < 0.27:
        return rng.choice([[0], [2, 0], [0, 3], [1, 0, 2]])
    rank = rng.choice([1, 1, 2, 3])
    return [rng.choice([1, 2, 3]) for _ in range(rank)]


def meta(rng, tag: str, k: int | None = None) -> list[tuple[str, str]]:
    k = rng.randint(1, 3) if k is None else k
    keys = rng.sample(["zeta", "alpha", "pkg.torch.onnx.stack_trace", "namespace", "k 0", "é", "m"], k)
    return [(key, f"{tag}:{rng.randint(0, 99)}") for key in keys]


def set_meta(container, pairs) -> None:
    for k, v in pairs:
        e = container.add()
        e.key, e.value = k, v


# ---------------------------------------------------------------------------------- model


def gen_model(rng, *, opset: int | None = None, features: dict | None = None, ext_dir: str | None = None) -> tuple[onnx.ModelProto, dict]:
    """Returns (model, info).  `features` forces options (used by the shrinker); missing keys are drawn."""
    f = dict(features or {})

    def opt(key, p=0.5, choices=None):
        if key not in f:
            f[key] = rng.choice(choices) if choices is not None else (rng.random() < p)
        return f[key]

    opset = opset if opset is not None else opt("opset", choices=[17, 18, 18, 19, 20, 21])
    f["opset"] = opset
    ir_version = opt("ir_version", choices=[8, 9, 10, 10, 11, 12, 13])
    sym = opt("symbolic_batch", 0.4)
    N = "N" if sym else 2
    nodes = []
    inits = []
    vinfo = []

    # -- `no_fold`: a model in which constant folding finds nothing to fold or replace (no constant subexpression,
    #    no Identity, no same-type Cast, no growing fold) but still *annotates* the IR (shape inference on nodes
    #    without value_info, Constant outputs): FoldConstantsResult.modified stays False
    no_fold = opt("no_fold", 0.15)
    if no_fold:
        f.update(cast_cast=False, expand_fold="none", big_initializer="none", subgraph_if=False)
    # -- `trimmable`: live nodes with an unused optional output (LayerNormalization Mean) and trailing empty inputs
    #    (Clip(x, '', '')): RemoveUnusedNodesPass trims both WITHOUT counting them in PassResult.modified; together with
    #    `nothing_dead` (no dead node, no unused initializer, no dead node in a function) the pass changes the model while
    #    reporting modified=False
    trim = opt("trimmable", 0.3)
    if trim and opt("nothing_dead", 0.6):
        f.update(dead_node=False, unused_initializer=False, function_dead_node=False)
    # -- foldable constant part and the main chain
    w1 = helper.make_tensor("w1", TP.FLOAT, [4], [1.0, 2.0, 3.0, 4.0])
    w2v = np.array([0.5, 0.5, -0.0, 1.0], dtype=np.float32)
    w2 = helper.make_tensor("w2", TP.FLOAT, [4], w2v.tobytes(), raw=True) if opt("w2_raw") else helper.make_tensor("w2", TP.FLOAT, [4], w2v.tolist())
    inits += [w1, w2]
    if not no_fold:
        nodes.append(helper.make_node("Add", ["w1", "w2"], ["c"], name="n_fold"))
    nodes.append(helper.make_node("Mul", ["x", "w1" if no_fold else "c"], ["t"], name="n_mul"))
    nodes.append(helper.make_node("Relu", ["t"], ["u"], name="n_relu"))
    vinfo.append(helper.make_tensor_value_info("t", TP.FLOAT, [N, 4]))
    vinfo.append(helper.make_tensor_value_info("u", TP.FLOAT, [N, 4]))
    cur = "u"
    if opt("dead_node", 0.7):
        nodes.append(helper.make_node("Neg", ["x"], ["dead"], name="n_dead"))
    if opt("noop_mul", 0.6):
        inits.append(helper.make_tensor("one", TP.FLOAT, [], [1.0]))
        nodes.append(helper.make_node("Mul", [cur, "one"], ["m1"], name="n_noop"))
        cur = "m1"
    if opt("cast_cast", 0.4):
        nodes.append(helper.make_node("Cast", [cur], ["cc1"], to=TP.FLOAT, name="n_cast1"))
        nodes.append(helper.make_node("Cast", ["cc1"], ["cc2"], to=TP.FLOAT, name="n_cast2"))
        cur = "cc2"
    if trim:
        nodes.append(helper.make_node("LayerNormalization", [cur, "w1"], ["ln", "ln_mean"], name="n_layernorm", axis=-1))
        nodes.append(helper.make_node("Clip", ["ln", "", ""], ["cl"], name="n_clip"))
        cur = "cl"
    has_fn = opt("function_call", 0.6)
    if has_fn:
        nodes.append(helper.make_node("Scale2", [cur], ["fo"], domain=LOCAL, name="n_call", bias=0.25))
        cur = "fo"
    if opt("versioned_op", 0.5):
        # ops whose schema changes across 17..23 so that adapters / version stamps matter
        nodes.append(helper.make_node("ReduceMax", [cur], ["rm"], name="n_reducemax", keepdims=1))
        nodes.append(helper.make_node("Add", [cur, "rm"], ["rma"], name="n_rma"))
        cur = "rma"
    # -- an op that does not exist below opset 20 (Gelu): the onnx C-API converter RAISES on a down-conversion across 20,
    #    `convert_version(..., fallback=True)` swallows that and must leave the model as it was (failure path)
    if opset >= 20 and opt("introduced_op", 0.5):
        nodes.append(helper.make_node("Gelu", [cur], ["ge"], name="n_gelu"))
        cur = "ge"
    else:
        f["introduced_op"] = False
    # -- initializers with more than 1000 elements (the C-API fallback strips and re-attaches such payloads),
    #    plain or also listed as a graph input (an overridable default)
    big = opt("big_initializer", choices=["none", "none", "none", "plain", "input", "input"])
    if big != "none":
        vals = [((i * 37) % 101 - 50) / 8.0 for i in range(1100)]
        inits.append(helper.make_tensor("big_w", TP.FLOAT, [275, 4], np.array(vals, dtype=np.float32).tobytes(), raw=True))
        nodes.append(helper.make_node("ReduceMean", ["big_w"], ["big_m"], name="n_bigmean", keepdims=0))
        nodes.append(helper.make_node("Add", [cur, "big_m"], ["big_a"], name="n_bigadd"))
        cur = "big_a"
    # -- a call to an op of a domain without model-local function (what replace_functions expands)
    if opt("repl_call", 0.35):
        nodes.append(helper.make_node("Triple", [cur], ["tr"], domain=REPL, name="n_triple"))
        cur = "tr"
    # -- a Constant node holding a tensor attribute (tensor name '' as exporters emit it, or named, with doc/metadata)
    sink_extra = []
    ct = opt("const_tensor_node", choices=["none", "none", "anon", "named"])
    if ct != "none":
        t = helper.make_tensor("" if ct == "anon" else "ct_payload", TP.FLOAT, [4], [0.25, -0.0, 2.0, 8.0])
        if ct == "anon":
            t.ClearField("name")
        else:
            t.doc_string = "attribute tensor doc"
        cn = helper.make_node("Constant", [], ["ct"], name="n_const")
        a = cn.attribute.add()
        a.name, a.type = "value", onnx.AttributeProto.TENSOR
        a.t.CopyFrom(t)
        if rng.random() < 0.4:
            a.doc_string = "attribute doc"
        nodes.append(cn)
        nodes.append(helper.make_node("Add", [cur, "ct"], ["cta"], name="n_cta"))
        cur = "cta"
    # -- a fold that GROWS data: Expand of a small constant; sizes straddle explicit and default size limits
    ef = opt("expand_fold", choices=["none", "none", "small", "small", "mid", "mid", "big"])
    if ef != "none":
        rows, cols = {"small": (2, 3), "mid": (100, 100), "big": (600, 600)}[ef]
        seed_t = helper.make_tensor("ef_seed", TP.FLOAT, [1, cols], [float(i % 7) for i in range(cols)])
        shape_t = helper.make_tensor("ef_shape", TP.INT64, [2], [rows, cols])
        if opt("expand_from_constant_nodes", 0.5):
            for nm, tt in (("ef_seed", seed_t), ("ef_shape", shape_t)):
                cn = helper.make_node("Constant", [], [nm], name="n_" + nm)
                a = cn.attribute.add()
                a.name, a.type = "value", onnx.AttributeProto.TENSOR
                a.t.CopyFrom(tt)
                a.t.ClearField("name")
                nodes.append(cn)
        else:
            inits += [seed_t, shape_t]
        nodes.append(helper.make_node("Expand", ["ef_seed", "ef_shape"], ["ef_big"], name="n_expand"))
        sink_extra.append("ef_big")
    # -- a sparse tensor attribute
    if opt("sparse_attr", 0.06):
        cn = helper.make_node("Constant", [], ["sp_c"], name="n_sparse")
        a = cn.attribute.add()
        a.name, a.type = "sparse_value", onnx.AttributeProto.SPARSE_TENSOR
        a.sparse_tensor.values.CopyFrom(helper.make_tensor("sp_vals", TP.FLOAT, [2], [1.5, -2.5]))
        a.sparse_tensor.indices.CopyFrom(helper.make_tensor("sp_idx", TP.INT64, [2], [0, 3]))
        a.sparse_tensor.dims.append(5)
        nodes.append(cn)
        sink_extra.append("sp_c")
    # -- an If with sub-graphs carrying their own initializer / value_info / metadata / doc
    has_if = opt("subgraph_if", 0.35)
    if has_if:
        tw = helper.make_tensor("then_w", TP.FLOAT, [4], [2.0, 2.0, 2.0, 2.0])
        tn = helper.make_node("Mul", [cur, "then_w"], ["then_mid"], name="n_then_mul")
        tn2 = helper.make_node("Identity", ["then_mid"], ["then_out"], name="n_then_id")
        then_g = helper.make_graph([tn, tn2], "then_body", [], [helper.make_tensor_value_info("then_out", TP.FLOAT, [N, 4])], [tw],
                                   value_info=[helper.make_tensor_value_info("then_mid", TP.FLOAT, [N, 4])])
        then_g.doc_string = "then doc"
        set_meta(then_g.metadata_props, meta(rng, "SG", 2))
        set_meta(tn.metadata_props, meta(rng, "SGN", 1))
        en = helper.make_node("Neg", [cur], ["else_out"], name="n_else_neg", doc_string="else node doc")
        else_g = helper.make_graph([en], "else_body", [], [helper.make_tensor_value_info("else_out", TP.FLOAT, [N, 4])])
        if ir_version >= 10:
            set_meta(then_g.value_info[0].metadata_props, meta(rng, "SGV", 1))
        nodes.append(helper.make_node("If", ["flag"], ["if_out"], name="n_if", then_branch=then_g, else_branch=else_g))
        cur = "if_out"
    if opt("second_custom_domain", 0.3):
        nodes.append(helper.make_node("Probe", [cur], ["probe_out"], domain=CUSTOM2, name="n_probe", level=3))
        sink_extra.append("probe_out")
    nodes.append(helper.make_node("Abs" if no_fold else "Identity", [cur], ["y"], name="n_out"))

    # -- exotic initializers kept alive by a schema-less custom op
    exotic = []
    n_ex = opt("n_exotic", choices=[0, 2, 4, 6, 9])
    dts = list(ALL_DTYPES)
    rng.shuffle(dts)
    forced = f.get("exotic_spec")
    spec = []
    if forced is not None:
        spec = [tuple(s) for s in forced]
    else:
        for i in range(n_ex):
            r = rng.random()
            if r < 0.72:
                spec.append(("raw", dts[i % len(dts)], rand_shape(rng)))
            elif r < 0.9:
                spec.append(("typed", rng.choice(TYPED_KINDS), rand_shape(rng)))
            else:
                spec.append(("ext", rng.choice([TP.FLOAT, TP.INT8, TP.BFLOAT16]), [rng.choice([1, 2, 3])]))
    f["exotic_spec"] = [list(s) for s in spec]
    tensor_meta = opt("tensor_meta", 0.12)
    for i, (kind, a, shp) in enumerate(spec):
        name = f"ex{i}"
        shp = list(shp)
        if kind == "raw":
            t = raw_tensor(rng, name, int(a), shp)
        elif kind == "typed":
            t = typed_field_tensor(rng, name, a, shp)
        else:
            w = _RAW_WIDTH[int(a)]
            n = int(np.prod(shp))
            off = rng.randint(0, len(EXT_BLOB) - n * w)
            t = external_tensor(name, int(a), shp, EXT_FILE, off, n * w)
        if rng.random() < 0.3:
            t.doc_string = f"tensor doc {i}"
        if rng.random() < 0.5 and (kind == "ext" or tensor_meta):
            # inline tensors with metadata_props are inside known finding C15-TMETA: only under `tensor_meta`
            set_meta(t.metadata_props, meta(rng, f"T{i}", 1))
        exotic.append(t)
    has_sink = bool(exotic or sink_extra)
    if has_sink:
        nodes.insert(len(nodes) - 1, helper.make_node("Sink", [t.name for t in exotic] + sink_extra, ["sink_out"], domain=CUSTOM, name="n_sink", mode="keep"))
        inits += exotic
    if opt("unused_initializer", 0.4):
        inits.append(helper.make_tensor("unused_w", TP.INT64, [2], [7, -7]))
    rng.shuffle(inits)

    inputs = [helper.make_tensor_value_info("x", TP.FLOAT, [N, 4])]
    if has_if:
        inputs.append(helper.make_tensor_value_info("flag", TP.BOOL, []))
    if opt("initializer_as_input", 0.25):
        inputs.append(helper.make_tensor_value_info("w1", TP.FLOAT, [4]))
    if f.get("big_initializer") == "input":
        inputs.append(helper.make_tensor_value_info("big_w", TP.FLOAT, [275, 4]))
    outputs = [helper.make_tensor_value_info("y", TP.FLOAT, [N, 4])]
    if has_sink:
        outputs.append(helper.make_tensor_value_info("sink_out", TP.FLOAT, None))

    graph = helper.make_graph(nodes, opt("graph_name", choices=["main_graph", "g", "G 1"]), inputs, outputs, inits, value_info=vinfo)
    if opt("graph_doc"):
        graph.doc_string = "graph doc\nline 2"
    if opt("graph_meta"):
        set_meta(graph.metadata_props, meta(rng, "G"))
    if opt("node_meta", 0.7):
        for n in graph.node:
            if rng.random() < 0.6:
                set_meta(n.metadata_props, meta(rng, "N:" + n.name))
            if rng.random() < 0.4:
                n.doc_string = f"doc of {n.name}"
    if opt("value_meta", 0.5) and ir_version >= 10:
        for vi in list(graph.value_info) + list(graph.input) + list(graph.output):
            if rng.random() < 0.6:
                set_meta(vi.metadata_props, meta(rng, "V:" + vi.name, 1))
    if opt("value_doc", 0.4):
        for vi in list(graph.value_info) + list(graph.input) + list(graph.output):
            if rng.random() < 0.5:
                vi.doc_string = f"value doc {vi.name}"
    if opt("init_value_info", 0.3):
        # explicit value_info for an initializer (the annotation N would add anyway)
        graph.value_info.append(helper.make_tensor_value_info("w2", TP.FLOAT, [4]))

    # -- functions
    functions = []
    fn_opsets = [helper.make_opsetid("", opset)]
    if has_fn:
        fn = helper.make_function(
            LOCAL, "Scale2", ["X"], ["Y"],
            [
                helper.make_node("Constant", [], ["b"], name="f_const"),
                helper.make_node("Add", ["X", "X"], ["xx"], name="f_add"),
                helper.make_node("Add", ["xx", "b"], ["Y"], name="f_bias"),
            ] + ([helper.make_node("Neg", ["X"], ["f_unused"], name="f_dead")] if opt("function_dead_node", 0.4) else []),
            fn_opsets, attributes=["bias"],
        )
        a = fn.node[0].attribute.add()
        a.name, a.ref_attr_name, a.type = "value_float", "bias", onnx.AttributeProto.FLOAT
        if opt("function_doc"):
            fn.doc_string = "function doc"
        if opt("function_meta") :
            set_meta(fn.metadata_props, meta(rng, "F"))
            set_meta(fn.node[1].metadata_props, meta(rng, "FN", 1))
        if opt("function_value_info", 0.4) and ir_version >= 10:
            fn.value_info.append(helper.make_tensor_value_info("xx", TP.FLOAT, None))
        functions.append(fn)
    if opt("unused_function", 0.5):
        fn2 = helper.make_function(LOCAL, "Unused", ["A"], ["B"], [helper.make_node("Neg", ["A"], ["B"])], fn_opsets)
        if rng.random() < 0.5:
            fn2.doc_string = "unused function doc"
        functions.append(fn2)
    if opt("functions_reversed", 0.3):
        functions.reverse()

    opsets = [helper.make_opsetid("", opset)]
    if has_sink:
        opsets.append(helper.make_opsetid(CUSTOM, 1))
    if f.get("repl_call"):
        opsets.append(helper.make_opsetid(REPL, 1))
    if f.get("second_custom_domain"):
        opsets.append(helper.make_opsetid(CUSTOM2, 2))
    if functions:
        opsets.append(helper.make_opsetid(LOCAL, 1))
    if opt("unused_opset", 0.5):
        opsets.append(helper.make_opsetid("com.microsoft", 1))
    if opt("opsets_shuffled", 0.4):
        rng.shuffle(opsets)

    model = helper.make_model(graph, opset_imports=opsets, functions=functions, ir_version=ir_version)
    model.ClearField("producer_name")
    model.ClearField("producer_version")
    if opt("producer"):
        model.producer_name = rng.choice(["pytorch", "c15-gen", "π"])
        model.producer_version = rng.choice(["2.14.0", "0.0.1+dev"])
    if opt("domain", 0.4):
        model.domain = "ai.verif.c15"
    if opt("model_version", 0.4):
        model.model_version = rng.choice([1, 42, 2**62])
    if opt("model_doc"):
        model.doc_string = "model doc ✓\n\ttabbed"
    if opt("model_meta"):
        set_meta(model.metadata_props, meta(rng, "M"))
    if opt("explicit_defaults", 0.3):
        # fields *explicitly set to their default* (proto2 presence): the only things N may drop
        model.producer_name = model.producer_name if model.HasField("producer_name") and rng.random() < 0.5 else ""
        model.model_version = 0
        model.domain = ""
        graph_ = model.graph
        graph_.doc_string = graph_.doc_string if graph_.HasField("doc_string") and rng.random() < 0.5 else ""
    if opt("other_fields", 0.06):
        # proto fields without an IR counterpart (known finding C15-SPARSE)
        sp = model.graph.sparse_initializer.add()
        sp.values.CopyFrom(helper.make_tensor("sparse_w", TP.FLOAT, [1], [3.0]))
        sp.indices.CopyFrom(helper.make_tensor("sparse_w_idx", TP.INT64, [1], [1]))
        sp.dims.append(4)
        model.training_info.add().algorithm.name = "alg"
    info = {"features": f, "has_ext": any(k == "ext" for k, _, _ in spec)}
    return model, info
