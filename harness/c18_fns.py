"""C18: script functions used as callees of GraphBuilder.call / call_inline (need a real source file)."""
from onnxscript import FLOAT, script
from onnxscript import opset21 as op


@script(default_opset=op)
def s_addrelu(a: FLOAT[3], b: FLOAT[3]):
    t = op.Add(a, b)
    return op.Relu(t)


@script(default_opset=op)
def s_two(a: FLOAT[3]):
    t = op.Neg(a)
    u = op.Abs(a)
    return t, u


@script(default_opset=op)
def s_scale(a: FLOAT[3], alpha: float):
    c = op.Constant(value_float=alpha)
    return op.Mul(a, c)


@script(default_opset=op)
def s_default(a: FLOAT[3], alpha: float = 2.0):
    c = op.Constant(value_float=alpha)
    return op.Mul(a, c)


# falsy declared defaults (0.0 / 0) whose operator schema default differs (LeakyRelu alpha=0.01, Softmax axis=-1)
@script(default_opset=op)
def s_leaky0(a: FLOAT[3], alpha: float = 0.0):
    return op.LeakyRelu(a, alpha=alpha)


@script(default_opset=op)
def s_softmax0(a: FLOAT[3], axis: int = 0):
    u = op.Unsqueeze(a, [0])
    n = op.Neg(u)
    c = op.Concat(u, n, axis=0)
    s = op.Softmax(c, axis=axis)
    return op.ReduceSum(op.Mul(s, c), [0], keepdims=0)
