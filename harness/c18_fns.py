"""C18: script functions used as callees of GraphBuilder.call / call_inline (need a real source file)."""
from onnxscript import FLOAT, script
from onnxscript import opset21 as op


@script(default_opset=op)
def s_addrelu(a: FLOAT[3], b: FLOAT[3]):
    t = op.Add(a, b)
    return op.Relu(t)


@script(default_opset=op)
def s_two(a: FLOAT[3]):
    t = op.Neg(a)
    u = op.Abs(a)
    return t, u


@script(default_opset=op)
def s_scale(a: FLOAT[3], alpha: float):
    c = op.Constant(value_float=alpha)
    return op.Mul(a, c)


@script(default_opset=op)
def s_default(a: FLOAT[3], alpha: float = 2.0):
    c = op.Constant(value_float=alpha)
    return op.Mul(a, c)
