"""C03 — evaluator state of a FRESH process ("the first call decides").

`opset_history_stream` (c03_streams.py) folds version-sensitive constant nodes of several opsets in the check's own process,
i.e. after ~2000 other models have been folded: whatever state the folder keeps has already been decided by them, and which
orders are tried depends on the run's random choices.  This stream removes both dependencies: for each `first` in (oldest,
newest) a child process (fresh interpreter, fresh module-level evaluator) folds every kind at opset `first` FIRST and then at
the other opsets, and compares original vs fold_constants/optimize on onnxruntime.  Deterministic; no random choice.

child:  python -m harness.c03_history <first>      → last stdout line = JSON list of failures
"""
from __future__ import annotations

import json
import os
import subprocess
import sys
from collections import Counter

import numpy as np

KINDS = ["squeeze", "unsqueeze", "reducesum", "softmax", "split", "clip", "reducemax", "reducemean", "reducemin",
         "reduceprod", "reducelogsum", "reducelogsumexp", "reducesumsquare", "pad", "reshape", "argmax", "averagepool", "topk"]
VERSIONS = [11, 13, 18, 21]


def child(first: int) -> list:
    from harness import c03_lib as L
    from harness import c03_run as R
    from harness import c03_streams as S

    feeds = [{"x": np.array([0.5], dtype=np.float32)}]
    out = []
    for kind in KINDS:
        seq = [first] + [v for v in VERSIONS if v != first]
        for i, v in enumerate(seq):
            m = S.versioned_model(v, kind)
            for api in ("fold_constants", "optimize"):
                try:
                    m2 = R.apply_api(api, m, {})
                except Exception as e:
                    out.append({"what": "raised", "kind": kind, "v": v, "api": api, "seq": seq[: i + 1], "detail": f"{type(e).__name__}: {str(e)[:120]}",
                                "model_b64": R.b64(m)})
                    continue
                sd = L.semantic_diff(m, m2, feeds, must_run=True)
                if sd:
                    out.append({"what": "semantic", "kind": kind, "v": v, "api": api, "seq": seq[: i + 1], "detail": sd, "model_b64": R.b64(m)})
    return out


def run_child(first: int) -> list:
    from harness import core

    p = subprocess.run([sys.executable, "-m", "harness.c03_history", str(first)], cwd=str(core.VERIF), env=dict(os.environ),
                       capture_output=True, text=True, timeout=900)
    lines = [ln for ln in p.stdout.splitlines() if ln.startswith("[")]
    if p.returncode != 0 or not lines:
        raise core.Infra(f"fresh-process history child failed rc={p.returncode}: {p.stderr[-400:]}")
    return json.loads(lines[-1])


def fresh_process_history_stream(run, stats: Counter):
    """Returns failures in the format of the other streams: (kind, desc, detail)."""
    failures = []
    open_ids = {f["id"] for f in run.open_findings()}
    for first in (VERSIONS[0], VERSIONS[-1]):
        res = run_child(first)
        stats["history_fresh_processes"] += 1
        stats["history_fresh_runs"] += len(KINDS) * len(VERSIONS) * 2
        for r in res:
            if r["kind"] == "softmax" and r["v"] < 13 and "C03-D3" in open_ids:
                stats["known_C03-D3_in_stream"] += 1
                continue
            if r["what"] != "semantic":
                continue  # totality is C04's clause
            desc = {"model_b64": r["model_b64"], "api": r["api"], "opts": {}, "kind": r["kind"], "fresh_first": first, "v": r["v"],
                    "history": f"fresh process; opsets {r['seq']} of the same kind folded in this order"}
            failures.append(("semantic", desc, f"{r['api']} on {r['kind']}@opset{r['v']} (fresh process, after folding opsets {r['seq'][:-1]} "
                             f"of the same kind) changes the result: {r['detail']}"))
    return failures


if __name__ == "__main__":
    print(json.dumps(child(int(sys.argv[1]))))
