"""C11 — tensor indexing and slicing mean what they mean in NumPy.

Proof obligations: lean/OV/Props/C11.lean (model: lean/OV/Model/Index.lean).
Tie: correspondence.  For every generated index expression the real converter
(`Converter._translate_subscript_expr`, observed through the emitted proto and onnxruntime) and
the real eager path (`Tensor.__getitem__`, observed through a recording evaluator) are compared
with the Lean model's `planGraph` / `planEager` / `runPlan` on the same case, and the real
results are compared with real NumPy (the property's oracle).
"""
from __future__ import annotations

import itertools
import json
from collections import Counter

import numpy as np

from harness import core, scriptgen

PROP_MODULES = ["OV.Props.C11"]

# --------------------------------------------------------------------------- case encoding


def comp_src(c: str, params: list) -> str:
    """Python source of one index component; tensor-valued parts become parameters."""
    k = c.split(":")
    if k[0] == "F":
        return ":"
    if k[0] == "I":
        return k[1]
    if k[0] == "T":
        params.append(("s", int(k[1])))
        return f"p{len(params) - 1}"
    if k[0] == "G":  # a module-level int constant used by name: not a "constant expression" for the converter
        return const_name(int(k[1]))
    if k[0] == "M":  # unary minus applied to such a name
        return "-" + const_name(-int(k[1]))
    if k[0] == "V":
        vals = [int(x) for x in k[1].split(",")] if k[1] else []
        params.append(("v", vals))
        return f"p{len(params) - 1}"
    if k[0] == "S":
        out = []
        for b in k[1:]:
            if b == "_":
                out.append("")
            elif b[0] == "c":
                out.append(b[1:])
            else:
                params.append(("s", int(b[1:])))
                out.append(f"p{len(params) - 1}")
        s = f"{out[0]}:{out[1]}"
        if out[2] != "":
            s += f":{out[2]}"
        return s
    raise ValueError(c)


def const_name(v: int) -> str:
    return f"KP{v}" if v >= 0 else f"KN{-v}"


CONST_HEADER = "".join(f"KP{v} = {v}\nKN{v} = {-v}\n" for v in range(0, 10))
# Module-level ints that merely share their NAME with the tensor parameters p0, p1, … of the generated
# functions (a left-over loop variable, a default): a parameter shadows them, so they must never
# influence the translation.
CONST_HEADER += "".join(f"p{j} = {v}\n" for j, v in enumerate([1, 0, 2, 1, 0, 1, 2, 0, 1, 1]))


def model_comp(c: str) -> str:
    """The component as the Lean model sees it: an int used through a global name (`G`, `M`) is not a
    Python-int literal for the converter (`_is_constant_expr` knows literals and signs of literals only),
    so it is a rank-0 tensor-valued index whose value happens to be known."""
    return "T:" + c[2:] if c[0] in "GM" else c


def case_line(mode: str, case: dict) -> str:
    shp = ",".join(map(str, case["shape"])) or "-"
    return f"{mode} {shp} " + " ".join(model_comp(c) for c in case["comps"])


def py_index(case: dict, wrap):
    """The Python index object; `wrap(kind, value)` builds tensor-valued parts."""
    out = []
    for c in case["comps"]:
        k = c.split(":")
        if k[0] == "F":
            out.append(slice(None))
        elif k[0] == "I":
            out.append(int(k[1]))
        elif k[0] == "T":
            out.append(wrap("s", int(k[1])))
        elif k[0] in "GM":
            out.append(int(k[1]))  # in Python (eager mode, NumPy) the name is just an int
        elif k[0] == "V":
            out.append(wrap("v", [int(x) for x in k[1].split(",")] if k[1] else []))
        else:
            bs = []
            for b in k[1:]:
                if b == "_":
                    bs.append(None)
                elif b[0] == "c":
                    bs.append(int(b[1:]))
                else:
                    bs.append(wrap("s", int(b[1:])))
            out.append(slice(*bs))
    return tuple(out) if len(out) != 1 else out[0]


def data_for(shape):
    n = int(np.prod(shape)) if shape else 1
    return np.arange(n, dtype=np.float32).reshape(shape)


def res_str(arr) -> str:
    a = np.asarray(arr)
    return f"shape=[{','.join(map(str, a.shape))}] data=[{','.join(str(int(x)) for x in a.reshape(-1))}]"


def numpy_result(case: dict) -> str:
    A = data_for(case["shape"])
    idx = py_index(case, lambda kind, v: np.array(v, dtype=np.int64))
    try:
        return res_str(A[idx])
    except (IndexError, ValueError, TypeError) as e:
        return "ERR"


# --------------------------------------------------------------------------- generation


def gen_bound(rng, d: int, allow_dyn: bool) -> str:
    r = rng.random()
    if r < 0.3:
        return "_"
    v = rng.randint(-d - 2, d + 2)
    if allow_dyn and rng.random() < 0.12:
        return f"d{v}"
    return f"c{v}"


def gen_comp(rng, d: int, tensors: bool) -> str:
    r = rng.random()
    if r < 0.14:
        return "F"
    if r < 0.40:
        return f"I:{rng.randint(-d - 1, d)}"
    if r < 0.84 or not tensors:
        step = rng.choice(["_", "c1", "c2", "c3", "c-1", "c-2", "c-3", "c1", "c-1"])
        if tensors and rng.random() < 0.05:
            step = "d" + str(rng.choice([1, 2, -1, -2]))
        return f"S:{gen_bound(rng, d, tensors)}:{gen_bound(rng, d, tensors)}:{step}"
    if r < 0.94:
        return f"T:{rng.randint(-d, d - 1) if d > 0 and rng.random() < 0.9 else rng.randint(-d - 1, d)}"
    n = rng.randint(0, 3)
    return "V:" + ",".join(str(rng.randint(-d, d - 1) if d > 0 else 0) for _ in range(n))


def gen_case(rng) -> dict:
    rank = rng.choice([1, 1, 2, 2, 3, 3, 3])
    shape = [rng.choice([1, 2, 3, 4, 4, 5, 0]) if rng.random() < 0.97 else 7 for _ in range(rank)]
    ncomp = rng.randint(1, rank) if rng.random() < 0.97 else rank + 1
    comps = [gen_comp(rng, shape[i] if i < rank else 2, True) for i in range(ncomp)]
    # at most one 1-D tensor index (documented forms hold one integer; one vector is the modelled extension)
    seen = False
    for i, c in enumerate(comps):
        if c.startswith("V:"):
            if seen:
                comps[i] = "F"
            seen = True
    return {"shape": shape, "comps": by_name(rng, comps)}


def by_name(rng, comps):
    """Some rank-0 tensor indices become ints used through a global name (`A[K]`, `A[-K]`)."""
    out = []
    for c in comps:
        if c.startswith("T:") and abs(int(c[2:])) <= 9 and rng.random() < 0.15:
            c = rng.choice("GM") + c[1:]
        out.append(c)
    return out


def exhaustive_small():
    """Rank-1 bounded-exhaustive stream: d in 0..4, all constant slices with bounds in -d-2..d+2."""
    for d in range(0, 5):
        bs = ["_"] + [f"c{v}" for v in range(-d - 2, d + 3)]
        for lo, hi, st in itertools.product(bs, bs, ["_", "c1", "c2", "c-1", "c-2"]):
            yield {"shape": [d], "comps": [f"S:{lo}:{hi}:{st}"]}
        for i in range(-d - 1, d + 1):
            yield {"shape": [d], "comps": [f"I:{i}"]}



def gen_mixed(rng, ranks=(3,)) -> dict:
    """Mixed expressions around the Gather/Slice split: rank-0 tensor indices before/after Python ints
    and slices, at most one 1-D index (possibly after scalars).  Values are mostly in range on every
    axis, so that a Gather on a wrong axis gives a different tensor rather than an error."""
    rank = rng.choice(ranks)
    shape = [rng.choice([2, 3, 4, 5, 2, 3, 4, 1]) for _ in range(rank)]
    ncomp = rng.choice([rank, rank, rank - 1]) if rank > 2 else rank
    comps, seen_vec = [], False
    for ax in range(ncomp):
        d = shape[ax]
        r = rng.random()
        if r < 0.32:
            c = f"T:{rng.randint(-d, d - 1) if rng.random() < 0.92 else rng.choice([d, -d - 1])}"
        elif r < 0.54:
            c = f"I:{rng.randint(0, d - 1) if rng.random() < 0.8 else rng.randint(-d - 1, d)}"
        elif r < 0.72:
            c = gen_comp_slice(rng, d)
        elif r < 0.86 or seen_vec:
            c = "F"
        else:
            n = rng.randint(0, 3)
            c = "V:" + ",".join(str(rng.randint(-d, d - 1)) for _ in range(n))
            seen_vec = True
        comps.append(c)
    if not any(c[0] in "TV" for c in comps):
        k = rng.randrange(ncomp)
        comps[k] = f"T:{rng.randint(-shape[k], shape[k] - 1)}"
    if rng.random() < 0.02:
        # a second 1-D index: NumPy zips the two (outside the model, not judged); the plan/result
        # correspondence with the model is still checked
        k = rng.randrange(ncomp)
        comps[k] = "V:" + ",".join(str(rng.randint(0, shape[k] - 1)) for _ in range(rng.randint(1, 2)))
    return {"shape": shape, "comps": by_name(rng, comps)}


def gen_comp_slice(rng, d: int) -> str:
    step = rng.choice(["_", "c1", "c2", "c-1", "c-2", "_", "c1"]) if rng.random() < 0.98 else "c0"
    return f"S:{gen_bound(rng, d, False)}:{gen_bound(rng, d, False)}:{step}"


def kind_patterns(rank: int, rng):
    """Bounded-exhaustive over *kind patterns*: every way to fill `rank` positions with
    rank-0 tensor / Python int / slice / `:` / 1-D tensor (at most one 1-D), on a tensor whose dims are
    pairwise different (2,3,4[,5]) with index values valid on every axis."""
    shape = [2, 3, 4, 5][:rank]
    for pat in itertools.product("TISFV", repeat=rank):
        if pat.count("V") > 1:
            continue
        comps = []
        for k in pat:
            if k == "T":
                comps.append(f"T:{rng.choice([0, 1, -1, -2])}")
            elif k == "I":
                comps.append(f"I:{rng.choice([0, 1, 1, -2])}")
            elif k == "S":
                comps.append(rng.choice(["S:c1:_:_", "S:_:c-1:_", "S:_:_:c-1", "S:c0:c2:_", "S:_:_:c2"]))
            elif k == "F":
                comps.append("F")
            else:
                comps.append(rng.choice(["V:1,0", "V:0", "V:1,1,0", "V:-1,0"]))
        yield {"shape": shape, "comps": comps}


def zip_patterns(rank: int, rng, reps: int = 1):
    """Bounded-exhaustive over kind patterns with TWO OR MORE 1-D indices (NumPy broadcasts and zips them;
    model: numpyIndexZ).  The lengths are chosen deliberately: equal, one of them 1 (stretched), empty, and
    lengths that do not broadcast (NumPy raises); values valid on every axis so that the front ends run."""
    shape = [2, 3, 4, 5][:rank]
    length_plans = [("eq", [2, 2, 2, 2]), ("eq", [3, 3, 3, 3]), ("one", [1, 2, 1, 2]), ("one", [2, 1, 2, 1]),
                    ("ones", [1, 1, 1, 1]), ("empty", [0, 0, 0, 0]), ("empty1", [0, 1, 0, 1]),
                    ("mismatch", [2, 3, 2, 3]), ("mismatch", [3, 2, 1, 3]), ("mismatch0", [0, 2, 0, 2])]
    for pat in itertools.product("TISFV", repeat=rank):
        if pat.count("V") < 2:
            continue
        for _ in range(reps):
            plan, lens = rng.choice(length_plans)
            comps, nv = [], 0
            for ax, k in enumerate(pat):
                if k == "T":
                    comps.append(f"T:{rng.choice([0, 1, -1, -2])}")
                elif k == "I":
                    comps.append(f"I:{rng.choice([0, 1, 1, -2])}")
                elif k == "S":
                    comps.append(rng.choice(["S:c1:_:_", "S:_:c-1:_", "S:_:_:c-1", "S:c0:c2:_", "S:_:_:c2"]))
                elif k == "F":
                    comps.append("F")
                else:
                    d = shape[ax]
                    comps.append("V:" + ",".join(str(rng.randint(-d, d - 1)) for _ in range(lens[nv])))
                    nv += 1
            yield {"shape": shape, "comps": comps}


def zip_plan(case: dict) -> str:
    """Which broadcasting situation a case with two or more 1-D indices is in (evidence counters)."""
    lens = [len([x for x in c[2:].split(",") if x]) for c in case["comps"] if c[0] == "V"]
    non1 = sorted({n for n in lens if n != 1})
    if len(non1) > 1:
        return "mismatch"
    if non1 == [0]:
        return "empty"
    if 1 in lens and non1:
        return "stretched"
    return "equal"


def zip_front(case: dict) -> bool:
    """Two or more 1-D indices whose broadcast axis NumPy moves to the front (advanced indices not adjacent,
    a kept axis before the first 1-D index)."""
    comps = case["comps"]
    adv = [i for i, c in enumerate(comps) if c[0] in "ITVGM"]
    vec = [i for i, c in enumerate(comps) if c[0] == "V"]
    if len(vec) < 2:
        return False
    adjacent = len(adv) == adv[-1] - adv[0] + 1
    return (not adjacent) and any(c[0] not in "ITVGM" for c in comps[: vec[0]])


# --------------------------------------------------------------------------- known-finding predicates


def comp_kind(c: str) -> str:
    if c == "F" or c == "S:_:_:_":
        return "skip"
    return {"S": "sliced", "I": "scalar", "T": "nonscalar", "V": "nonscalar", "G": "nonscalar", "M": "nonscalar"}[c[0]]


def pred_d22(case: dict) -> bool:
    """negative step with an explicit start below -d (ONNX clamps to 0, CPython to -1)."""
    for ax, c in enumerate(case["comps"]):
        if c.startswith("S:") and ax < len(case["shape"]):
            lo, hi, st = c.split(":")[1:]
            step = 1 if st == "_" else int(st[1:])
            if step < 0 and lo != "_" and int(lo[1:]) < -case["shape"][ax]:
                return True
    return False


def axis_shift_shape(case: dict, mode: str) -> bool:
    """Evidence only (no verdict depends on it): is this one of the expressions the repaired finding D7
    was about — a Gather-translated component on an axis above an axis that a Squeeze / rank-0 index
    removes?  Before /repo commit e7769b9 these returned a different tensor; they are judged like every
    other case now, and the count shows that the generator keeps producing them."""
    comps = case["comps"]
    kinds = [comp_kind(c) for c in comps]
    scalars = [i for i, k in enumerate(kinds) if k == "scalar"]
    sliced = [i for i, k in enumerate(kinds) if k == "sliced"]
    if mode == "graph":
        nons = [i for i, k in enumerate(kinds) if k == "nonscalar"]
        use_slice = bool(sliced) or len(scalars) > 1
        removed = list(scalars) if use_slice else []
        gathered = nons + ([] if use_slice else scalars)
        removed += [g for g in gathered if comps[g][0] in "ITGM"]
    else:
        removed = [i for i, c in enumerate(comps) if c[0] in "ITGM"]
        gathered = [i for i, c in enumerate(comps) if c[0] == "V"]
    return any(r < g for g in gathered for r in removed)


def pred_too_many(case: dict, mode: str) -> bool:
    """C11-N1: more index components than the tensor has axes, in the translated graph.  (The
    converter does not know the rank; the surplus components can only be `:` — anything else makes
    Slice/Gather fail at run time — and are ignored.  Eager mode refuses the form.)"""
    return mode == "graph" and len(case["comps"]) > len(case["shape"])


def needs_transpose(case: dict) -> bool:
    """C11-N3: exactly one 1-D index, the advanced indices (ints, rank-0 tensors, the 1-D index) are not
    adjacent, and a kept axis precedes the 1-D index: NumPy moves the broadcast axis to the front; both
    front ends leave it in place (sequential Gathers never transpose)."""
    comps = case["comps"]
    if len(comps) > len(case["shape"]):
        return False
    adv = [i for i, c in enumerate(comps) if c[0] in "ITVGM"]
    vec = [i for i, c in enumerate(comps) if c[0] == "V"]
    if len(vec) != 1 or not adv:
        return False
    adjacent = len(adv) == adv[-1] - adv[0] + 1
    return (not adjacent) and any(c[0] not in "ITVGM" for c in comps[: vec[0]])


def classify(case: dict, mode: str) -> str | None:
    if pred_too_many(case, mode):
        return "C11-N1"
    if mode == "graph" and pred_d22(case):
        # the eager half of D22 is repaired (Tensor.__getitem__ normalises with slice.indices)
        return "D22"
    return None


# --------------------------------------------------------------------------- real front ends


def _session_options():
    import onnxruntime as ort

    ort.set_default_logger_severity(4)
    so = ort.SessionOptions()
    so.graph_optimization_level = ort.GraphOptimizationLevel.ORT_DISABLE_ALL
    so.log_severity_level = 4
    so.intra_op_num_threads = 1  # the default (one thread per core) costs ~75 ms per session under load
    so.inter_op_num_threads = 1
    return so


def _slice_inputs(vals):
    """starts/ends/axes/steps of an ONNX Slice as lists, with the operator's defaults for the optional
    inputs that are absent (axes = 0..k-1, steps = 1): every legal way of writing the node reads as the
    same plan entry list."""
    vals = list(vals) + [None] * (4 - len(vals))
    st = np.atleast_1d(np.asarray(vals[0])).tolist()
    en = np.atleast_1d(np.asarray(vals[1])).tolist()
    ax = np.atleast_1d(np.asarray(vals[2])).tolist() if vals[2] is not None else list(range(len(st)))
    sp = np.atleast_1d(np.asarray(vals[3])).tolist() if vals[3] is not None else [1] * len(st)
    return st, en, ax, sp


def _read_node(n, env, feeds, plan, numpy_helper):
    ins = list(n.input)
    if n.op_type == "Constant":
        a = n.attribute[0]
        env[n.output[0]] = numpy_helper.to_array(a.t) if a.name == "value" else None
    elif n.op_type == "Concat":
        env[n.output[0]] = np.concatenate([np.atleast_1d(env[i]) for i in ins])
    elif n.op_type == "Reshape":
        env[n.output[0]] = np.reshape(env[ins[0]], env[ins[1]])
    elif n.op_type == "Neg" and env.get(ins[0]) is not None and ins[0] not in feeds:
        env[n.output[0]] = -np.asarray(env[ins[0]])  # `-K` on a named constant
    elif n.op_type == "Identity":
        plan.append("identity")
    elif n.op_type == "Slice":
        st, en, ax, sp = _slice_inputs([env.get(i) if i else None for i in ins[1:5]])
        plan.append("slice(" + ";".join(f"{a}:{s}:{e}:{p}" for a, s, e, p in zip(ax, st, en, sp)) + ")")
    elif n.op_type == "Squeeze":
        if len(ins) < 2 or not ins[1]:
            plan.append("squeeze[*]")  # no axes input: every axis of extent 1
        else:
            plan.append("squeeze[" + ",".join(map(str, np.atleast_1d(env[ins[1]]).tolist())) + "]")
    elif n.op_type == "Gather":
        axis = [a.i for a in n.attribute if a.name == "axis"]
        axis = axis[0] if axis else 0
        idx = np.asarray(env[ins[1]])
        if idx.ndim == 0:
            plan.append(f"gatherS({axis},{int(idx)})")
        else:
            plan.append(f"gatherV({axis},[{','.join(map(str, idx.tolist()))}])")
    else:
        plan.append(f"other:{n.op_type}")


def graph_plan_and_result(fn, params, shape):
    """Read the plan the converter emitted (from the proto) and run it on onnxruntime."""
    import onnxruntime as ort

    ort.set_default_logger_severity(4)
    try:
        model = fn.to_model_proto()
    except Exception as e:  # the translated function cannot be turned into a model: a failure of the front end
        return f"unbuildable:{type(e).__name__}", "ERR"
    feeds = {"A": data_for(shape)}
    for i, (kind, v) in enumerate(params):
        feeds[f"p{i}"] = np.array(v, dtype=np.int64)
    env = dict(feeds)
    plan = []
    from onnx import numpy_helper

    for n in model.graph.node:
        try:
            _read_node(n, env, feeds, plan, numpy_helper)
        except Exception as e:  # a node written in a form the reader does not know: the plan differs from the
            # model's (tie broken, the result is still compared) — never an infrastructure error
            plan.append(f"unreadable:{n.op_type}:{type(e).__name__}")
    try:
        sess = ort.InferenceSession(model.SerializeToString(), _session_options(), providers=["CPUExecutionProvider"])
        ro = ort.RunOptions()
        ro.log_severity_level = 4
        out = sess.run(None, feeds, ro)
        res = res_str(out[0])
    except Exception as e:  # runtime failure of the graph: an error, not a tensor
        res = "ERR"
    return "+".join(plan) if plan else "nop", res


class _Recorder:
    def __init__(self):
        from onnxscript._internal import evaluator

        outer = self

        class Rec(evaluator.ORTEvaluator):
            def _eval(self, schema, inputs, attributes, closure):
                outer.log.append((schema.name, [getattr(x, "value", x) for x in inputs], dict(attributes)))
                prep = getattr(evaluator, "_prepare_model_and_inputs_for_eager", None)
                back = getattr(evaluator, "_numpy_to_onnxscript_value", None)
                if prep is None or back is None:
                    return super()._eval(schema, inputs, attributes, closure)
                # Same single-op model as evaluator._call_ort builds, run on a single-threaded session:
                # onnxruntime's default session spawns one thread per core (≈75 ms per op on a busy
                # machine against <1 ms); the operator runtime is not what C11 is about.
                import onnxruntime as ort

                model, feeds, _names = prep(schema, inputs, attributes, closure)
                try:
                    sess = ort.InferenceSession(
                        model.SerializeToString(), _session_options(), providers=("CPUExecutionProvider",)
                    )
                    result = sess.run(None, feeds)
                except Exception as e:  # same contract as _call_ort: an op that cannot run is an EagerModeError
                    raise evaluator.EagerModeError(f"{schema.name}: {e}") from e
                return [back(x) for x in result]

        self.ev = Rec()
        self.log = []
        self.evaluator = evaluator


def eager_plan_and_result(rec: _Recorder, case: dict):
    from onnxscript.tensor import Tensor

    rec.log.clear()
    A = Tensor(data_for(case["shape"]))
    idx = py_index(case, lambda kind, v: Tensor(np.array(v, dtype=np.int64)))
    try:
        with rec.evaluator.default_as(rec.ev):
            out = A[idx]
        res = res_str(out.value)
    except Exception as e:
        res = "ERR:" + type(e).__name__
    plan = []
    for name, ins, attrs in rec.log:
        if name == "Identity":
            plan.append("identity")
        elif name == "Slice":
            st, en, ax, sp = _slice_inputs(list(ins[1:5]))
            plan.append("slice(" + ";".join(f"{a}:{s}:{e}:{p}" for a, s, e, p in zip(ax, st, en, sp)) + ")")
        elif name == "Gather":
            idxv = np.asarray(ins[1])
            axis = int(attrs.get("axis", 0))
            if idxv.ndim == 0:
                plan.append(f"gatherS({axis},{int(idxv)})")
            else:
                plan.append(f"gatherV({axis},[{','.join(map(str, idxv.tolist()))}])")
        elif name in ("Add", "Greater", "Less", "Sub", "Neg", "Not", "Equal", "GreaterOrEqual", "LessOrEqual"):
            continue  # arithmetic/tests on tensor-valued bounds (`s + 1`, `s.step > 0`), not data movement
        else:
            plan.append(f"other:{name}")
    return "+".join(plan) if plan else "nop", res


def plan_shape(mode: str, mplan: str) -> str:
    """Which branch of the modelled code a case went through (read off the model's plan)."""
    if mplan.startswith("ERR"):
        return "refused"
    ops = [o.split("(")[0].split("[")[0] for o in mplan.split("+")]
    if ops == ["identity"]:
        return "identity"
    g = [o for o in ops if o.startswith("gather")]
    if ops[0] == "slice":
        sq = "+squeeze" if any(o in ("squeeze", "npsqueeze") for o in ops) else ""
        if not g:
            return "slice" + sq
        kinds = ("S" if "gatherS" in g else "") + ("V" if "gatherV" in g else "")
        return f"slice{sq}+gather{kinds}" + ("*" if len(g) > 1 else "")
    kinds = ("S" if "gatherS" in g else "") + ("V" if "gatherV" in g else "")
    return f"gather{kinds}" + ("*" if len(g) > 1 else "")


# plan shapes every quick run must reach (else the generator has degenerated: exit 2, never a pass)
REQUIRED_SHAPES = {
    "graph": ["refused", "identity", "slice", "slice+squeeze", "slice+gatherS", "slice+gatherV",
              "slice+squeeze+gatherS", "slice+squeeze+gatherV", "slice+squeeze+gatherS*", "gatherS",
              "gatherV", "gatherS*", "gatherSV*"],
    "eager": ["refused", "identity", "slice", "slice+squeeze", "slice+gatherV", "slice+squeeze+gatherV",
              "gatherS", "gatherV", "gatherSV*"],
}


def strip_np(plan: str) -> str:
    parts = [p for p in plan.split("+") if not p.startswith("npsqueeze")]
    return "+".join(parts) if parts else "nop"


def norm_err(s: str) -> str:
    return "ERR" if s.startswith("ERR") else s


# --------------------------------------------------------------------------- main


def compile_cases(cases):
    bodies, metas = [], []
    for i, case in enumerate(cases):
        params: list = []
        srcs = [comp_src(c, params) for c in case["comps"]]
        shp = ",".join(map(str, case["shape"]))
        sig = [f"A: FLOAT[{shp}]"] + [
            (f"p{j}: INT64" if kind == "s" else f"p{j}: INT64[{len(v)}]") for j, (kind, v) in enumerate(params)
        ]
        expr = ", ".join(srcs)
        src = f"@script(default_opset=op)\ndef f{i}({', '.join(sig)}):\n    return A[{expr}]\n"
        bodies.append((f"f{i}", src))
        metas.append((params, src))
    fn, err, modname = scriptgen.compile_functions(bodies, header_extra=CONST_HEADER)
    return fn, err, metas, modname


def check_cases(run: core.Run, drv: core.Driver, cases, stats: Counter, do_graph=True, do_eager=True):
    """Returns list of (case, mode, kind, detail) problems: kind in {tie, property}."""
    problems = []
    lines = []
    for c in cases:
        lines += [case_line("graph", c), case_line("eager", c), case_line("numpy", c), case_line("numpyz", c)]
    outs = drv.ask(lines)
    rec = _Recorder() if do_eager else None
    fn = err = metas = None
    modname = None
    if do_graph:
        fn, err, metas, modname = compile_cases(cases)
    for i, c in enumerate(cases):
        m_graph, m_eager, m_numpy, m_numpyz = outs[4 * i], outs[4 * i + 1], outs[4 * i + 2], outs[4 * i + 3]
        zipped = m_numpy.startswith("zip ")  # two or more 1-D indices: NumPy zips them (model: numpyIndexZ)
        if zipped:
            m_numpy = m_numpy[4:]
            stats["zip_cases"] += 1
            stats["zip_" + zip_plan(c)] += 1
            if zip_front(c):
                stats["zip_front_axis"] += 1
        if zipped != (sum(1 for ck in c["comps"] if ck[0] == "V") >= 2):
            problems.append((c, "numpy", "tie", f"driver used the zip model: {zipped}; 1-D indices in the case: {c['comps']}"))
        moved = m_numpy.startswith("front=")  # NumPy puts the broadcast axis first (model: numpyIndexT)
        if moved:
            m_numpy = m_numpy.split(" ", 1)[1]
            stats["numpy_front_axis_cases"] += 1
        if moved != needs_transpose(c) and not m_numpy.startswith("ERR"):
            problems.append((c, "numpy", "tie", f"model frontOf says moved={moved}, harness predicate {needs_transpose(c)}"))
        np_res = numpy_result(c)
        stats["cases"] += 1
        # the zip model of NumPy (numpyIndexZ) is run on EVERY case: below two 1-D indices it must give what
        # numpyIndexT gives (theorem numpyIndexZ_of_numpyIndexT speaks about the views; this also ties the
        # output shape and element order), and real NumPy's result
        if norm_err(m_numpyz) != np_res:
            problems.append((c, "numpy", "tie", f"model numpyIndexZ={m_numpyz} real numpy={np_res}"))
        stats["numpyz_vs_numpy"] += 1
        # the model's NumPy must be NumPy (validates the spec side of the theorems)
        if m_numpy != "ERR:unmodelled":
            if norm_err(m_numpy) != np_res:
                problems.append((c, "numpy", "tie", f"model numpyIndex={m_numpy} real numpy={np_res}"))
        else:
            stats["numpy_unmodelled"] += 1
            stats["unmodelled_two_or_more_1d_indices"] += 1
        if any(ck[0] in "TVGM" for ck in c["comps"]) and sum(1 for ck in c["comps"] if comp_kind(ck) != "skip") > 1:
            stats["mixed_tensor_index_cases"] += 1
        for mode in (["graph"] if do_graph else []) + (["eager"] if do_eager else []):
            mplan, mres = (m_graph if mode == "graph" else m_eager).split(" | ")
            if mode == "graph":
                name = f"f{i}"
                if name in err:
                    iplan, ires = "ERR", "ERR"
                    stats["graph_refused"] += 1
                else:
                    iplan, ires = graph_plan_and_result(fn[name], metas[i][0], c["shape"])
            else:
                iplan, ires = eager_plan_and_result(rec, c)
            stats[f"{mode}_cases"] += 1
            stats[f"shape_{mode}_{plan_shape(mode, mplan)}"] += 1
            if ires.startswith("ERR"):
                stats[f"{mode}_err"] += 1
                stats[f"{mode}_err_kind_{mres if mres.startswith('ERR') else 'model-ok'}"] += 1
            if axis_shift_shape(c, mode):
                stats[f"{mode}_axis_shift_shape"] += 1
                if not ires.startswith("ERR") and np_res != "ERR" and m_numpy != "ERR:unmodelled":
                    stats[f"{mode}_axis_shift_shape_judged_tensor"] += 1
            # ---- tie: model of the front end == front end
            if mplan.startswith("ERR"):
                tie_ok = ires.startswith("ERR")
            else:
                tie_ok = norm_err(mres) == norm_err(ires)
                if mode == "graph":
                    tie_ok = tie_ok and (iplan == mplan)
                else:
                    # an eager call that raises before/inside an op leaves a partial log
                    tie_ok = tie_ok and (ires.startswith("ERR") or iplan == strip_np(mplan))
            if not tie_ok:
                problems.append(
                    (c, mode, "tie", f"impl plan={iplan} res={ires} ; model plan={mplan} res={mres}")
                )
            # ---- property: a front end that returns a tensor returns NumPy's tensor
            # and a front end never returns a tensor for an expression NumPy rejects
            if m_numpy == "ERR:unmodelled":
                # (cannot happen any more: two or more 1-D indices are modelled by numpyIndexZ)
                stats[f"{mode}_outside_documented_forms"] += 1
            elif zipped:
                # Two or more 1-D indices: NumPy broadcasts and zips them (or raises when they do not
                # broadcast); the front ends run one Gather per index = the outer product.  Finding C11-N4
                # is exactly that: the implementation returns the model's outer-product view.  Anything
                # else (another tensor, a tensor the model does not predict) is not that finding.
                stats[f"{mode}_zip_judged"] += 1
                if not ires.startswith("ERR"):
                    if np_res == "ERR":
                        stats[f"{mode}_zip_tensor_where_numpy_raises"] += 1
                    if ires != np_res:
                        kind_ = "property_n4" if norm_err(mres) == ires else "property"
                        problems.append((c, mode, kind_, f"{mode} returned {ires} ; numpy "
                                         + ("raises" if np_res == "ERR" else np_res)))
                    else:
                        stats[f"{mode}_zip_equal_numpy"] += 1
            elif np_res == "ERR":
                # NumPy raises: the front end must refuse or fail too — a tensor here is a tensor that
                # differs from (the absence of) NumPy's result
                stats[f"{mode}_numpy_rejects"] += 1
                if not ires.startswith("ERR"):
                    stats[f"{mode}_tensor_where_numpy_raises"] += 1
                    problems.append((c, mode, "property", f"{mode} returned {ires} ; numpy raises"))
            elif not ires.startswith("ERR") and ires != np_res:
                # C11-N3 is only the *order* of the axes: the implementation must still return exactly what
                # the model predicts (NumPy's per-axis maps, axes in place); anything else is not that finding
                kind_ = "property_n3" if (moved and norm_err(mres) == ires) else "property"
                problems.append((c, mode, kind_, f"{mode} returned {ires} ; numpy {np_res}"))
            for ck in c["comps"]:
                stats["comp_" + ck[0]] += 1
    if modname:
        scriptgen.release(modname)
    return problems


def main(run: core.Run) -> None:
    run.assumptions += [
        "A-op: ONNX Slice/Squeeze/Gather follow the operator specification (transcribed in OV.Model.Index); "
        "onnxruntime CPU is the runtime the results are observed on",
        "NumPy basic indexing = CPython PySlice_AdjustIndices (transcribed); validated against real NumPy on every case",
        "tensor-valued indices: rank-0 and at most one 1-D index per expression are judged, NumPy's move of the "
        "broadcast axis to the front (X[0, :, I]) included (model: numpyIndexT; finding C11-N3); two or more 1-D "
        "indices: NumPy's broadcast-and-zip is modelled by numpyIndexZ (validated against real NumPy on every "
        "such case) and judged — the front ends take the outer product instead (finding C11-N4)",
    ]
    audit = run.prove(PROP_MODULES)
    drv = core.Driver("C11")
    stats: Counter = Counter()

    if run.replay_path:
        body = json.loads(open(run.replay_path).read())
        cases = [body["case"]["case"]] if "case" in body.get("case", {}) else []
        if cases and "family" in cases[0]:
            from harness import c11_multi

            fc = cases[0]
            rec2 = _Recorder()
            if fc["family"] == "scoped":
                fam = c11_multi.check_scoped(run.rng, 0, _session_options, rec2, stats,
                                             items=c11_multi.items_from_source(fc["source"]))
            else:
                fam, _ = c11_multi.check_bad_dtype(run.rng, _session_options, rec2, stats, lambda c, m: None,
                                                   only=(fc["form"], fc["k_dtype"], fc["k"]))
            for c, mode, detail in fam:
                print(f"REPLAY property {mode}: {detail}")
            if fam:
                run.violation({"case": fc, "problems": [p[2] for p in fam]}, "replayed case still fails")
            run.coverage.update(evaluations=1, distinct_nontrivial=1)
            return
        probs = check_cases(run, drv, cases, stats)
        for c, mode, kind, detail in probs:
            print(f"REPLAY {kind} {mode}: {case_line(mode, c)} :: {detail}")
        if probs:
            run.violation({"case": cases[0], "problems": [p[3] for p in probs]}, "replayed case still fails")
        run.coverage.update(evaluations=len(cases), distinct_nontrivial=len(cases))
        return

    # corpus first (known findings' witnesses + minimised past disagreements)
    corpus = [json.loads(l) for l in (core.VERIF / "harness" / "corpus_c11.jsonl").read_text().splitlines() if l.strip()]
    n_graph = run.size(1500, 12000)
    n_eager_extra = run.size(4000, 30000)
    drift = core.fingerprint_drift(
        "C11", "onnxscript/_internal/converter.py", ["Converter._translate_subscript_expr"]
    ) + core.fingerprint_drift("C11", "onnxscript/tensor.py", ["Tensor.__getitem__"])
    if drift and run.tier == "quick":
        n_graph *= 3
        n_eager_extra *= 3
    run.coverage["fingerprint_drift"] = drift

    all_problems = []
    seen = set()

    def batch(cases, **kw):
        uniq = []
        for c in cases:
            key = ",".join(map(str, c["shape"])) + " | " + " ".join(c["comps"])
            if key not in seen:
                seen.add(key)
                uniq.append(c)
        for k in range(0, len(uniq), 250):
            all_problems.extend(check_cases(run, drv, uniq[k : k + 250], stats, **kw))

    batch(corpus)
    ex = list(exhaustive_small())
    if run.tier == "quick":
        run.rng.shuffle(ex)
        batch(ex[:1000])
        batch(ex[1000:], do_graph=False)  # eager mode sees the complete rank-1 stream in both tiers
    else:
        batch(ex)
    batch([gen_case(run.rng) for _ in range(n_graph)])
    batch([gen_case(run.rng) for _ in range(n_eager_extra)], do_graph=False)
    # the Gather/Slice split with tensor-valued indices (the family of the repaired finding D7)
    pats = list(kind_patterns(3, run.rng)) + list(kind_patterns(4, run.rng))
    batch(pats)
    stats["kind_patterns"] = len(pats)
    # two or more 1-D indices: every kind pattern of rank 2..4 with >= 2 of them (127 patterns), lengths
    # equal / stretched / empty / not broadcastable chosen deliberately
    zpats = [c for r_ in (2, 3, 4) for c in zip_patterns(r_, run.rng, reps=run.size(2, 6))]
    batch(zpats)
    stats["zip_patterns"] = len(zpats)
    mixed_ranks = (3,) if run.tier == "quick" else (3, 3, 4, 2)
    batch([gen_mixed(run.rng, mixed_ranks) for _ in range(run.size(800, 4000))])
    batch([gen_mixed(run.rng, mixed_ranks) for _ in range(run.size(2000, 8000))], do_graph=False)

    for c in list(seen)[:6]:
        run.sample(c)

    # ---- directed families beyond a single subscript (oracle only, see harness/c11_multi.py)
    from harness import c11_multi

    findings = {f["id"]: f for f in run.open_findings()}
    rec2 = _Recorder()
    family_failures = c11_multi.check_scoped(run.rng, run.size(120, 800), _session_options, rec2, stats)

    def bad_dtype_known(case, mode):
        # C11-N2 (repaired by 46aa4ab): while it was open, eager mode converting a non-integer rank-0
        # tensor index was a known finding; a fixed entry suppresses nothing
        comps_ = case["form"][2:-1].split(", ")
        if mode == "eager" and "k" in comps_ and len(comps_) > 1 and "C11-N2" in findings:
            return "C11-N2"
        return None

    bad_probs, bad_known = c11_multi.check_bad_dtype(run.rng, _session_options, rec2, stats, bad_dtype_known)
    family_failures += bad_probs
    for fid, case_, mode_, detail_ in bad_known[:1]:
        run.known(fid, detail_)
    stats["known_C11-N2"] = len(bad_known)
    if family_failures:
        run.sample(family_failures[0][0])

    # ---- verdict
    known_counts: Counter = Counter()
    tie_broken = []
    prop_failures = []
    for c, mode, kind, detail in all_problems:
        if kind == "tie":
            tie_broken.append((c, mode, detail))
        else:
            fid = "C11-N3" if kind == "property_n3" else "C11-N4" if kind == "property_n4" else classify(c, mode)
            if fid and fid in findings:
                known_counts[fid] += 1
                if known_counts[fid] == 1:
                    ps_: list = []
                    run.known(fid, f"{mode} A[{', '.join(comp_src(x, ps_) for x in c['comps'])}] shape={c['shape']}"
                              + (f" with {', '.join(f'p{j}={v}' for j, (_, v) in enumerate(ps_))}" if ps_ else "") + f": {detail}")
            else:
                prop_failures.append((c, mode, detail))
    stats["known_D22"] = known_counts["D22"]
    stats["known_C11-N1"] = known_counts["C11-N1"]
    stats["known_C11-N3"] = known_counts["C11-N3"]
    stats["known_C11-N4"] = known_counts["C11-N4"]

    if family_failures:
        case_, mode_, detail_ = family_failures[0]
        run.violation(
            {"case": case_, "mode": mode_, "detail": detail_, "others": len(family_failures) - 1},
            f"{mode_} front end, family {case_['family']}: {detail_}"
            + (" :: " + case_["source"].replace("\n", " | ") if "source" in case_ else ""),
        )
    if prop_failures:
        prop_failures.sort(key=lambda p: (len(p[0]["comps"]), sum(p[0]["shape"]), len(str(p[0]))))
        c, mode, detail = prop_failures[0]
        run.violation(
            {"case": c, "mode": mode, "detail": detail, "others": len(prop_failures) - 1},
            f"{mode} front end returns a tensor different from NumPy: {case_line(mode, c)} :: {detail}",
        )
    elif tie_broken:
        tie_broken.sort(key=lambda p: (len(p[0]["comps"]), sum(p[0]["shape"])))
        c, mode, detail = tie_broken[0]
        run.violation(
            {"case": c, "mode": mode, "detail": detail, "broken": "correspondence OV.Model.Index.plan"
             + ("Graph" if mode == "graph" else "Eager" if mode == "eager" else " numpyIndex")
             + " vs implementation", "others": len(tie_broken) - 1},
            f"correspondence broken ({mode}): {case_line(mode, c)} :: {detail}; no input found on which the "
            "implementation differs from NumPy",
            no_input=True,
        )
    if not audit["ok"]:
        run.violation(
            {"broken": "proof obligations of OV.Props.C11", "problems": audit["problems"], "log": audit["build_log"][-1500:]},
            "Lean proof obligations for C11 do not check: " + "; ".join(audit["problems"][:3]),
            no_input=True,
        )

    nontrivial = sum(1 for k in seen if (" S:" in k or " T:" in k or " I:" in k or " V:" in k))  # G/M count as T
    run.coverage.update(
        evaluations=stats["graph_cases"] + stats["eager_cases"],
        distinct_nontrivial=nontrivial,
        rule="distinct (shape, index-expression) pairs with at least one int/slice/tensor component; each is run "
        "through the real converter+onnxruntime and/or real eager mode, the Lean model, and NumPy",
        traces_validated_against_impl=stats["graph_cases"] + stats["eager_cases"],
        distribution=dict(stats),
        exhaustive=False,
        explanation="rank-1 stream (d<=4, all constant slices with bounds in [-d-2,d+2], steps ±1,±2) is enumerated "
        + ("completely" if run.tier == "thorough" else "completely for eager mode, by sample (1000) for the converter")
        + "; all kind patterns {rank-0 tensor, int, slice, ':', "
        "1-D tensor (at most one)}^rank, rank 3 and 4, on a 2x3x4(x5) tensor are enumerated "
        "completely (values sampled); all kind patterns of rank 2..4 with two or more 1-D tensors likewise "
        "(lengths equal / 1 / 0 / not broadcastable sampled); other higher-rank cases are seeded random",
        unmodelled_not_judged={"two_or_more_1d_indices": stats["unmodelled_two_or_more_1d_indices"]},
        zip_model={k: v for k, v in sorted(stats.items()) if "zip" in k},
        numpy_front_axis_cases=stats["numpy_front_axis_cases"],
        former_d7_family={
            "graph_cases": stats["graph_axis_shift_shape"],
            "graph_returning_a_tensor_and_judged": stats["graph_axis_shift_shape_judged_tensor"],
            "eager_cases": stats["eager_axis_shift_shape"],
            "eager_returning_a_tensor_and_judged": stats["eager_axis_shift_shape_judged_tensor"],
        },
    )
    missing = [f"{m}:{sh}" for m, shs in REQUIRED_SHAPES.items() for sh in shs if stats[f"shape_{m}_{sh}"] == 0]
    run.coverage["plan_shapes"] = {k[6:]: v for k, v in sorted(stats.items()) if k.startswith("shape_")}
    if missing:
        raise core.Infra("generator never reached these plan shapes of the modelled code: " + ", ".join(missing))
    zmissing = [k for k in ("zip_equal", "zip_stretched", "zip_empty", "zip_mismatch", "zip_front_axis",
                            "graph_zip_judged", "eager_zip_judged", "graph_zip_tensor_where_numpy_raises",
                            "eager_zip_tensor_where_numpy_raises") if stats[k] == 0]
    if zmissing:
        raise core.Infra("generator never reached these situations of two or more 1-D indices: " + ", ".join(zmissing))
    if stats["numpy_unmodelled"]:
        raise core.Infra("the NumPy model answered `unmodelled` (every index form is modelled now)")
    if stats["graph_cases"] and stats["graph_refused"] > 0.3 * stats["graph_cases"]:
        raise core.Infra("generator degenerated: >30% of programs refused")
