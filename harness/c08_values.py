"""C08 value-level streams: integer arithmetic (exact on Int), creation (lengths), 1-D index maps
(flip / roll / tril / triu), the float differential search (no theorem) and the exporter half."""
from __future__ import annotations

import io
import time

import numpy as np

from harness import core
from harness.c08_cases import NP

VALUE_OVERLOADS = [
    "aten::floor_divide", "aten::remainder.Tensor", "prims::remainder", "aten::remainder.Scalar",
    "aten::fmod.Tensor", "aten::fmod.Scalar", "aten::add.Tensor", "aten::add.Scalar", "aten::sub.Tensor",
    "aten::subtract.Tensor", "aten::sub.Scalar", "aten::subtract.Scalar", "aten::div.Tensor_mode", "aten::div.Scalar_mode",
    "aten::bitwise_left_shift.Tensor", "aten::bitwise_right_shift.Tensor", "aten::roll (complex)",
    "aten::arange", "aten::arange.start", "aten::arange.start_step", "aten::linspace",
    "aten::full", "aten::zeros", "aten::ones", "aten::new_full", "aten::new_zeros", "aten::new_ones",
    "aten::full_like", "aten::zeros_like", "aten::ones_like",
]
N_VALUE_FUNCTIONS = 24

PROVED_VS_SEARCHED = {
    "dim normalisation": "proved inside every theorem below (normAxis / torchDim), rank-0 special cases included",
    "view algebra": "proved (function level, all ranks/sizes unless noted): flatten, unflatten, view, reshape, permute (_partial: dims != [], i.e. rank >= 1), transpose, t, squeeze, squeeze.dim, "
                    "unsqueeze, expand/broadcast_to, atleast_nd, pixel_shuffle / pixel_unshuffle (_partial: non-empty); element maps of "
                    "reshape-like views: searched (onnxruntime vs torch values)",
    "slicing": "proved: slice.Tensor, narrow, select, index_select, gather, embedding, chunk, split, unbind, slice_scatter, select_scatter, "
               "scatter.src/scatter_add (_partial: operands of rank >= 1), select / unbind (rank >= 1 = PyTorch's domain), flip index map, roll index map (axis size > 0, any shift) + shape (empty tensors too), "
               "tril/triu predicate, diagonal; values for rank > 1: searched",
    "replication": "proved: repeat, repeat_interleave.self_int, tile, stack, cat; values: searched",
    "add/sub broadcast shape": "definitional (model and spec are the same function; rfl) - content is in the per-case tie",
    "integer arithmetic": "proved exact on Int: floor_divide (signed/unsigned), remainder, fmod, div.Tensor_mode on ints, add/sub alpha, bool add, "
                          "clamp order, left shift (two's complement), right shift for w = 8 exhaustively",
    "scalar promotion bookkeeping": "searched only (dtype of result compared with torch on every case)",
    "reductions' bookkeeping": "proved: output shape for dim lists / keepdim / empty list / None (sum, mean, amax/amin _partial, all/any.dim, all/any.dims _partial: non-empty list, "
                               "argmax/argmin, max.dim/min.dim, logsumexp, logcumsumexp, prod, cumsum, topk _partial: rank >= 1, softmax dim); reduced values: searched",
    "linear algebra shapes": "proved: matmul (five documented cases vs the numpy rule), mm, bmm, mv, dot, linear (Gemm / 1-D weight / MatMul+Add); values: searched",
    "attribute adjustment": "proved: pads layouts, avg/max pool and convolution (+transposed) (_partial: full-length list arguments; int / 1-element forms: padding expansion only), conv1d/2d/3d, Pad, unfold, "
                            "upsample size path, im2col, col2im; upsample scales path: searched",
    "normalisation / sort / addmm (round 5)": "proved: layer_norm / native_layer_norm output shapes incl. mean/rstd (_partial: non-empty normalised "
                                              "block), sort (rank-0 branch and TopK), addmm (model = spec, refusals included), baddbmm, glu (_partial: "
                                              "split size non-zero); values: searched",
    "piecewise activations": "searched only, but deliberately: 15 activations probed at every knee of their scalar parameters (required counters)",
    "creation": "proved: arange length characterisation, linspace length, full/zeros/ones(-like) terms and shapes; values: searched",
    "floating-point kernels": "NOT proved (outside the technique): differential search only",
    "end-to-end export": "searched only (torch.onnx.export(dynamo=True) on small random modules)",
}


def _ort_vals(L, fnname, args, kwargs):
    m = L._mods()
    fn = next((getattr(m[k], fnname) for k in ("core", "nn", "special") if hasattr(m[k], fnname)), None)
    if fn is None:
        raise core.Infra(f"torch_lib function {fnname} not found")
    try:
        model, feeds, outs, _ = L.trace(fn, args, kwargs)
    except Exception as e:
        return None, "TRACE-ERR", f"trace:{type(e).__name__}:{str(e)[:80]}"
    term = " || ".join(L.render_outputs(model, outs))
    try:
        r = L.run_ort(model, feeds)
    except Exception as e:
        return None, term, "ort:" + str(e)[:140].replace("\n", " ")
    return r, term, None


def _cmp(x, y):
    x, y = np.asarray(x), np.asarray(y)
    if x.dtype != y.dtype:
        return f"dtype: onnx {x.dtype} vs torch {y.dtype}"
    if x.shape != y.shape:
        return f"shape: onnx {list(x.shape)} vs torch {list(y.shape)}"
    if x.dtype.kind in "iub":
        if not np.array_equal(x, y):
            return f"values: onnx {x.reshape(-1)[:8].tolist()} vs torch {y.reshape(-1)[:8].tolist()}"
    elif not np.allclose(x.astype(np.float64), y.astype(np.float64), rtol=2e-3 if x.dtype == np.float16 else 1e-4,
                         atol=1e-2 if x.dtype == np.float16 else 1e-5, equal_nan=True):
        return f"values: onnx {x.reshape(-1)[:8].tolist()} vs torch {y.reshape(-1)[:8].tolist()}"
    return None


def _ask3(drv, lines):
    out = []
    for o in drv.ask(lines):
        p = o.split(" @ ")
        if len(p) != 3:
            raise core.Infra(f"driver answered {o!r}")
        out.append(p)
    return out


# --------------------------------------------------------------------------- integer arithmetic


def gen_int_case(rng, which):
    dt = rng.choice({"floor_divide": ["i64", "i32", "u8"], "remainder": ["i64", "i32"], "remainder_scalar": ["i64", "i32"],
                     "fmod": ["i64", "i32", "u8"], "add": ["i64", "i32"], "sub": ["i64", "i32"], "add_scalar": ["i64", "i32"],
                     "sub_scalar": ["i64", "i32"], "div_mode_int": ["i64", "i32"], "shl": ["i32", "i64"],
                     "shr": ["i32", "i64"], "lshift_dtype": ["u8"]}[which])
    n = rng.randint(1, 6)
    lo = 0 if dt == "u8" else -40
    a = [rng.randint(lo, 40) for _ in range(n)]
    b = [rng.choice([x for x in range(lo if dt != "u8" else 1, 13) if x != 0]) for _ in range(n)]
    c = dict(dtype=dt, a=a, b=b)
    if which in ("add", "sub", "add_scalar", "sub_scalar"):
        c["alpha"] = rng.choice([1, 1, 2, 3, -2, 0])
    if which in ("remainder_scalar", "add_scalar", "sub_scalar"):
        c["b"] = [c["b"][0]]
    if which == "div_mode_int":
        c["mode"] = rng.choice(["floor", "trunc"])
        c["big"] = rng.random() < 0.25
        if c["big"]:
            c["a"] = [rng.choice([1, -1]) * (2**24 + rng.choice([1, 3, 5, 7, 9])) for _ in range(n)]
            c["b"] = [rng.choice([1, -1]) for _ in range(n)]
    if which in ("shl", "shr", "lshift_dtype"):
        w = {"i32": 32, "i64": 64, "u8": 8}[dt]
        c["b"] = [rng.randint(0, min(w - 1, 12)) for _ in range(n)]
        if which != "lshift_dtype":
            c["a"] = [rng.randint(-2**(w - 2), 2**(w - 2)) if rng.random() < 0.3 else rng.randint(-300, 300) for _ in range(n)]
    return c


def int_real(L, which, c):
    t = L._mods()["torch"]
    dt = NP[c["dtype"]]
    a = np.array(c["a"], dtype=dt)
    b = np.array(c["b"], dtype=dt)
    ta, tb = t.tensor(a), t.tensor(b)
    if which == "floor_divide":
        return _ort_vals(L, "aten_floor_divide", [a, b], {}), t.floor_divide(ta, tb)
    if which == "remainder":
        return _ort_vals(L, "aten_remainder", [a, b], {}), t.remainder(ta, tb)
    if which == "remainder_scalar":
        return _ort_vals(L, "aten_remainder_scalar", [a, int(c["b"][0])], {}), t.remainder(ta, int(c["b"][0]))
    if which == "fmod":
        return _ort_vals(L, "aten_fmod", [a, b], {}), t.fmod(ta, tb)
    if which == "add":
        return _ort_vals(L, "aten_add", [a, b], {"alpha": c["alpha"]}), t.add(ta, tb, alpha=c["alpha"])
    if which == "sub":
        return _ort_vals(L, "aten_sub", [a, b], {"alpha": c["alpha"]}), t.sub(ta, tb, alpha=c["alpha"])
    if which == "add_scalar":
        return _ort_vals(L, "aten_add_scalar", [a, int(c["b"][0])], {"alpha": c["alpha"]}), t.add(ta, int(c["b"][0]), alpha=c["alpha"])
    if which == "sub_scalar":
        return _ort_vals(L, "aten_sub_scalar", [a, int(c["b"][0])], {"alpha": c["alpha"]}), t.sub(ta, int(c["b"][0]), alpha=c["alpha"])
    if which == "div_mode_int":
        return _ort_vals(L, "aten_div_mode", [a, b], {"rounding_mode": c["mode"]}), t.div(ta, tb, rounding_mode=c["mode"])
    if which in ("shl", "lshift_dtype"):
        return _ort_vals(L, "aten_bitwise_left_shift", [a, b], {}), t.bitwise_left_shift(ta, tb)
    if which == "shr":
        return _ort_vals(L, "aten_bitwise_right_shift", [a, b], {}), t.bitwise_right_shift(ta, tb)
    raise KeyError(which)


def int_lines(which, c):
    w = {"i32": 32, "i64": 64, "u8": 8}.get(c["dtype"], 64)
    bs = c["b"] if len(c["b"]) == len(c["a"]) else c["b"] * len(c["a"])
    out = []
    for a, b in zip(c["a"], bs):
        if which == "floor_divide":
            out.append(f"floor_divide_{'u' if c['dtype'] == 'u8' else 's'} {a} {b}")
        elif which in ("remainder", "remainder_scalar"):
            out.append(f"remainder {a} {b}")
        elif which == "fmod":
            out.append(f"fmod {a} {b}")
        elif which in ("add", "add_scalar"):
            out.append(f"add {a} {b} {c['alpha']}")
        elif which in ("sub", "sub_scalar"):
            out.append(f"sub {a} {b} {c['alpha']}")
        elif which == "div_mode_int":
            out.append(f"div_trunc {a} {b}" if c["mode"] == "trunc" else f"floor_divide_{'u' if c['dtype'] == 'u8' else 's'} {a} {b}")
        elif which == "shl":
            out.append(f"shl {w} {a} {b}")
        elif which == "shr":
            out.append(f"shr {w} {a} {b}")
    return out


INT_FUNCS = ["floor_divide", "remainder", "remainder_scalar", "fmod", "add", "sub", "add_scalar", "sub_scalar",
             "div_mode_int", "shl", "shr", "lshift_dtype"]


def check_int(L, drv, which, c, stats):
    problems = []
    (r, term, err), tor = int_real(L, which, c)
    tor = tor.numpy()
    stats["value_cases"] += 1
    stats[f"fn:{which}"] += 1
    stats["dtype:" + c["dtype"]] += 1
    lines = int_lines(which, c)
    if r is None:
        problems.append(("property", which, c, f"torch returns {tor.tolist()} ; traced graph fails: {err}"))
        return problems
    got = np.asarray(r[0])
    d = _cmp(got, tor)
    if d:
        problems.append(("property", which, c, d))
    if lines:
        ans = _ask3(drv, lines)
        mt = ans[0][0]
        if mt != "-" and mt != term and which in ("floor_divide", "remainder", "fmod"):
            problems.append(("tie-term", which, c, f"real term {term} ; model term {mt}"))
        mod = [int(x[1]) for x in ans]
        spec = [int(x[2]) for x in ans]
        if got.shape == (len(mod),) and [int(v) for v in got.tolist()] != mod:
            problems.append(("tie-model", which, c, f"onnxruntime {got.tolist()} ; model {mod}" + (" [property also fails]" if d else "")))
        if [int(v) for v in tor.tolist()] != spec:
            problems.append(("tie-spec", which, c, f"torch {tor.tolist()} ; spec {spec}"))
    return problems


# --------------------------------------------------------------------------- creation


def check_creation(L, drv, rng, stats):
    t = L._mods()["torch"]
    problems = []
    kind = rng.choice(["arange", "arange_start", "arange_step", "arange_step", "linspace", "full", "like"])
    stats["value_cases"] += 1
    stats[f"fn:creation:{kind}"] += 1
    if kind.startswith("arange"):
        dtg = rng.random() < 0.5
        kw = {"dtype": 7} if dtg else {}
        tkw = {"dtype": t.int64} if dtg else {}
        if kind == "arange":
            e = rng.randint(-2, 9)
            c = dict(kind=kind, start=0, end=e, step=1, dtype_given=dtg)
            real = _ort_vals(L, "aten_arange", [e], kw)
            tf = lambda: t.arange(e, **tkw)
        elif kind == "arange_start":
            s, e = rng.randint(-5, 5), rng.randint(-5, 9)
            c = dict(kind=kind, start=s, end=e, step=1, dtype_given=dtg)
            real = _ort_vals(L, "aten_arange_start", [s, e], kw)
            tf = lambda: t.arange(s, e, **tkw)
        else:
            s, e, st = rng.randint(-6, 6), rng.randint(-6, 12), rng.choice([1, 2, 3, 5, -1, -2, -3, 7])
            c = dict(kind=kind, start=s, end=e, step=st, dtype_given=dtg)
            real = _ort_vals(L, "aten_arange_start_step", [s, e, st], kw)
            tf = lambda: t.arange(s, e, st, **tkw)
        m_term, m_len, s_len = _ask3(drv, [f"arange {c['start']} {c['end']} {c['step']}"])[0]
        try:
            tor = tf().numpy()
            tlen = str(len(tor))
        except Exception:
            tor, tlen = None, "ERR"
        r, term, err = real
        if s_len != tlen:
            problems.append(("tie-spec", "arange", c, f"torch len {tlen} ; spec {s_len}"))
        if tor is not None:
            if r is None:
                problems.append(("property", "arange", c, f"torch returns {tor.tolist()} ; traced graph fails: {err}"))
            else:
                d = _cmp(r[0], tor)
                if d:
                    problems.append(("property", "arange", c, d))
                if str(len(r[0])) != m_len:
                    problems.append(("tie-model", "arange", c, f"onnxruntime len {len(r[0])} ; model {m_len}"))
            if kind == "arange_step" and not dtg and term != m_term and term != "TRACE-ERR":
                problems.append(("tie-term", "arange", c, f"real term {term} ; model term {m_term}"))
        return problems
    if kind == "linspace":
        n = rng.choice([0, 1, 2, 3, 5, 8])
        a, b = rng.randint(-5, 5), rng.randint(-5, 9)
        c = dict(kind=kind, start=a, end=b, steps=n)
        r, term, err = _ort_vals(L, "aten_linspace", [a, b, n], {})
        tor = t.linspace(a, b, n).numpy()
        _, m_len, s_len = _ask3(drv, [f"linspace {n}"])[0]
        if s_len != str(len(tor)):
            problems.append(("tie-spec", "linspace", c, f"torch len {len(tor)} ; spec {s_len}"))
        if r is None:
            problems.append(("property", "linspace", c, f"traced graph fails: {err}"))
        else:
            d = _cmp(r[0], tor)
            if d:
                problems.append(("property", "linspace", c, d))
            if str(len(r[0])) != m_len:
                problems.append(("tie-model", "linspace", c, f"onnxruntime len {len(r[0])} ; model {m_len}"))
        return problems
    size = [rng.choice([0, 1, 2, 3]) for _ in range(rng.randint(0, 3))]
    line = "full " + (",".join(map(str, size)) if size else "-")
    _, m_res, s_res = _ask3(drv, [line])[0]
    if kind == "full":
        which = rng.choice(["full", "zeros", "ones", "new_full", "new_zeros", "new_ones"])
        c = dict(kind=which, size=size)
        x = np.arange(3, dtype=np.int64)
        if which == "full":
            real, tor = _ort_vals(L, "aten_full", [size, 2.5], {}), t.full(size, 2.5)
        elif which == "zeros":
            real, tor = _ort_vals(L, "aten_zeros", [size], {}), t.zeros(size)
        elif which == "ones":
            real, tor = _ort_vals(L, "aten_ones", [size], {}), t.ones(size)
        elif which == "new_full":
            real, tor = _ort_vals(L, "aten_new_full", [x, size, 4], {}), t.tensor(x).new_full(size, 4)
        elif which == "new_zeros":
            real, tor = _ort_vals(L, "aten_new_zeros", [x, size], {}), t.tensor(x).new_zeros(size)
        else:
            real, tor = _ort_vals(L, "aten_new_ones", [x, size], {}), t.tensor(x).new_ones(size)
    else:
        which = rng.choice(["full_like", "zeros_like", "ones_like"])
        dt = rng.choice(["f32", "i64", "i32"])
        c = dict(kind=which, size=size, dtype=dt)
        x = np.zeros(size, dtype=NP[dt])
        if which == "full_like":
            real, tor = _ort_vals(L, "aten_full_like", [x, 3], {}), t.full_like(t.tensor(x), 3)
        elif which == "zeros_like":
            real, tor = _ort_vals(L, "aten_zeros_like", [x], {}), t.zeros_like(t.tensor(x))
        else:
            real, tor = _ort_vals(L, "aten_ones_like", [x], {}), t.ones_like(t.tensor(x))
    tor = tor.numpy()
    r, term, err = real
    exp = ",".join(map(str, tor.shape)) if tor.shape else "-"
    if s_res != exp:
        problems.append(("tie-spec", which, c, f"torch {exp} ; spec {s_res}"))
    if r is None:
        problems.append(("property", which, c, f"traced graph fails: {err}"))
    else:
        d = _cmp(r[0], tor)
        if d:
            problems.append(("property", which, c, d))
        got = ",".join(map(str, r[0].shape)) if r[0].shape else "-"
        if got != m_res:
            problems.append(("tie-model", which, c, f"onnxruntime {got} ; model {m_res}"))
    return problems


# --------------------------------------------------------------------------- 1-D index maps


def check_index_maps(L, drv, rng, stats):
    t = L._mods()["torch"]
    problems = []
    kind = rng.choice(["flip", "roll", "roll", "trilu", "slice", "slice", "diag", "unfold"])
    stats["value_cases"] += 1
    stats[f"fn:index:{kind}"] += 1
    if kind == "flip":
        d = rng.randint(0, 6)
        x = np.arange(d, dtype=np.int64)
        r, term, err = _ort_vals(L, "aten_flip", [x, [0]], {})
        _, m, s = _ask3(drv, [f"flip_idx {d}"])[0]
        tor = t.flip(t.tensor(x), [0]).tolist()
        c = dict(kind="flip_idx", d=d)
        if s != str(tor).replace(" ", ""):
            problems.append(("tie-spec", "flip", c, f"torch {tor} ; spec {s}"))
        if r is None:
            problems.append(("property", "flip", c, f"traced graph fails: {err}"))
        elif str(r[0].tolist()).replace(" ", "") != m:
            problems.append(("tie-model", "flip", c, f"onnxruntime {r[0].tolist()} ; model {m}"))
        return problems
    if kind == "unfold":
        # element map of aten_unfold (theorem aten_unfold_index_map): windows of arange(d) are the source positions
        d = rng.randint(1, 8)
        size, st = rng.randint(0, d), rng.randint(1, 3)
        x = np.arange(d, dtype=np.int64)
        r, term, err = _ort_vals(L, "aten_unfold", [x, 0, size, st], {})
        _, m, s = _ask3(drv, [f"unfold_idx {d} {size} {st}"])[0]
        tor = t.tensor(x).unfold(0, size, st).tolist()
        c = dict(kind="unfold_idx", d=d, size=size, step=st)
        if s != str(tor).replace(" ", ""):
            problems.append(("tie-spec", "unfold", c, f"torch {tor} ; spec {s}"))
        if r is None:
            problems.append(("property", "unfold", c, f"traced graph fails: {err}"))
        else:
            if str(r[0].tolist()).replace(" ", "") != m:
                problems.append(("tie-model", "unfold", c, f"onnxruntime {r[0].tolist()} ; model {m}"))
            if r[0].tolist() != tor:
                problems.append(("property", "unfold", c, f"values: onnx {r[0].tolist()} vs torch {tor}"))
        return problems
    if kind == "diag":
        # element map of aten_diagonal (theorem aten_diagonal_index_map): entry (i, j) of the matrix holds i*cols + j + 1
        rows, cols = rng.randint(1, 5), rng.randint(1, 5)
        off = rng.randint(-rows - 1, cols + 1)
        x = np.asarray((np.arange(rows * cols, dtype=np.int64) + 1).reshape(rows, cols))
        r, term, err = _ort_vals(L, "aten_diagonal", [x, off, 0, 1], {})
        _, m, s = _ask3(drv, [f"diag_pos {rows} {cols} {off}"])[0]
        tor = t.diagonal(t.tensor(x), off, 0, 1).tolist()
        c = dict(kind="diag_pos", rows=rows, cols=cols, offset=off)
        if s != str(tor).replace(" ", ""):
            problems.append(("tie-spec", "diagonal", c, f"torch {tor} ; spec {s}"))
        if r is None:
            problems.append(("property", "diagonal", c, f"traced graph fails: {err}"))
        else:
            if str(r[0].tolist()).replace(" ", "") != m:
                problems.append(("tie-model", "diagonal", c, f"onnxruntime {r[0].tolist()} ; model {m}"))
            if r[0].tolist() != tor:
                problems.append(("property", "diagonal", c, f"values: onnx {r[0].tolist()} vs torch {tor}"))
        return problems
    if kind == "slice":
        # element map of aten_slice along an axis (theorem aten_slice_index_map): positions selected from arange(d)
        d = rng.randint(0, 7)

        def bound():
            return None if rng.random() < 0.25 else rng.randint(-d - 2, d + 2)
        a, b, st = bound(), bound(), (None if rng.random() < 0.3 else rng.randint(1, 3))
        x = np.arange(d, dtype=np.int64)
        r, term, err = _ort_vals(L, "aten_slice", [x, 0, a, b, st], {})
        o = lambda v: "N" if v is None else str(v)
        _, m, s = _ask3(drv, [f"slice_map {d} {o(a)} {o(b)} {o(st)} ."])[0]
        tor = t.ops.aten.slice(t.tensor(x), 0, a, b, 1 if st is None else st).tolist()
        c = dict(kind="slice_map", d=d, start=a, end=b, step=st)
        if s != str(tor).replace(" ", ""):
            problems.append(("tie-spec", "slice", c, f"torch {tor} ; spec {s}"))
        if r is None:
            problems.append(("property", "slice", c, f"traced graph fails: {err}"))
        else:
            if str(r[0].tolist()).replace(" ", "") != m:
                problems.append(("tie-model", "slice", c, f"onnxruntime {r[0].tolist()} ; model {m}"))
            if r[0].tolist() != tor:
                problems.append(("property", "slice", c, f"values: onnx {r[0].tolist()} vs torch {tor}"))
        return problems
    if kind == "roll":
        d = rng.randint(1, 6)
        sh = rng.randint(-d, 2 * d)
        x = np.arange(d, dtype=np.int64)
        r, term, err = _ort_vals(L, "aten_roll", [x, [sh], [0]], {})
        _, m, s = _ask3(drv, [f"roll_idx {d} 9223372036854775807 {sh}"])[0]
        tor = t.roll(t.tensor(x), sh, 0).tolist()
        c = dict(kind="roll_idx", d=d, shift=sh)
        if s != str(tor).replace(" ", ""):
            problems.append(("tie-spec", "roll", c, f"torch {tor} ; spec {s}"))
        if r is None:
            problems.append(("property", "roll", c, f"traced graph fails: {err}"))
        else:
            if str(r[0].tolist()).replace(" ", "") != m:
                problems.append(("tie-model", "roll", c, f"onnxruntime {r[0].tolist()} ; model {m}"))
            if r[0].tolist() != tor:
                problems.append(("property", "roll", c, f"values: onnx {r[0].tolist()} vs torch {tor}"))
        return problems
    rows, cols = rng.randint(1, 4), rng.randint(1, 4)
    k = rng.randint(-rows - 1, cols + 1)
    upper = rng.random() < 0.5
    x = np.ones((rows, cols), dtype=np.float32)
    r, term, err = _ort_vals(L, "aten_triu" if upper else "aten_tril", [x, k], {})
    _, m, s = _ask3(drv, [f"trilu_keep {int(upper)} {k} {rows} {cols}"])[0]
    tor = (t.triu if upper else t.tril)(t.tensor(x), k).numpy()
    c = dict(kind="trilu", rows=rows, cols=cols, k=k, upper=upper)
    ts = "".join(str(int(v)) for v in tor.reshape(-1))
    if s != ts:
        problems.append(("tie-spec", "trilu", c, f"torch {ts} ; spec {s}"))
    if r is None:
        problems.append(("property", "trilu", c, f"traced graph fails: {err}"))
    else:
        rs = "".join(str(int(v)) for v in r[0].reshape(-1))
        if rs != m:
            problems.append(("tie-model", "trilu", c, f"onnxruntime {rs} ; model {m}"))
        if rs != ts:
            problems.append(("property", "trilu", c, f"mask: onnx {rs} vs torch {ts}"))
    return problems


def run_all(L, drv, run, stats):
    problems = []
    # value-level corpus entries (witnesses of fixed / open findings) first: regressions become failures
    import json as _json
    cp = core.VERIF / "harness" / "corpus_c08.jsonl"
    if cp.exists():
        for ln in cp.read_text().splitlines():
            if not ln.strip():
                continue
            w = _json.loads(ln)
            if w["name"] in INT_FUNCS and "a" in w["case"]:
                problems += check_int(L, drv, w["name"], w["case"], stats)
                stats["corpus_value"] += 1
            elif w["name"] == "roll_complex":
                problems += roll_complex_case(L, w["case"], stats)
                stats["corpus_value"] += 1
    n = run.size(16, 160)
    for which in INT_FUNCS:
        for _ in range(n):
            problems += check_int(L, drv, which, gen_int_case(run.rng, which), stats)
    for _ in range(run.size(60, 600)):
        problems += check_creation(L, drv, run.rng, stats)
    for _ in range(run.size(60, 600)):
        problems += check_index_maps(L, drv, run.rng, stats)
    problems += roll_complex_case(L, dict(shape=[2, 3], shifts=[1], dims=[-1]), stats)
    for _ in range(run.size(20, 200)):
        problems += check_roll_complex(L, run.rng, stats)
    # the dtype-promotion finding's own stream
    t = L._mods()["torch"]
    for dt in ("i32",):
        x = np.arange(6).reshape(2, 3).astype(NP[dt])
        r, term, err = _ort_vals(L, "aten_sum", [x], {})
        tor = t.sum(t.tensor(x)).numpy()
        stats["value_cases"] += 1
        if r is None:
            problems.append(("property", "sum", dict(shape=[2, 3], dtype=dt), f"traced graph fails: {err}"))
        else:
            d = _cmp(r[0], tor)
            if d:
                problems.append(("property", "sum", dict(shape=[2, 3], dtype=dt), d))
    return problems


def check_roll_complex(L, rng, stats):
    """aten_roll_complex (real representation [..., 2]) vs torch.roll on the complex tensor — searched only."""
    t = L._mods()["torch"]
    shape = [rng.choice([1, 2, 3]) for _ in range(rng.randint(1, 3))]
    r = len(shape)
    k = rng.randint(1, min(r, 2))
    dims = rng.sample(range(r), k)
    dims = [d - r if rng.random() < 0.4 else d for d in dims]
    shifts = [rng.randint(-shape[d], shape[d]) for d in dims]
    c = dict(shape=shape, shifts=shifts, dims=dims)
    return roll_complex_case(L, c, stats)


def roll_complex_case(L, c, stats):
    t = L._mods()["torch"]
    n = int(np.prod(c["shape"])) * 2
    z = np.arange(n, dtype=np.float32).reshape(c["shape"] + [2])
    exp = t.view_as_real(t.roll(t.view_as_complex(t.tensor(z)), c["shifts"], c["dims"])).numpy()
    stats["value_cases"] += 1
    stats["fn:roll_complex"] += 1
    r, term, err = _ort_vals(L, "aten_roll_complex", [z, list(c["shifts"]), list(c["dims"])], {})
    if r is None:
        return [("property", "roll_complex", c, f"torch returns {list(exp.shape)} ; traced graph fails: {err}")]
    d = _cmp(r[0], exp)
    return [("property", "roll_complex", c, d)] if d else []


def replay(L, drv, name, case, stats):
    if name == "roll_complex":
        return roll_complex_case(L, case, stats)
    if name in INT_FUNCS:
        return check_int(L, drv, name, case, stats)
    if name.startswith("float:") and case.get("fn") in ACTIVATIONS and "x" in case:
        t = L._mods()["torch"]
        e = next(e for e in _activation_table(t) if e[0] == case["fn"])
        x = np.asarray(np.array(case["x"], dtype=np.float32))
        args, kw = e[4](x, case["params"])
        stats["cases"] += 1
        r, _term, err = _ort_vals(L, e[1], args, kw)
        tor = e[5](t.tensor(x), case["params"]).numpy()
        if r is None:
            return [("property", name, case, f"traced graph fails: {err}")]
        d = _cmp(r[0], tor)
        return [("property", name, case, d)] if d else []
    return []


# --------------------------------------------------------------------------- float search (no theorem)


def float_search(L, run, stats):
    """Differential search only: onnxruntime vs torch eager on float kernels and promotion bookkeeping."""
    t = L._mods()["torch"]
    rng = run.rng
    problems = []
    F = t.nn.functional

    def bshape():
        s = [rng.choice([1, 2, 3]) for _ in range(rng.randint(0, 3))]
        o = [d if rng.random() < 0.6 else 1 for d in s][rng.randint(0, len(s)):] if s else []
        return s, o

    def arr(s, dt="f32", lo=-2.0, hi=2.0):
        n = int(np.prod(s)) if s else 1
        v = np.array([rng.uniform(lo, hi) for _ in range(n)])
        if dt in ("i64", "i32"):
            v = np.round(v * 3)
        return np.asarray(v.astype(NP[dt]).reshape(s))

    unary = [("aten_abs", t.abs, -2, 2), ("aten_neg", t.neg, -2, 2), ("aten_exp", t.exp, -2, 2), ("aten_log", t.log, 0.1, 3),
             ("aten_sqrt", t.sqrt, 0.0, 4), ("aten_sin", t.sin, -3, 3), ("aten_cos", t.cos, -3, 3), ("aten_tanh", t.tanh, -2, 2),
             ("aten_sigmoid", t.sigmoid, -3, 3), ("aten_relu", t.relu, -2, 2), ("aten_floor", t.floor, -3, 3),
             ("aten_ceil", t.ceil, -3, 3), ("aten_trunc", t.trunc, -3, 3), ("aten_sign", t.sign, -2, 2), ("aten_reciprocal", t.reciprocal, 0.5, 3)]
    binary = [("aten_mul", t.mul), ("aten_div", t.div), ("aten_maximum", t.maximum), ("aten_minimum", t.minimum),
              ("aten_eq", t.eq), ("aten_lt", t.lt), ("aten_ge", t.ge), ("aten_ne", t.ne), ("aten_atan2", t.atan2)]
    n = run.size(2, 12)

    def one(fnname, args, kwargs, tf, case):
        stats["float_cases"] += 1
        r, term, err = _ort_vals(L, fnname, args, kwargs)
        try:
            tor = tf()
        except Exception:
            return
        tor = tor.numpy()
        if r is None:
            problems.append(("property", "float:" + fnname, case, f"torch returns shape {list(tor.shape)} ; traced graph fails: {err}"))
            return
        d = _cmp(r[0], tor)
        if d:
            problems.append(("property", "float:" + fnname, case, d))

    for fnname, tf, lo, hi in unary:
        for _ in range(n):
            s, _o = bshape()
            dt = rng.choice(["f32", "f32", "f16"])
            x = arr(s, dt, lo, hi)
            one(fnname, [x], {}, lambda: tf(t.tensor(x)), dict(fn=fnname, shape=s, dtype=dt, x=x.reshape(-1)[:6].tolist()))
    for fnname, tf in binary:
        for _ in range(n):
            s, o = bshape()
            x, y = arr(s), arr(o, lo=0.5, hi=2.0)
            one(fnname, [x, y], {}, lambda: tf(t.tensor(x), t.tensor(y)), dict(fn=fnname, shapes=[s, o]))
    for _ in range(n * 2):
        s, o = bshape()
        x, y = arr(s), arr(o)
        alpha = rng.choice([1.0, 2.0, 0.5, -1.5])
        one("aten_add", [x, y], {"alpha": alpha}, lambda: t.add(t.tensor(x), t.tensor(y), alpha=alpha), dict(fn="add", shapes=[s, o], alpha=alpha))
        one("aten_sub", [x, y], {"alpha": alpha}, lambda: t.sub(t.tensor(x), t.tensor(y), alpha=alpha), dict(fn="sub", shapes=[s, o], alpha=alpha))
        k = rng.choice([1.5, -2, 3])
        one("aten_add_scalar", [x, k], {"alpha": alpha}, lambda: t.add(t.tensor(x), k, alpha=alpha), dict(fn="add.Scalar", shape=s, other=k, alpha=alpha))
        # clamp with omitted bounds, python scalars
        lo_, hi_ = rng.choice([None, -0.5, 0]), rng.choice([None, 0.5, 1])
        one("aten_clamp", [x, lo_, hi_], {}, lambda: t.clamp(t.tensor(x), lo_, hi_) if (lo_ is not None or hi_ is not None) else t.tensor(x),
            dict(fn="clamp", shape=s, min=lo_, max=hi_))
        xi = arr(s, "i64")
        one("aten_clamp", [xi, lo_ if lo_ is None else int(lo_ * 2), hi_ if hi_ is None else int(hi_ * 2)], {},
            lambda: t.clamp(t.tensor(xi), None if lo_ is None else int(lo_ * 2), None if hi_ is None else int(hi_ * 2))
            if (lo_ is not None or hi_ is not None) else t.tensor(xi), dict(fn="clamp.int", shape=s, min=lo_, max=hi_))
        m = arr(o) > 0
        one("aten_masked_fill", [x, m, 7.0], {}, lambda: t.masked_fill(t.tensor(x), t.tensor(m), 7.0), dict(fn="masked_fill", shapes=[s, o]))
        one("aten_where", [m, y, x], {}, lambda: t.where(t.tensor(m), t.tensor(y), t.tensor(x)), dict(fn="where", shapes=[o, o, s]))
        if s:
            d = rng.randint(-len(s), len(s) - 1)
            one("aten_softmax", [x, d], {}, lambda: t.softmax(t.tensor(x), d), dict(fn="softmax", shape=s, dim=d))
            one("aten__log_softmax", [x, d, False], {}, lambda: t.log_softmax(t.tensor(x), d), dict(fn="_log_softmax", shape=s, dim=d))
        # scaled_dot_product_attention: no mask / causal / float mask / bool mask (incl. rows with no allowed key)
        B, H, Lq, Lk, E, Ev = rng.choice([1, 2]), rng.choice([1, 2]), rng.choice([1, 3]), rng.choice([1, 2, 4]), rng.choice([2, 4]), rng.choice([2, 3])
        q_, k_, v_ = arr([B, H, Lq, E]), arr([B, H, Lk, E]), arr([B, H, Lk, Ev])
        kind = rng.choice(["none", "causal", "float", "bool", "bool"])
        mask_ = None
        if kind == "float":
            mask_ = arr([B, 1, Lq, Lk])
        elif kind == "bool":
            mask_ = np.asarray(np.array([[rng.random() < 0.6 for _ in range(Lk)] for _ in range(Lq)]))
        full = bool(kind == "bool" and (~mask_).all(axis=-1).any())
        one("aten_scaled_dot_product_attention", [q_, k_, v_, mask_, 0.0, kind == "causal"], {},
            lambda: F.scaled_dot_product_attention(t.tensor(q_), t.tensor(k_), t.tensor(v_), None if mask_ is None else t.tensor(mask_), 0.0, kind == "causal"),
            dict(fn="sdpa", dims=[B, H, Lq, Lk, E, Ev], mask=kind, fully_masked_row=full))
        # elu with all four scalars (input_scale != 1 reaches aten::elu through decompositions such as celu)
        al_, sc_, isc_ = rng.choice([1.0, 0.5, 2, -1.0]), rng.choice([1.0, 2.0, 1]), rng.choice([1.0, 1, 0.5, 2])
        one("aten_elu", [x, al_, sc_, isc_], {}, lambda: t.ops.aten.elu(t.tensor(x), al_, sc_, isc_),
            dict(fn="elu", shape=s, alpha=al_, scale=sc_, input_scale=isc_))
        # avg_pool2d with count_include_pad / divisor_override (ceil_mode is in the attribute family)
        hw = [rng.randint(3, 6), rng.randint(3, 6)]
        xa = arr([1, 2] + hw)
        ks_ = [rng.randint(1, 3), rng.randint(1, 3)]
        st_ = [rng.randint(1, 2), rng.randint(1, 2)]
        pd_ = [rng.randint(0, ks_[0] // 2), rng.randint(0, ks_[1] // 2)]
        cip_, dv_ = rng.random() < 0.5, rng.choice([None, None, 2, 3])
        one("aten_avg_pool2d", [xa, ks_, st_, pd_, False, cip_, dv_], {}, lambda: F.avg_pool2d(t.tensor(xa), ks_, st_, pd_, False, cip_, dv_),
            dict(fn="avg_pool2d", hw=hw, ks=ks_, st=st_, pad=pd_, count_include_pad=cip_, divisor_override=dv_))
        # cross_entropy_loss: weight / reduction / ignore_index / label_smoothing
        C_, Nb_ = rng.choice([2, 3, 4]), rng.choice([1, 2, 3])
        xl = arr([Nb_, C_])
        tg = np.asarray(np.array([rng.randrange(C_) for _ in range(Nb_)], dtype=np.int64))
        wt_ = np.asarray(np.abs(arr([C_])) + 0.5) if rng.random() < 0.4 else None
        red_, ls_ = rng.choice([0, 1, 2]), rng.choice([0.0, 0.0, 0.1])
        one("aten_cross_entropy_loss", [xl, tg, wt_, red_, -100, ls_], {},
            lambda: F.cross_entropy(t.tensor(xl), t.tensor(tg), None if wt_ is None else t.tensor(wt_), reduction=["none", "mean", "sum"][red_],
                                    ignore_index=-100, label_smoothing=ls_),
            dict(fn="cross_entropy", shape=[Nb_, C_], weight=wt_ is not None, reduction=red_, label_smoothing=ls_))
        # isclose: tolerances, equal / opposite infinities (equal_nan is a documented FIXME of the function: not generated)
        ia = arr([4])
        ib = np.asarray(ia + np.float32(rng.choice([0, 1e-6, 1e-3, 0.1])))
        has_inf = rng.random() < 0.4
        if has_inf:
            ia, ib = ia.copy(), ib.copy()
            ia[0], ib[0] = np.inf, rng.choice([np.inf, -np.inf])
            ia, ib = np.asarray(ia), np.asarray(ib)
        rt_, at_ = rng.choice([1e-5, 1e-2, 0, 0.1]), rng.choice([1e-8, 1e-3, 0])
        one("aten_isclose", [ia, ib, rt_, at_, False], {}, lambda: t.isclose(t.tensor(ia), t.tensor(ib), rt_, at_, False),
            dict(fn="isclose", rtol=rt_, atol=at_, has_inf=has_inf, a0=float(ia[0]), b0=float(ib[0])))
        # repeat_interleave with a tensor of repeats (exact; the result length depends on the values)
        rs_ = [rng.choice([1, 2, 3]) for _ in range(rng.randint(1, 3))]
        rx = np.asarray(np.arange(int(np.prod(rs_)), dtype=np.float32).reshape(rs_))
        rd = None if rng.random() < 0.3 else rng.randint(-len(rs_), len(rs_) - 1)
        reps_ = np.asarray(np.array([rng.randint(0, 3) for _ in range(int(np.prod(rs_)) if rd is None else rs_[rd])], dtype=np.int64))
        if reps_.sum() > 0:
            one("aten_repeat_interleave_Tensor", [rx, reps_, rd], {}, lambda: t.repeat_interleave(t.tensor(rx), t.tensor(reps_), rd),
                dict(fn="repeat_interleave.Tensor", shape=rs_, rank=len(rs_), dim=rd, repeats=reps_.tolist()))
        a_, b_ = arr([2, 3]), arr([3, 2])
        one("aten_mm", [a_, b_], {}, lambda: t.mm(t.tensor(a_), t.tensor(b_)), dict(fn="mm"))
        bias = arr([2])
        one("aten_addmm", [bias, a_, b_], {"beta": 0.5, "alpha": 2.0}, lambda: t.addmm(t.tensor(bias), t.tensor(a_), t.tensor(b_), beta=0.5, alpha=2.0), dict(fn="addmm"))
    problems += piecewise_activations(L, run, stats, one)
    return problems


# Piecewise activations with scalar parameters (after seed C08-10: `aten_softplus` compared the raw input, not input*beta, with
# `threshold` — visible only for beta != 1 AND a small threshold AND an input between threshold/beta and threshold).
# For every function: `knees(p)` lists every input value at which *some* reading of the parameters could switch pieces (for
# softplus both threshold and threshold/beta); the inputs are each knee -/+ {0.05, 0.3}, the midpoints between consecutive
# knees, and two far points.  The first case of every function is a deliberate non-default parameter tuple whose knees are
# all distinct; the rest are random.  Counters `act:<fn>` and `act:<fn>:knees-distinct` are required (INFRA if 0).
def _activation_table(t):
    F = t.nn.functional
    return [
        # name, torch_lib function, deliberate first parameters, random parameters, args(x, p), torch(x, p), knees(p)
        ("softplus", "aten_softplus", dict(beta=2.0, threshold=1.0),
         lambda r: dict(beta=r.choice([1.0, 2.0, 0.5, 3.0]), threshold=r.choice([20.0, 1.0, 0.5, 2.0])),
         lambda x, p: ([x, p["beta"], p["threshold"]], {}), lambda x, p: F.softplus(x, p["beta"], p["threshold"]),
         lambda p: [p["threshold"] / p["beta"], p["threshold"]]),
        ("leaky_relu", "aten_leaky_relu", dict(slope=0.2), lambda r: dict(slope=r.choice([0.01, 0.2, -0.5, 2.0])),
         lambda x, p: ([x, p["slope"]], {}), lambda x, p: F.leaky_relu(x, p["slope"]), lambda p: [0.0]),
        ("hardtanh", "aten_hardtanh", dict(lo=-0.5, hi=0.25),
         lambda r: dict(lo=r.choice([-1.0, -0.5, 0.0, -2.0]), hi=r.choice([1.0, 0.25, 2.0])),
         lambda x, p: ([x, p["lo"], p["hi"]], {}), lambda x, p: F.hardtanh(x, p["lo"], p["hi"]), lambda p: [p["lo"], p["hi"]]),
        ("celu", "aten_celu", dict(alpha=2.0), lambda r: dict(alpha=r.choice([1.0, 0.5, 2.0, 3.0])),
         lambda x, p: ([x, p["alpha"]], {}), lambda x, p: F.celu(x, p["alpha"]), lambda p: [0.0, -p["alpha"]]),
        ("relu6", "aten_relu6", dict(), lambda r: dict(), lambda x, p: ([x], {}), lambda x, p: F.relu6(x), lambda p: [0.0, 6.0]),
        ("hardsigmoid", "aten_hardsigmoid", dict(), lambda r: dict(), lambda x, p: ([x], {}), lambda x, p: F.hardsigmoid(x),
         lambda p: [-3.0, 3.0]),
        ("hardswish", "aten_hardswish", dict(), lambda r: dict(), lambda x, p: ([x], {}), lambda x, p: F.hardswish(x),
         lambda p: [-3.0, 3.0]),
        ("gelu", "aten_gelu", dict(approximate="tanh"), lambda r: dict(approximate=r.choice(["none", "tanh"])),
         lambda x, p: ([x, p["approximate"]], {}), lambda x, p: F.gelu(x, approximate=p["approximate"]), lambda p: [0.0, 1.0]),
        ("logit", "aten_logit", dict(eps=0.25), lambda r: dict(eps=r.choice([None, 0.1, 0.25, 0.4])),
         lambda x, p: ([x, p["eps"]], {}), lambda x, p: t.logit(x, p["eps"]),
         lambda p: [0.5] if p["eps"] is None else [p["eps"], 1 - p["eps"]]),
        ("clamp_min", "aten_clamp_min", dict(b=0.5), lambda r: dict(b=r.choice([0.0, 0.5, -1.0])),
         lambda x, p: ([x, p["b"]], {}), lambda x, p: t.clamp_min(x, p["b"]), lambda p: [p["b"]]),
        ("clamp_max", "aten_clamp_max", dict(b=-0.5), lambda r: dict(b=r.choice([0.0, 0.5, -1.0])),
         lambda x, p: ([x, p["b"]], {}), lambda x, p: t.clamp_max(x, p["b"]), lambda p: [p["b"]]),
        ("selu", "aten_selu", dict(), lambda r: dict(), lambda x, p: ([x], {}), lambda x, p: F.selu(x), lambda p: [0.0]),
        ("silu", "aten_silu", dict(), lambda r: dict(), lambda x, p: ([x], {}), lambda x, p: F.silu(x), lambda p: [0.0]),
        ("mish", "aten_mish", dict(), lambda r: dict(), lambda x, p: ([x], {}), lambda x, p: F.mish(x), lambda p: [0.0]),
        ("log_sigmoid", "aten_log_sigmoid", dict(), lambda r: dict(), lambda x, p: ([x], {}), lambda x, p: F.logsigmoid(x), lambda p: [0.0]),
    ]


ACTIVATIONS = ["softplus", "leaky_relu", "hardtanh", "celu", "relu6", "hardsigmoid", "hardswish", "gelu", "logit", "clamp_min",
               "clamp_max", "selu", "silu", "mish", "log_sigmoid"]


def activation_inputs(knees, lo=None, hi=None):
    ks = sorted(set(float(k) for k in knees))
    pts = []
    for k in ks:
        pts += [k - 0.3, k - 0.05, k + 0.05, k + 0.3]
    pts += [(a + b) / 2 for a, b in zip(ks, ks[1:])]
    pts += [ks[0] - 2.5, ks[-1] + 2.5]
    if lo is not None:
        pts = [min(max(v, lo), hi) for v in pts]
    return np.asarray(np.array(sorted(set(pts)), dtype=np.float32))


def piecewise_activations(L, run, stats, one):
    t = L._mods()["torch"]
    rng = run.rng
    table = _activation_table(t)
    if [e[0] for e in table] != ACTIVATIONS:
        raise core.Infra("activation table and ACTIVATIONS disagree")
    before = stats["float_cases"]
    probs_before = None
    n = run.size(3, 10)
    for name, fnname, first, rand, mk, tf, knees in table:
        for i in range(n):
            p = dict(first) if i == 0 else rand(rng)
            ks = knees(p)
            x = activation_inputs(ks, *((0.02, 0.98) if name == "logit" else (None, None)))
            if i % 3 == 2:
                x = np.asarray(x.reshape(1, -1))                     # a rank-2 view of the same points
            args, kw = mk(x, p)
            stats[f"act:{name}"] += 1
            if len(set(ks)) == len(ks):
                stats[f"act:{name}:knees-distinct"] += 1
            one(fnname, args, kw, lambda: tf(t.tensor(x), p),
                dict(fn=name, params={k: v for k, v in p.items()}, knees=[float(k) for k in ks], x=x.reshape(-1).tolist()))
    stats["activation_cases"] = stats["float_cases"] - before
    missing = [a for a in ACTIVATIONS if stats[f"act:{a}"] == 0 or stats[f"act:{a}:knees-distinct"] == 0]
    if missing:
        raise core.Infra("generator degenerated: piecewise activations never exercised with distinct knees: " + ", ".join(missing))
    return []


# --------------------------------------------------------------------------- exporter half


def exporter_half(L, run, stats):
    """torch.onnx.export(dynamo=True) of tiny random modules built from the covered operators."""
    t = L._mods()["torch"]
    ort = L._mods()["ort"]
    rng = run.rng
    problems = []
    t0 = time.time()

    def make(ops):
        class M(t.nn.Module):
            def forward(self, x):
                for f in ops:
                    x = f(x)
                return x
        return M()

    pool = [
        ("flatten(1)", lambda x: t.flatten(x, 1)),
        ("transpose(0,-1)", lambda x: t.transpose(x, 0, -1)),
        ("roll(1,0)", lambda x: t.roll(x, 1, 0)),
        ("flip(-1)", lambda x: t.flip(x, [-1])),
        ("sum(-1,keepdim)", lambda x: t.sum(x, dim=-1, keepdim=True)),
        ("unsqueeze(0)", lambda x: t.unsqueeze(x, 0)),
        ("narrow(0,0,1)", lambda x: t.narrow(x, 0, 0, 1)),
        ("repeat", lambda x: x.repeat(*([2] + [1] * (x.dim() - 1))) if x.dim() else x),
        ("tril", lambda x: t.tril(x) if x.dim() >= 2 else x),
        ("cat", lambda x: t.cat([x, x], dim=-1) if x.dim() else x),
        ("softmax", lambda x: t.softmax(x, -1) if x.dim() else x),
        ("mul2+1", lambda x: x * 2 + 1),
        ("chunk2[0]", lambda x: t.chunk(x, 2, 0)[0] if x.dim() and x.shape[0] % 2 == 0 and x.shape[0] > 0 else x),
        ("amax(0)", lambda x: t.amax(x, 0) if x.dim() else x),
    ]
    n = run.size(4, 30)
    done = 0
    try:
        for _ in range(n):
            k = rng.randint(1, 3)
            chosen = [rng.choice(pool) for _ in range(k)]
            shape = [rng.choice([2, 3, 4]) for _ in range(rng.randint(2, 3))]
            x = t.arange(int(np.prod(shape)), dtype=t.float32).reshape(shape) / 7.0
            mod = make([f for _, f in chosen]).eval()
            case = dict(ops=[nm for nm, _ in chosen], shape=shape)
            expected = mod(x)
            prog = t.onnx.export(mod, (x,), dynamo=True, verbose=False)
            buf = io.BytesIO()
            prog.save(buf)
            sess = ort.InferenceSession(buf.getvalue(), providers=["CPUExecutionProvider"])
            ins = sess.get_inputs()
            got = sess.run(None, {ins[0].name: x.numpy()} if ins else {})
            d = _cmp(got[0], expected.numpy())
            stats["export_cases"] += 1
            done += 1
            if d:
                problems.append(("property", "export", case, d))
            if time.time() - t0 > run.size(45, 400):
                break
    except Exception as e:  # exporter not usable here: reported, not claimed
        return dict(status=f"not exercised after {done} modules: {type(e).__name__}: {str(e)[:200]}", problems=problems)
    return dict(status=f"exercised: {done} random modules exported with torch.onnx.export(dynamo=True) and compared "
                       f"with eager in {time.time() - t0:.0f}s", problems=problems)
