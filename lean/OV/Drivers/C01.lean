import OV.Model.C01SExp
import OV.Model.C01Sem
import OV.Drivers.Loop
/-! Line-protocol driver for C01 and C02 (one model).
    (`<func-sexp>` may be wrapped: `(withenv (closure (k <lit>)*) (globals (k <lit>)*) <func-sexp>)`)
    `C01 convert <func-sexp>`  → `ok <wf:true|false:why> <graph-sexp>` | `err <ExceptionClass>` | `bad-input`
    `C01 wf <graph-sexp>`      → `true` | `false <why>` | `bad-input`   (the verified checker `wfGraph`
                                  run on a graph parsed back from a proto of the real converter)
    `C01 live <func-sexp>`     → live-in set of the function body (analysis tie)
    `C01 stable <func-sexp>`   → whether every liveness fixpoint of the model was reached within its fuel
                                  (hypothesis of `liveness_sound`) -/
namespace OV.Drivers.C01
open OV.C01

def handle (args : List String) : String :=
  match args with
  | "convert" :: rest =>
    match parseSExp (" ".intercalate rest) with
    | none => "bad-input"
    | some e =>
      match decProgram e with
      | none => "bad-input"
      | some f =>
        match convert f with
        | .error err => "err " ++ showErr err
        | .ok g => "ok " ++ (if wfGraph g then "true" else "false:" ++ wfWhy g) ++ " " ++ (encGraph g).show
  | "wf" :: rest =>
    match parseSExp (" ".intercalate rest) with
    | none => "bad-input"
    | some e =>
      match decGraph e with
      | none => "bad-input"
      | some g => if wfGraph g then "true" else "false " ++ wfWhy g
  | "stable" :: rest =>
    match parseSExp (" ".intercalate rest) with
    | none => "bad-input"
    | some e =>
      match decProgram e with
      | none => "bad-input"
      | some f => if stableBlock f.body [] then "true" else "false"
  | "live" :: rest =>
    match parseSExp (" ".intercalate rest) with
    | none => "bad-input"
    | some e =>
      match decProgram e with
      | none => "bad-input"
      | some f => " ".intercalate (liveInBlock f.body [])
  | _ => "bad-op"

end OV.Drivers.C01

def main : IO Unit := OV.Drivers.run OV.Drivers.C01.handle
