import OV.Model.C01SExp
import OV.Model.C01Sem
import OV.Model.C01Export
import OV.Model.C01Eager
import OV.Model.C01Separate
import OV.Drivers.Loop
/-! Line-protocol driver for C01 and C02 (one model).
    (`<func-sexp>` may be wrapped: `(withenv (closure (k <lit>)*) (globals (k <lit>)*) <func-sexp>)`)
    `C01 convert <func-sexp>`  → `ok <wf:true|false:why> <graph-sexp>` | `err <ExceptionClass>` | `bad-input`
    `C01 wf <graph-sexp>`      → `true` | `false <why>` | `bad-input`   (the verified checker `wfGraph`
                                  run on a graph parsed back from a proto of the real converter)
    `C01 live <func-sexp>`     → live-in set of the function body (analysis tie)
    `C01 export (withdefaults (defaults (NAME TEXT|_)*) <func-sexp>)` → `ok <wf> <norefs|refs> <graph-sexp>` | `err …`:
                                  the main graph `to_model_proto()` builds from the function body
    `C01 fragment <func-sexp>` → `straight` | `if` | `loop` | `nested` | `attrs` (an attribute parameter assigned, aliased `y = alpha` or used as a bare condition `if flag:`: `hattr` fails) |
                                  `none_lit` / `none_brk` / `none_lit_brk` / `none_other` (outside every fragment, and why):
                                  the refinement theorem that covers it
    `C01 stable <func-sexp>`   → whether every liveness fixpoint of the model was reached within its fuel
                                  (hypothesis of `liveness_sound`)
    `C01 eager (call (sig (NAME in|attr VARIADIC REQUIRED HASDEFAULT)*) (py (NAME <val>|_)*) (args <val>*)
                (kw (NAME <val>)*) ALLOWEXTRA RETBOOL)` → the eager calling convention (`OV/Model/C01Eager.lean`):
                                  `sigmatch=… nodup=… tag=… eager=… out=… python=…`
    `C01 separate (call (sig (NAME in|attr VARIADIC REQUIRED HASDEFAULT)*) (args TOKEN*) (kw (NAME TOKEN)*) FILL ALLOWKW ALLOWARGS)`
                                  → `separate_input_attributes_from_arguments` (`OV/Model/C01Separate.lean`):
                                  `ok (ins TOKEN|_ …) (attrs (NAME TOKEN)…) spec=<same|differs|n/a>` | `err TypeError:<kind>` -/
namespace OV.Drivers.C01
open OV.C01

mutual
/-- names read in value position (keyword arguments of operator calls not included) -/
def valVars : Expr → List Name
  | .var x => [x]
  | .lit _ => []
  | .call _ _ _ args _ => valVarsL args
  | .binop _ a b => valVars a ++ valVars b
  | .unop _ a => valVars a
  | .cmp _ a b => valVars a ++ valVars b
  | .subscript base _ => valVars base
  | .other us => us
def valVarsL : List Expr → List Name
  | [] => []
  | e :: es => valVars e ++ valVarsL es
end

mutual
def valStmt : Stmt → List Name
  | .assign _ e => valVars e
  | .par _ es => valVarsL es
  | .tuple _ e => valVars e
  | .badAssign _ e => valVars e
  | .ite c t e => valVars c ++ valBlock t ++ valBlock e
  | .for_ _ _ b body => valVars b ++ valBlock body
  | .while_ c body => valVars c ++ valBlock body
  | .brk c => valVars c
  | .ret es _ => valVarsL es
  | .skip => []
  | .unsupported => []
def valBlock : List Stmt → List Name
  | [] => []
  | st :: ss => valStmt st ++ valBlock ss
end

mutual
/-- a statement that assigns a bare (or negated) literal to a variable / contains `if b: break` -/
def litAssignStmt : Stmt → Bool
  | .assign _ e => !tensorRhs e
  | .par _ es => es.any (fun e => !tensorRhs e)
  | .ite _ t e => litAssignBlock t || litAssignBlock e
  | .for_ _ _ _ body => litAssignBlock body
  | .while_ _ body => litAssignBlock body
  | _ => false
def litAssignBlock : List Stmt → Bool
  | [] => false
  | st :: ss => litAssignStmt st || litAssignBlock ss
end

mutual
def hasBrkStmt : Stmt → Bool
  | .brk _ => true
  | .ite _ t e => hasBrkBlock t || hasBrkBlock e
  | .for_ _ _ _ body => hasBrkBlock body
  | .while_ _ body => hasBrkBlock body
  | _ => false
def hasBrkBlock : List Stmt → Bool
  | [] => false
  | st :: ss => hasBrkStmt st || hasBrkBlock ss
end

namespace Eager
open OV.C01.Eager

mutual
def decArg : SExp → Option (Arg String)
  | .atom "none" => some .none
  | .atom _ => none
  | .list xs => decArgTagged xs
def decArgTagged : List SExp → Option (Arg String)
  | [.atom "arr", .atom v] => some (.arr v)
  | [.atom "ten", .atom v] => some (.ten v)
  | [.atom "bool", .atom b] => some (.bool (decBool b))
  | [.atom "flt", .atom x] => some (.flt x)
  | [.atom "int", .atom i] => i.toInt?.map .int
  | [.atom "other", .atom t] => some (.other t)
  | .atom "list" :: xs => (decArgs xs).map .list
  | .atom "tuple" :: xs => (decArgs xs).map .tuple
  | _ => none
def decArgs : List SExp → Option (List (Arg String))
  | [] => some []
  | x :: xs => match decArg x, decArgs xs with
    | some a, some as => some (a :: as)
    | _, _ => none
end

mutual
def encArg : Arg String → SExp
  | .arr v => .list [.atom "arr", .atom v]
  | .ten v => .list [.atom "ten", .atom v]
  | .bool b => .list [.atom "bool", .atom (if b then "1" else "0")]
  | .flt x => .list [.atom "flt", .atom x]
  | .int i => .list [.atom "int", .atom (toString i)]
  | .none => .atom "none"
  | .list xs => .list (.atom "list" :: encArgs xs)
  | .tuple xs => .list (.atom "tuple" :: encArgs xs)
  | .other t => .list [.atom "other", .atom t]
def encArgs : List (Arg String) → List SExp
  | [] => []
  | x :: xs => encArg x :: encArgs xs
end

def mkS : Mk String :=
  ⟨fun b => "np:bool:" ++ (if b then "True" else "False"), fun x => "np:float64:" ++ x, fun i => "np:int64:" ++ toString i⟩

def showE : OV.C01.Eager.Err → String
  | .unexpectedKw => "TypeError:unexpectedKw" | .missing => "TypeError:missing" | .badInput => "TypeError:badInput"
  | .badOutput => "TypeError:badOutput" | .tooMany => "TypeError:tooMany" | .badKw => "TypeError:badKw"

def encEnv (env : List (Name × Arg String)) : SExp :=
  .list (.atom "env" :: env.map (fun e => .list [.atom e.1, encArg e.2]))

def decSigP : SExp → Option SigParam
  | .list [.atom n, .atom k, .atom v, .atom r, .atom d] =>
    some ⟨n, k = "in", decBool v, decBool r, decBool d⟩
  | _ => none

def decPyP : SExp → Option (PyParam (Arg String))
  | .list [.atom n, .atom "_"] => some ⟨n, none⟩
  | .list [.atom n, v] => (decArg v).map (fun a => ⟨n, some a⟩)
  | _ => none

def decKw : SExp → Option (Name × Arg String)
  | .list [.atom n, v] => (decArg v).map (fun a => (n, a))
  | _ => none

/-- values of the tensor parameters of an environment in parameter order (what the recorder of the tie returns) -/
def inputVals : List SigParam → List (Name × Arg String) → List (Arg String)
  | p :: ps, (_, a) :: r => if p.isInput then a :: inputVals ps r else inputVals ps r
  | _, _ => []

def handleEager : SExp → String
  | .list [.atom "call", .list (.atom "sig" :: sps), .list (.atom "py" :: pys), .list (.atom "args" :: as),
           .list (.atom "kw" :: kws), .atom allow, .atom retb] =>
    match sps.mapM decSigP, pys.mapM decPyP, decArgs as, kws.mapM decKw with
    | some ps, some qs, some args, some kw =>
      let ae := decBool allow
      let tag := match tagArguments false ae (fun _ => Arg.none) ps args kw with
        | .error e => "err:" ++ showE e
        | .ok (ta, tk) => "ok:" ++ toString ta.length ++ ":" ++ " ".intercalate (tk.map (fun (e : Name × Arg String × SigParam) => e.1))
      let call := eagerCall mkS ae ps qs args kw
      let eager := match call with
        | .error e => "err:" ++ showE e
        | .ok (env, flag) => "ok:" ++ (if flag then "1" else "0") ++ ":" ++ (encEnv env).show
      let out := match call with
        | .error _ => "-"
        | .ok (env, flag) =>
          let r : Arg String := .tuple (inputVals ps env ++ (if decBool retb then [Arg.bool true] else []))
          match finish flag r with
          | .error e => "err:" ++ showE e
          | .ok v => "ok:" ++ (encArg v).show
      let py := match pyBind qs args kw with
        | .error e => "err:" ++ showE e
        | .ok env =>
          match adaptEnv mkS ps env with
          | .error e => "ok-then-err:" ++ showE e
          | .ok env' => "ok:" ++ (if flagEnv ps env then "1" else "0") ++ ":" ++ (encEnv env').show
      s!"sigmatch={sigMatch ps qs} nodup={nodupP ps} tag={tag} | eager={eager} | out={out} | python={py}"
    | _, _, _, _ => "bad-input"
  | _ => "bad-input"

def handleSeparate : SExp → String
  | .list [.atom "call", .list (.atom "sig" :: sps), .list (.atom "args" :: as), .list (.atom "kw" :: kws),
           .atom fill, .atom akw, .atom aargs] =>
    let kwd := kws.mapM (fun k => match k with | .list [.atom n, .atom v] => some (n, v) | _ => none)
    match sps.mapM decSigP, atoms as, kwd with
    | some ps, some args, some kw =>
      let dflt := fun (p : SigParam) => "default:" ++ p.name
      let showIns := fun (ins : List (Option String)) => " ".intercalate (ins.map (fun o => o.getD "_"))
      let showAttrs := fun (ats : List (Name × String)) => " ".intercalate (ats.map (fun e => "(" ++ e.1 ++ " " ++ e.2 ++ ")"))
      match separate (decBool fill) (decBool akw) (decBool aargs) dflt ps args kw with
      | .error e => "err " ++ showE e
      | .ok (ins, ats) =>
        -- the closed form of `separate_inputs_attributes_spec`, where its hypotheses hold
        let spec :=
          if noVariadic ps && requiredGiven kw args 0 ps && !decBool fill && decBool aargs
              && (!(kw.any (fun e => !(ps.any (fun p => p.name = e.1)))) || decBool akw) then
            (if showIns (trimNone (inputSlots kw args 0 ps)) = showIns ins
                && showAttrs (attrSlots kw args 0 ps) = showAttrs ats then "same" else "differs")
          else "n/a"
        "ok (ins " ++ showIns ins ++ ") (attrs " ++ showAttrs ats ++ ") spec=" ++ spec
    | _, _, _ => "bad-input"
  | _ => "bad-input"

end Eager

def handle (args : List String) : String :=
  match args with
  | "eager" :: rest =>
    match parseSExp (" ".intercalate rest) with
    | none => "bad-input"
    | some e => Eager.handleEager e
  | "separate" :: rest =>
    match parseSExp (" ".intercalate rest) with
    | none => "bad-input"
    | some e => Eager.handleSeparate e
  | "convert" :: rest =>
    match parseSExp (" ".intercalate rest) with
    | none => "bad-input"
    | some e =>
      match decProgram e with
      | none => "bad-input"
      | some f =>
        match convert f with
        | .error err => "err " ++ showErr err
        | .ok g => "ok " ++ (if wfGraph g then "true" else "false:" ++ wfWhy g) ++ " " ++ (encGraph g).show
  | "wf" :: rest =>
    match parseSExp (" ".intercalate rest) with
    | none => "bad-input"
    | some e =>
      match decGraph e with
      | none => "bad-input"
      | some g => if wfGraph g then "true" else "false " ++ wfWhy g
  | "export" :: rest =>
    -- `export (defaults (NAME TEXT|_)*) <func-sexp>`: convert, then `to_model_proto` on the body
    match parseSExp (" ".intercalate rest) with
    | some (.list [.atom "withdefaults", .list (.atom "defaults" :: ds), fe]) =>
      let dsd := ds.filterMap (fun d => match d with
        | .list [.atom k, .atom v] => some (k, if v = "_" then none else some v)
        | _ => none)
      (match decProgram fe with
       | none => "bad-input"
       | some f =>
         match convert f with
         | .error err => "err " ++ showErr err
         | .ok g =>
           match exportModel dsd g with
           | .error err => "err " ++ showErr err
           | .ok g' =>
             "ok " ++ (if wfGraph g' then "true" else "false:" ++ wfWhy g') ++ " "
               ++ (if (attrRefs g'.nodes).isEmpty then "norefs" else "refs") ++ " " ++ (encGraph g').show)
    | _ => "bad-input"
  | "fragment" :: rest =>
    -- which refinement theorem of Props/C01.lean covers the program (strongest first)
    match parseSExp (" ".intercalate rest) with
    | none => "bad-input"
    | some e =>
      match decProgram e with
      | none => "bad-input"
      | some f =>
        -- hypothesis `hattr` of stages 2-4: no attribute parameter is an assignment target or read as a bare right-hand
        -- side / condition (`y = alpha`, `if flag:`); stage 1 only needs this of the attribute parameters that are read
        -- as values at all (the others can be left without a Python value)
        let rebound := (attrParams f.params).any (fun p => (targetsTop f.body).contains p)
        let reboundRead := (attrParams f.params).any (fun p =>
          (targetsBlock f.body).contains p && (valBlock f.body).contains p)
        if straightLineT f.body then (if reboundRead then "attrs" else "straight")
        else if rebound then "attrs"
        else if ifLine f.body then "if"
        else if forLine f.body then "loop"
        else if nestLine f.body then
          -- stage 4 with variables holding Python scalars: the literal-assigned names must not be bound or read
          -- bare by any other statement (hypotheses hPy / hLT with pyVars := litTargets), nor be attribute parameters
          (if (litTargets f.body).any (fun x => (targetsTop f.body).contains x || (attrParams f.params).contains x)
           then "none_lit" else "nested")
        else
          -- why not: a literal-valued variable beside control flow, a `break` the fragments do not allow, or else
          match litAssignBlock f.body, hasBrkBlock f.body with
          | true, true => "none_lit_brk"
          | true, false => "none_lit"
          | false, true => "none_brk"
          | false, false => "none_other"
  | "stable" :: rest =>
    match parseSExp (" ".intercalate rest) with
    | none => "bad-input"
    | some e =>
      match decProgram e with
      | none => "bad-input"
      | some f => if stableBlock f.body [] then "true" else "false"
  | "live" :: rest =>
    match parseSExp (" ".intercalate rest) with
    | none => "bad-input"
    | some e =>
      match decProgram e with
      | none => "bad-input"
      | some f => " ".intercalate (liveInBlock f.body [])
  | _ => "bad-op"

end OV.Drivers.C01

def main : IO Unit := OV.Drivers.run OV.Drivers.C01.handle
