import OV.Model.C01SExp
import OV.Model.C01Sem
import OV.Model.C01Export
import OV.Drivers.Loop
/-! Line-protocol driver for C01 and C02 (one model).
    (`<func-sexp>` may be wrapped: `(withenv (closure (k <lit>)*) (globals (k <lit>)*) <func-sexp>)`)
    `C01 convert <func-sexp>`  → `ok <wf:true|false:why> <graph-sexp>` | `err <ExceptionClass>` | `bad-input`
    `C01 wf <graph-sexp>`      → `true` | `false <why>` | `bad-input`   (the verified checker `wfGraph`
                                  run on a graph parsed back from a proto of the real converter)
    `C01 live <func-sexp>`     → live-in set of the function body (analysis tie)
    `C01 export (withdefaults (defaults (NAME TEXT|_)*) <func-sexp>)` → `ok <wf> <norefs|refs> <graph-sexp>` | `err …`:
                                  the main graph `to_model_proto()` builds from the function body
    `C01 fragment <func-sexp>` → `straight` | `if` | `loop` | `nested` | `attrs` (an attribute parameter assigned, aliased `y = alpha` or used as a bare condition `if flag:`: `hattr` fails) |
                                  `none_lit` / `none_brk` / `none_lit_brk` / `none_other` (outside every fragment, and why):
                                  the refinement theorem that covers it
    `C01 stable <func-sexp>`   → whether every liveness fixpoint of the model was reached within its fuel
                                  (hypothesis of `liveness_sound`) -/
namespace OV.Drivers.C01
open OV.C01

mutual
/-- names read in value position (keyword arguments of operator calls not included) -/
def valVars : Expr → List Name
  | .var x => [x]
  | .lit _ => []
  | .call _ _ _ args _ => valVarsL args
  | .binop _ a b => valVars a ++ valVars b
  | .unop _ a => valVars a
  | .cmp _ a b => valVars a ++ valVars b
  | .subscript base _ => valVars base
  | .other us => us
def valVarsL : List Expr → List Name
  | [] => []
  | e :: es => valVars e ++ valVarsL es
end

mutual
def valStmt : Stmt → List Name
  | .assign _ e => valVars e
  | .par _ es => valVarsL es
  | .tuple _ e => valVars e
  | .badAssign _ e => valVars e
  | .ite c t e => valVars c ++ valBlock t ++ valBlock e
  | .for_ _ _ b body => valVars b ++ valBlock body
  | .while_ c body => valVars c ++ valBlock body
  | .brk c => valVars c
  | .ret es _ => valVarsL es
  | .skip => []
  | .unsupported => []
def valBlock : List Stmt → List Name
  | [] => []
  | st :: ss => valStmt st ++ valBlock ss
end

mutual
/-- a statement that assigns a bare (or negated) literal to a variable / contains `if b: break` -/
def litAssignStmt : Stmt → Bool
  | .assign _ e => !tensorRhs e
  | .par _ es => es.any (fun e => !tensorRhs e)
  | .ite _ t e => litAssignBlock t || litAssignBlock e
  | .for_ _ _ _ body => litAssignBlock body
  | .while_ _ body => litAssignBlock body
  | _ => false
def litAssignBlock : List Stmt → Bool
  | [] => false
  | st :: ss => litAssignStmt st || litAssignBlock ss
end

mutual
def hasBrkStmt : Stmt → Bool
  | .brk _ => true
  | .ite _ t e => hasBrkBlock t || hasBrkBlock e
  | .for_ _ _ _ body => hasBrkBlock body
  | .while_ _ body => hasBrkBlock body
  | _ => false
def hasBrkBlock : List Stmt → Bool
  | [] => false
  | st :: ss => hasBrkStmt st || hasBrkBlock ss
end

def handle (args : List String) : String :=
  match args with
  | "convert" :: rest =>
    match parseSExp (" ".intercalate rest) with
    | none => "bad-input"
    | some e =>
      match decProgram e with
      | none => "bad-input"
      | some f =>
        match convert f with
        | .error err => "err " ++ showErr err
        | .ok g => "ok " ++ (if wfGraph g then "true" else "false:" ++ wfWhy g) ++ " " ++ (encGraph g).show
  | "wf" :: rest =>
    match parseSExp (" ".intercalate rest) with
    | none => "bad-input"
    | some e =>
      match decGraph e with
      | none => "bad-input"
      | some g => if wfGraph g then "true" else "false " ++ wfWhy g
  | "export" :: rest =>
    -- `export (defaults (NAME TEXT|_)*) <func-sexp>`: convert, then `to_model_proto` on the body
    match parseSExp (" ".intercalate rest) with
    | some (.list [.atom "withdefaults", .list (.atom "defaults" :: ds), fe]) =>
      let dsd := ds.filterMap (fun d => match d with
        | .list [.atom k, .atom v] => some (k, if v = "_" then none else some v)
        | _ => none)
      (match decProgram fe with
       | none => "bad-input"
       | some f =>
         match convert f with
         | .error err => "err " ++ showErr err
         | .ok g =>
           match exportModel dsd g with
           | .error err => "err " ++ showErr err
           | .ok g' =>
             "ok " ++ (if wfGraph g' then "true" else "false:" ++ wfWhy g') ++ " "
               ++ (if (attrRefs g'.nodes).isEmpty then "norefs" else "refs") ++ " " ++ (encGraph g').show)
    | _ => "bad-input"
  | "fragment" :: rest =>
    -- which refinement theorem of Props/C01.lean covers the program (strongest first)
    match parseSExp (" ".intercalate rest) with
    | none => "bad-input"
    | some e =>
      match decProgram e with
      | none => "bad-input"
      | some f =>
        -- hypothesis `hattr` of stages 2-4: no attribute parameter is an assignment target or read as a bare right-hand
        -- side / condition (`y = alpha`, `if flag:`); stage 1 only needs this of the attribute parameters that are read
        -- as values at all (the others can be left without a Python value)
        let rebound := (attrParams f.params).any (fun p => (targetsTop f.body).contains p)
        let reboundRead := (attrParams f.params).any (fun p =>
          (targetsBlock f.body).contains p && (valBlock f.body).contains p)
        if straightLineT f.body then (if reboundRead then "attrs" else "straight")
        else if rebound then "attrs"
        else if ifLine f.body then "if"
        else if forLine f.body then "loop"
        else if nestLine f.body then
          -- stage 4 with variables holding Python scalars: the literal-assigned names must not be bound or read
          -- bare by any other statement (hypotheses hPy / hLT with pyVars := litTargets), nor be attribute parameters
          (if (litTargets f.body).any (fun x => (targetsTop f.body).contains x || (attrParams f.params).contains x)
           then "none_lit" else "nested")
        else
          -- why not: a literal-valued variable beside control flow, a `break` the fragments do not allow, or else
          match litAssignBlock f.body, hasBrkBlock f.body with
          | true, true => "none_lit_brk"
          | true, false => "none_lit"
          | false, true => "none_brk"
          | false, false => "none_other"
  | "stable" :: rest =>
    match parseSExp (" ".intercalate rest) with
    | none => "bad-input"
    | some e =>
      match decProgram e with
      | none => "bad-input"
      | some f => if stableBlock f.body [] then "true" else "false"
  | "live" :: rest =>
    match parseSExp (" ".intercalate rest) with
    | none => "bad-input"
    | some e =>
      match decProgram e with
      | none => "bad-input"
      | some f => " ".intercalate (liveInBlock f.body [])
  | _ => "bad-op"

end OV.Drivers.C01

def main : IO Unit := OV.Drivers.run OV.Drivers.C01.handle
