import OV.Model.C17OpsetGen
import OV.Gen.C17Tables
import OV.Gen.C17IrMap
import OV.Drivers.Loop
/-! Line-protocol driver for C17 (names are `enc` numbers).
    `C17 prep <tok>*`                      tok = `n` (None) | integer            -> `R <tok>*`
    `C17 lookup <d> <N> <n>`               -> `none` | `<name> <since> <domain> dep=<b>`
    `C17 resolve <d> <N> <n>`              -> `none` | `<callname> <callsince> <calldomain>`
    `C17 cell <d> <N> <n>`                 -> `ok=<b> mirrors=<b|-> stub=<b|-> agrees=<b>`
    `C17 eager <d> <N> <n> <nargs> <kw>*`  kw = `<name>=<value>`; args are `0 1 2 …` (a `n` in `<nargs>` list form
                                           `a:0,n,2` gives explicit arguments) -> `ERR` | `<key> | <inputs> | <attrs>`
    `C17 emodel <d> <N> <n> <nargs> <kw>*`  as `eager`, the whole path up to the one-node model (`eagerRun`) -> `ERR` |
                                           `<op_type> <domain> | <input index|->* | <attrs> | <import d>:<v> | <ir_version> | <i>=<value>*`
    `C17 hist <cmd>*`                      cmd = `N:<cls>:<d>:<v>` | `I:<i>:<n>` | `C:<i>:<n>` | `A:<i>:<n>` (one history from
                                           an empty cache) -> `i<k>:<d>:<v>` | `s<name>,<since>,<dom>` | `s-` | `bT`/`bF` | `E` | `X`
    `C17 conv <declared d:v|-> <opset_version|-> <current> <ev>*`   ev = `c:<d>:<v>` | `i`
                                           -> `ERR:twoOpsets` | `ERR:noDefault` | `ok <d:v>* | <d:v0:v>*` (exported imports | conflicts)
    `C17 sep <fill> <allowKw> <allowArgs> P <name:isInput:variadic:required:dflt|->* A <arg>* K <k=v>*`
                                           -> `ERR:<kind>` | `ok | <inputs> | <k=v>*` -/
namespace OV.Drivers.C17
open OV.C17 OV.Gen.C17

def showOptNat : Option Nat → String
  | none => "n"
  | some v => toString v

def parseTok (s : String) : Option (Option Nat) :=
  if s == "n" then some none else s.toNat?.map some

def showSc : Sc → String
  | .int i => s!"i{i}"
  | .flt b => s!"f{b}"
  | .str c => s!"s{c}"

def showDflt : Dflt → String
  | .absent => "A"
  | .pyNone => "N"
  | .sc s => showSc s
  | .list l => "L[" ++ ",".intercalate (l.map showSc) ++ "]"
  | .other c => s!"o{c}"

def parseSc (s : String) : Option Sc :=
  if s.startsWith "i" then (s.drop 1).toString.toInt?.map .int
  else if s.startsWith "f" then (s.drop 1).toString.toNat?.map .flt
  else if s.startsWith "s" then (s.drop 1).toString.toNat?.map .str
  else none

def parseDflt (s : String) : Option Dflt :=
  if s == "N" then some .pyNone
  else if s == "A" then some .absent
  else if s.startsWith "L[" then
    let inner := ((s.drop 2).toString.dropEnd 1).toString
    if inner == "" then some (.list []) else ((inner.splitOn ",").mapM parseSc).map .list
  else if s.startsWith "o" then (s.drop 1).toString.toNat?.map .other
  else (parseSc s).map .sc

def parseKw (s : String) : Option (Nat × Dflt) :=
  match s.splitOn "=" with
  | [k, v] => do
    let k ← k.toNat?
    let v ← parseDflt v
    pure (k, v)
  | _ => none

def parseArgs (s : String) : Option (List (Option Nat)) :=
  if s.startsWith "a:" then
    let body := (s.drop 2).toString
    if body == "" then some [] else (body.splitOn ",").mapM parseTok
  else s.toNat?.map (fun k => (List.range k).map some)

def parseParam (s : String) : Option SigParam :=
  match s.splitOn ":" with
  | [n, i, v, r, d] => do
    let n ← n.toNat?
    let d ← if d == "-" then some none else d.toNat?.map some
    pure ⟨n, i == "1", v == "1", r == "1", d⟩
  | _ => none

def parseTokKw (s : String) : Option (Nat × Nat) :=
  match s.splitOn "=" with
  | [k, v] => do
    let k ← k.toNat?
    let v ← v.toNat?
    pure (k, v)
  | _ => none

/-- `sep f k a P <param>* A <arg>* K <kw>*` -/
def handleSep (f k a : String) (rest : List String) : String :=
  let ps := (rest.drop 1).takeWhile (· != "A")
  let r2 := (rest.dropWhile (· != "A")).drop 1
  let as := r2.takeWhile (· != "K")
  let ks := (r2.dropWhile (· != "K")).drop 1
  match ps.mapM parseParam, as.mapM (·.toNat?), ks.mapM parseTokKw with
  | some ps, some as, some ks =>
    match separate ps as ks (f == "1") (k == "1") (a == "1") with
    | .error .unexpectedKw => "ERR:unexpectedKw"
    | .error .missingRequired => "ERR:missingRequired"
    | .error .tooManyArgs => "ERR:tooManyArgs"
    | .ok (ins, attrs) =>
      "ok | " ++ " ".intercalate (ins.map (fun x => match x with | some v => toString v | none => "None")) ++ " | " ++
        " ".intercalate (attrs.map (fun p => s!"{p.1}={p.2}"))
  | _, _, _ => "bad-op"

def parseCmd (s : String) : Option Cmd :=
  match s.splitOn ":" with
  | ["N", c, d, v] => do pure (.new (← c.toNat?) (← d.toNat?) (← v.toNat?))
  | ["I", i, n] => do pure (.getitem (← i.toNat?) (← n.toNat?))
  | ["C", i, n] => do pure (.contains (← i.toNat?) (← n.toNat?))
  | ["A", i, n] => do pure (.getattr (← i.toNat?) (← n.toNat?))
  | _ => none

def showKey : Option (Nat × Nat × Nat) → String
  | none => "-"
  | some k => s!"{k.1},{k.2.1},{k.2.2}"

def showResp : Resp → String
  | .inst i d v => s!"i{i}:{d}:{v}"
  | .op k => "s" ++ showKey k
  | .bool b => if b then "bT" else "bF"
  | .attributeError => "E"
  | .noSuchInstance => "X"

def parseEv (s : String) : Option Ev :=
  match s.splitOn ":" with
  | ["c", d, v] => do pure (.call (← d.toNat?) (← v.toNat?))
  | ["i"] => some .implicit
  | _ => none

def parseDeclared (s : String) : Option (Option (Nat × Nat)) :=
  if s == "-" then some none else
  match s.splitOn ":" with
  | [d, v] => do pure (some ((← d.toNat?), (← v.toNat?)))
  | _ => none

/-- `conv <declared> <opt> <current> <ev>*` -/
def handleConv (decl opt cur : String) (evs : List String) : String :=
  match parseDeclared decl, (if opt == "-" then some none else opt.toNat?.map some), cur.toNat?, evs.mapM parseEv with
  | some d, some o, some c, some es =>
    match convert d es with
    | .error .twoOpsets => "ERR:twoOpsets"
    | .error .noDefault => "ERR:noDefault"
    | .ok st =>
      "ok " ++ " ".intercalate ((exportImports st.imports o c).map (fun p => s!"{p.1}:{p.2}")) ++ " | " ++
        " ".intercalate (st.conflicts.map (fun p => s!"{p.1}:{p.2.1}:{p.2.2}"))
  | _, _, _, _ => "bad-op"

def handle (args : List String) : String :=
  match args with
  | "conv" :: decl :: opt :: cur :: evs => handleConv decl opt cur evs
  | "hist" :: cmds =>
    match cmds.mapM parseCmd with
    | some cs => " ".intercalate ((OV.C17.run schemas OState.empty cs).2.map showResp)
    | none => "bad-op"
  | "sep" :: f :: k :: a :: rest => handleSep f k a rest
  | "prep" :: toks =>
    match toks.mapM parseTok with
    | some xs => " ".intercalate ("R" :: (prepareInputs xs).map showOptNat)
    | none => "bad-op"
  | ["lookup", d, N, n] =>
    match d.toNat?, N.toNat?, n.toNat? with
    | some d, some N, some n =>
      match lookup schemas d N n with
      | none => "none"
      | some s => s!"{s.name} {s.since} {s.domain} dep={s.deprecated}"
    | _, _, _ => "bad-op"
  | ["resolve", d, N, n] =>
    match d.toNat?, N.toNat?, n.toNat? with
    | some d, some N, some n =>
      match resolve classes d N n with
      | none => "none"
      | some m => s!"{m.call.1} {m.call.2.1} {m.call.2.2}"
    | _, _, _ => "bad-op"
  | ["cell", d, N, n] =>
    match d.toNat?, N.toNat?, n.toNat? with
    | some d, some N, some n =>
      let l := lookup schemas d N n
      let r := resolve classes d N n
      let mir := match l, r with
        | some s, some m => toString (mirrors m s)
        | _, _ => "-"
      let stub := match r with
        | some m => toString m.stub
        | none => "-"
      s!"ok={cellOk (ungeneratedDomains.contains d) l r} mirrors={mir} stub={stub} agrees={agrees l r}"
    | _, _, _ => "bad-op"
  | "eager" :: d :: N :: n :: a :: kws =>
    match d.toNat?, N.toNat?, n.toNat?, parseArgs a, kws.mapM parseKw with
    | some d, some N, some n, some xs, some kw =>
      match resolve classes d N n with
      | none => "ERR:nomethod"
      | some m =>
        match eagerCall m xs kw with
        | none => "ERR"
        | some node =>
          s!"{node.key.1} {node.key.2.1} {node.key.2.2} | " ++ " ".intercalate (node.inputs.map showOptNat)
            ++ " | " ++ " ".intercalate (node.attrs.map (fun p => s!"{p.1}={showDflt p.2}"))
    | _, _, _, _, _ => "bad-op"
  | "emodel" :: d :: N :: n :: a :: kws =>
    match d.toNat?, N.toNat?, n.toNat?, parseArgs a, kws.mapM parseKw with
    | some d, some N, some n, some xs, some kw =>
      match resolve classes d N n with
      | none => "ERR:nomethod"
      | some m =>
        match eagerRun schemas irMap m xs kw with
        | none => "ERR"
        | some M =>
          s!"{M.opType} {M.domain} | " ++ " ".intercalate (M.inputNames.map (fun x => match x with | some i => toString i | none => "-"))
            ++ " | " ++ " ".intercalate (M.attrs.map (fun p => s!"{p.1}={showDflt p.2}"))
            ++ s!" | {M.opsetImport.1}:{M.opsetImport.2} | {M.irVersion} | "
            ++ " ".intercalate (M.feeds.map (fun p => s!"{p.1}={p.2}"))
    | _, _, _, _, _ => "bad-op"
  | _ => "bad-op"

end OV.Drivers.C17

def main : IO Unit := OV.Drivers.run OV.Drivers.C17.handle
