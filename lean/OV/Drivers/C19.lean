import OV.Model.C19Fusions
import OV.Model.C19Core
import OV.Drivers.Loop
/-! Line-protocol driver for C19.  `C19 <family> key=value …` → the model's decision line
(`count=… Op@domain{attrs}(inputs)->nout`).  Dims: `3` | `sN` | `?`; shapes `2,sB,?` | `-` (rank 0) |
`none` (unknown shape) | `absent`; floats are IEEE binary64 bit patterns in decimal. -/
namespace OV.Drivers.C19
open OV.C19

def kv (args : List String) (key : String) : String :=
  match args.find? (fun a => a.startsWith (key ++ "=")) with
  | some a => (a.drop (key.length + 1)).toString
  | none => "absent"

def pBool (s : String) : Bool := s == "1"
def pNat (s : String) : Nat := s.toNat?.getD 0
def pInt (s : String) : Int := s.toInt?.getD 0
def pOptInt (s : String) : Option Int := if s == "none" || s == "absent" then none else s.toInt?
def pFloat (s : String) : Float := Float.ofBits (UInt64.ofNat (s.toNat?.getD 0))
def pOptFloat (s : String) : Option Float := if s == "none" || s == "absent" then none else some (pFloat s)
def pInts (s : String) : List Int :=
  if s == "" || s == "-" || s == "none" || s == "absent" then [] else (s.splitOn ",").filterMap (fun t => t.toInt?)
def pOptInts (s : String) : Option (List Int) :=
  if s == "dyn" || s == "none" || s == "absent" then none else some (pInts s)

def pDim (t : String) : Dim :=
  if t == "?" then .unk
  else if t.startsWith "s" then .sym (t.drop 1).toString
  else .int (t.toNat?.getD 0)

/-- `none` = key absent; `some none` = shape unknown. -/
def pShape (s : String) : Option (Option Shape) :=
  if s == "absent" then none
  else if s == "none" then some none
  else if s == "-" then some (some [])
  else some (some ((s.splitOn ",").map pDim))

def pShapeD (s : String) : Option Shape := (pShape s).getD none

def pScaling (s : String) : Option Scaling :=
  match s.splitOn ":" with
  | [op, c, _r, v] => some ⟨op, c == "1", pFloat v⟩
  | _ => none

def pFAttrs (s : String) : Option FAttrs :=
  match s.splitOn "," with
  | [a, b, ba, bb, al] => some ⟨pOptInt a, pOptInt b, pOptInt ba, pOptInt bb, pOptFloat al⟩
  | _ => none

def handle1 (args : List String) : String :=
  match args with
  | [] => "ERR:empty"
  | fam :: rest =>
    let g := kv rest
    match fam with
    | "rms" =>
      rms { xdt := pNat (g "xdt"), sdt := pNat (g "sdt"), castIn := pBool (g "cast_in"), cdt := pNat (g "cdt"),
            castOut := pBool (g "cast_out"), tdt := pNat (g "tdt"), scaleCast := pBool (g "scale_cast"),
            mulOrder := pBool (g "mul_order"), innerSwap := pBool (g "inner_swap"), epsConst := pBool (g "eps_const"),
            epsSize := pNat (g "eps_size"), eps := pFloat (g "eps"), axes := pInts (g "axes"), pow := pFloat (g "pow"),
            powRank := pNat (g "pow_rank"), keepdims := pOptInt (g "keepdims"), noop := pOptInt (g "noop"),
            xRank := pNat (g "xrank"), scaleRank := pNat (g "srank"), epsRank := pNat (g "epsrank") }
    | "skip" =>
      let leaf (n : String) : E := .leaf n (pShapeD (g n))
      let hb := g "has_bias"
      let bf := pBool (g "bias_first")
      let a : E := if hb == "pre" then
          (if bf then .add (pShapeD (g "pre")) (leaf "bias") (leaf "input") else .add (pShapeD (g "pre")) (leaf "input") (leaf "bias"))
        else leaf "input"
      let s : E := if g "add_order" == "skip_in" then .add (pShapeD (g "sum")) (leaf "skip") a
                   else .add (pShapeD (g "sum")) a (leaf "skip")
      let t : E := if hb == "post" then
          (if bf then .add (pShapeD (g "post")) (leaf "bias") s else .add (pShapeD (g "post")) s (leaf "bias"))
        else s
      skip { layer := g "kind" == "layer", top := t, gamma := pShapeD (g "gamma"), beta := pShape (g "beta"),
             stash := pOptInt (g "stash"), eps := pOptFloat (g "eps"), axis := pOptInt (g "axis") }
    | "gelu" =>
      gelu (g "form") ((pInts (g "sw")).map Int.toNat) (((g "consts").splitOn ",").map pFloat) (pInt (g "rank1"))
    | "biasgelu" => biasGelu (g "approx" == "qtanh") (pShapeD (g "a")) (pShapeD (g "b"))
    | "softmax" => softmax (pNat (g "dt")) (pNat (g "up")) (pNat (g "down")) (pOptInt (g "axis"))
    | "fmm" =>
      fmm { kind := g "kind", rank := pNat (g "rank"),
            xRank := (if g "xrank" == "absent" then pNat (g "rank") else pNat (g "xrank")),
            yRank := (if g "yrank" == "absent" then pNat (g "rank") else pNat (g "yrank")), inner := pFAttrs (g "inner"),
            perm := pOptInts (g "perm"), cstConst := pBool (g "cst_const"),
            cstShape := (pInts (g "cst_shape")).map Int.toNat, cst := pFloat (g "cst") }
    | "rope" =>
      rope { x := pShapeD (g "x"), xe := pShapeD (g "xe"), sl := pInts (g "sl"), partialRot := pBool (g "partial"),
             pEnd1 := pInt (g "p_end1"), pStart2 := pInt (g "p_start2"), posRank := pNat (g "pos_rank"), inv0 := pNat (g "inv0"), cast16 := pBool (g "cast16"), posConst := pBool (g "pos_const"),
             odd := pBool (g "odd") }
    | "sdpa" =>
      sdpa { q := pShapeD (g "q"), k := pShapeD (g "k"), v := pShapeD (g "v"), kpat := pNat (g "kpat"),
             permOk := pBool (g "perm_ok"), mask := pBool (g "mask"), qs := pScaling (g "q_sc"),
             ks := pScaling (g "k_sc"), qks := pScaling (g "qk_sc") }
    | "mha" =>
      mha { past := pBool (g "past"), cross := pBool (g "cross"), keyT := pBool (g "key_t"), qPermOk := pBool (g "q_perm_ok"), rotary := pBool (g "rotary"), rotIl := pInt (g "rot_il"),
            scale := pOptFloat (g "scale"), query := pShapeD (g "query"), key := pShapeD (g "key"),
            value := pShapeD (g "value"), q4 := pShapeD (g "q4"), pastKey := pShapeD (g "past_key"),
            pastValue := pShapeD (g "past_value"), mask := pShape (g "mask") }
    | "i2g" =>
      i2g { x := (pShapeD (g "x")).getD [], g := pNat (g "g"), wnConst := pBool (g "wn_const"),
            wOnes := pBool (g "w_ones"), bZeros := pBool (g "b_zeros"), wf := (pShapeD (g "wf")).getD [],
            bf := (pShapeD (g "bf")).getD [], adj := pOptInts (g "adj"), orig := pOptInts (g "orig"),
            eps := pFloat (g "eps") }
    | "attn" =>
      attn { noSlice := pBool (g "no_slice"), past := pBool (g "past"), heads := pNat (g "heads"),
             sl := pInts (g "sl"), scale := pOptFloat (g "scale"), input := pShapeD (g "input"),
             weight := pShapeD (g "weight"), projected := pShapeD (g "projected"), qS := pShapeD (g "q_s"),
             kS := pShapeD (g "k_s"), vS := pShapeD (g "v_s"), wq := pShapeD (g "wq"), wk := pShapeD (g "wk"),
             wv := pShapeD (g "wv") }
    | "gqa" =>
      gqa { query := pShapeD (g "query"), key := pShapeD (g "key"), value := pShapeD (g "value"),
            pastKey := pShapeD (g "past_key"), pastValue := pShapeD (g "past_value"), q4 := pShapeD (g "q4"),
            k4 := pShapeD (g "k4"), ilq := pInt (g "ilq"), ilk := pInt (g "ilk"), maskOk := pBool (g "mask_ok") }
    | "pqkv" =>
      pqkv { packed := pShapeD (g "packed"), qS := pShapeD (g "q_s"), kS := pShapeD (g "k_s"), vS := pShapeD (g "v_s"),
             h := pNat (g "h"), hkv := pNat (g "hkv"), il := pInt (g "il"), sl := pInts (g "sl"),
             axisOk := pBool (g "axis_ok") }
    | "mhab" =>
      mhab { qm := pShapeD (g "qm"), km := pShapeD (g "km"), vm := pShapeD (g "vm"), qbias := pShapeD (g "qbias"), qmul := pShapeD (g "qmul"),
             dt := pNat (g "dt"), qb := pBool (g "qb"), kb := pBool (g "kb"), vb := pBool (g "vb"),
             biasFirst := pBool (g "bias_first"), heads := pNat (g "heads"), pre := pOptFloat (g "pre"),
             preConst := pBool (g "pre_const"), ascale := pOptFloat (g "ascale"), mask := pBool (g "mask"),
             bias0 := pBool (g "bias0") }
    | "pipe" =>
      pipe { qm := pShapeD (g "qm"), heads := pNat (g "heads"), qProj := g "q_proj", kb := pBool (g "kb"),
             vb := pBool (g "vb"), s := pFloat (g "s"), sdpaScale := pOptFloat (g "sdpa_scale"), mask := pBool (g "mask"), mask1d := pBool (g "mask1d") }
    | "shapeopt" =>
      shapeopt { nSliceInputs := pNat (g "n_in"), start := pInt (g "start"), stop := pInt (g "end"),
                 startConst := pBool (g "start_const"), allowzero := pOptInt (g "allowzero"), perm := pInts (g "perm"),
                 shapeStart := pOptInt (g "shape_start"), shapeEnd := pOptInt (g "shape_end"),
                 dimsKnown := pBool (g "dims_known") }
    | "coretable" =>
      -- what the model assumes about `_core.py` (compared row by row with harness/c19_extract.py's reading)
      let rows (l : List (String × String × String)) := "¶".intercalate (l.map fun r => s!"{r.1}§{r.2.1}§{r.2.2}")
      let lists (l : List (List String)) := "¶".intercalate (l.map fun r => "§".intercalate r)
      match g "which" with
      | "fuseXformersSteps" => rows xformersOrder
      | "preOptimizeSteps" => rows preOptimizeOrder
      | "optimizeForOrtSteps" => rows optimizeForOrtOrder
      | "ortPatternRules" => "¶".intercalate ortRuleOrder
      | "sdpaDefaultScaleTest" => lists sdpaIscloseKw
      | "softmaxRuleOrder" => lists softmaxOrder
      | "stageKeys" => ",".intercalate (stageKeys xformersOrder)
      | _ => "ERR:which"
    | _ => "ERR:family"

/-- `second <family> k=v…`: predicted counts of a SECOND application of the family's fuse entry point on its own
output (`*` = not tied); everything else: the family's decision line. -/
def handle (args : List String) : String :=
  match args with
  | "second" :: rest =>
    match rest with
    | "pipe" :: kvs =>
      let g2 := kv kvs
      pipeSecond { qm := pShapeD (g2 "qm"), heads := pNat (g2 "heads"), qProj := g2 "q_proj", kb := pBool (g2 "kb"),
                   vb := pBool (g2 "vb"), s := pFloat (g2 "s"), sdpaScale := pOptFloat (g2 "sdpa_scale"),
                   mask := pBool (g2 "mask"), mask1d := pBool (g2 "mask1d") }
    | "rope" :: _ => ropeSecondLine (handle1 rest)
    | _ => zerosLike (handle1 rest)
  | _ => handle1 args

end OV.Drivers.C19

def main : IO Unit := OV.Drivers.run OV.Drivers.C19.handle
