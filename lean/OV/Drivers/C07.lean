import OV.Model.C07Apply
import OV.Drivers.Loop
/-! Line-protocol driver for C07.

  `C07 <apply|rewrite|applyc|rewritec> <fuel> M <model> R <nRules> <rule>*` (`…c`: `commute=True`)  →  `OK <count> <model>` | `ERR <kind>`
  `C07 wf M <model>` → `1`/`0` (one-level `wfGraph` of the main graph, all bodies, all functions, and `caps` adequate)

  model  := <nOps> (dom ver)* <graph> <nFuncs> (<dom> <name> <overload> <nOps> (dom ver)* <graph>)*
  graph  := G <nIn> name* <nInit> (name tok)* <nNodes> node* <nOut> name*
  node   := N <id> <op> <dom> <overload> <nIn> (name|_)* <nOut> name* <nAttr> (k v)* <nMeta> (k v)* <nSub> (key graph)*
  rule   := <name> <remove> <asfn> <guard> <nPN> (op dom <nIn> pref* <nOut> <nAttr> (k v)*)* <root> <nOut> pref*
            <nInit> (name tok)* <unique> <nTN> (op dom <ver|-> <nIn> tref* <nOut> <nAttr> (k v)*)* <nOut> tref*
  pref   := v<k> | n<i>.<j> | _          tref := v<k> | n<i>.<j> | i<k> | _
  strings: `~` = empty, `^` = space. -/
namespace OV.Drivers.C07
open OV.C07

abbrev P := StateT (List String) Option

def tok : P String := fun s => match s with | [] => none | t :: r => some (t, r)
def dec (s : String) : String := if s == "~" then "" else s.replace "^" " "
def enc (s : String) : String := if s == "" then "~" else s.replace " " "^"
def str : P String := dec <$> tok
def nat : P Nat := do let t ← tok; match t.toNat? with | some n => pure n | none => failure
def bool : P Bool := do let n ← nat; pure (n != 0)
def expect (t : String) : P Unit := do let x ← tok; if x == t then pure () else failure

def many {α} (p : P α) : Nat → P (List α)
  | 0 => pure []
  | n + 1 => do let a ← p; let r ← many p n; pure (a :: r)
def counted {α} (p : P α) : P (List α) := do let n ← nat; many p n
def pair : P (String × String) := do let a ← str; let b ← str; pure (a, b)
def optName : P (Option String) := do let t ← tok; pure (if t == "_" then none else some (dec t))
def opsets : P (List (String × Nat)) := counted (do let d ← str; let v ← nat; pure (d, v))

mutual
def pGraph : Nat → P Graph
  | 0 => failure
  | d + 1 => do
    expect "G"
    let ins ← counted str
    let inits ← counted pair
    let n ← nat
    let nodes ← pNodes d n
    let outs ← counted str
    pure (.mk ins inits nodes outs)
def pNodes : Nat → Nat → P (List Node)
  | 0, _ => failure
  | _ + 1, 0 => pure []
  | d + 1, k + 1 => do
    expect "N"
    let id ← nat; let op ← str; let dom ← str; let ov ← str
    let ins ← counted optName
    let outs ← counted str
    let attrs ← counted pair
    let mp ← counted pair
    let ns ← nat
    let subs ← pSubs d ns
    let rest ← pNodes d k
    pure (Node.mk id op dom ov ins outs attrs mp (capsOf BIG subs) subs :: rest)
def pSubs : Nat → Nat → P (List (String × Graph))
  | 0, _ => failure
  | _ + 1, 0 => pure []
  | d + 1, k + 1 => do
    let key ← str
    let g ← pGraph d
    let rest ← pSubs d k
    pure ((key, g) :: rest)
end

def pFunc : P Func := do
  let d ← str; let n ← str; let o ← str
  let ops ← opsets
  let g ← pGraph 100000
  pure { domain := d, name := n, overload := o, opsets := ops, body := g }

def pModel : P Model := do
  expect "M"
  let ops ← opsets
  let g ← pGraph 100000
  let fs ← counted pFunc
  pure { opsets := ops, graph := g, funcs := fs }

def pRef (allowInit : Bool) : P (Option (Sum PRef Nat)) := do
  let t ← tok
  if t == "_" then pure (some (.inl .none))
  else if t.startsWith "v" then pure ((t.drop 1).toString.toNat?.map fun k => .inl (.var k))
  else if t.startsWith "i" && allowInit then pure ((t.drop 1).toString.toNat?.map fun k => .inr k)
  else if t.startsWith "n" then
    match (t.drop 1).toString.splitOn "." with
    | [a, b] => pure (do let a ← a.toNat?; let b ← b.toNat?; pure (.inl (.out a b)))
    | _ => pure none
  else pure none

def pPRef : P PRef := do
  match ← pRef false with
  | some (.inl r) => pure r
  | _ => failure
def pTRef : P TRef := do
  match ← pRef true with
  | some (.inl (.var k)) => pure (.var k)
  | some (.inl (.out a b)) => pure (.out a b)
  | some (.inl .none) => pure .none
  | some (.inr k) => pure (.init k)
  | none => failure

def pPNode : P PNode := do
  let op ← str; let dom ← str
  let ins ← counted pPRef
  let no ← nat
  let at_ ← counted pair
  pure { op := op, domain := dom, inputs := ins, nOut := no, attrs := at_ }

def pTNode : P TNode := do
  let op ← str; let dom ← str
  let v ← tok
  let ins ← counted pTRef
  let no ← nat
  let at_ ← counted pair
  pure { op := op, domain := dom, version := v.toNat?, inputs := ins, nOut := no, attrs := at_ }

def pRule : P Rule := do
  let name ← str; let rm ← bool; let asf ← bool; let guard ← bool
  let pns ← counted pPNode
  let root ← nat
  let pouts ← counted pPRef
  let inits ← counted pair
  let uniq ← bool
  let tns ← counted pTNode
  let touts ← counted pTRef
  pure { name := name, removeNodes := rm, asFunction := asf, guardTag := guard,
         pat := { nodes := pns, root := root, outputs := pouts },
         repl := { inits := inits, uniqueInits := uniq, nodes := tns, outputs := touts } }

/-! printing -/

def sOpsets (l : List (String × Nat)) : List String :=
  toString l.length :: l.flatMap fun (d, v) => [enc d, toString v]

def sPairs (l : List (String × String)) : List String :=
  toString l.length :: l.flatMap fun (a, b) => [enc a, enc b]

mutual
def sGraph : Nat → Graph → List String
  | 0, _ => ["?"]
  | d + 1, g =>
    ["G", toString g.inputs.length] ++ g.inputs.map enc ++ sPairs g.inits ++
    [toString g.nodes.length] ++ sNodes d g.nodes ++ [toString g.outputs.length] ++ g.outputs.map enc
def sNodes : Nat → List Node → List String
  | 0, _ => ["?"]
  | _ + 1, [] => []
  | d + 1, n :: rest =>
    ["N", toString n.id, enc n.op, enc n.domain, enc n.overload, toString n.inputs.length] ++
    n.inputs.map (fun x => match x with | some v => enc v | none => "_") ++
    [toString n.outputs.length] ++ n.outputs.map enc ++ sPairs n.attrs ++ sPairs n.mprops ++
    [toString n.subs.length] ++ sSubs d n.subs ++ sNodes d rest
def sSubs : Nat → List (String × Graph) → List String
  | 0, _ => ["?"]
  | _ + 1, [] => []
  | d + 1, (k, g) :: rest => [enc k] ++ sGraph d g ++ sSubs d rest
end

def sModel (m : Model) : List String :=
  ["M"] ++ sOpsets m.opsets ++ sGraph 100000 m.graph ++ [toString m.funcs.length] ++
  m.funcs.flatMap fun f => [enc f.domain, enc f.name, enc f.overload] ++ sOpsets f.opsets ++ sGraph 100000 f.body

def sErr : Err → String
  | .opsetClash => "opsetClash"
  | .outputArity => "outputArity"
  | .asFunction => "asFunction"
  | .unsafeRemove => "unsafeRemove"
  | .fuel => "fuel"
  | .unmodelled w => "unmodelled:" ++ enc w

/-! one-level well-formedness of everything, and adequacy of `caps` -/
mutual
def wfDeepNodes : Nat → List Name → List Node → Bool
  | 0, _, _ => false
  | _ + 1, _, [] => true
  | d + 1, avail, n :: rest =>
    n.subs.all (fun s => wfDeepGraph d avail s.2) && wfDeepNodes d (avail ++ n.outputs) rest
def wfDeepGraph : Nat → List Name → Graph → Bool
  | 0, _, _ => false
  | d + 1, outer, g =>
    wfGraph outer g && wfDeepNodes d (outer ++ g.inputs ++ g.initNames) g.nodes
end

def handle (args : List String) : String :=
  match args with
  | "wf" :: rest =>
    match (pModel.run rest) with
    | some (m, _) =>
      if wfDeepGraph 100000 [] m.graph && m.funcs.all (fun f => wfDeepGraph 100000 [] f.body) then "1" else "0"
    | none => "ERR parse"
  | mode :: fuelS :: rest =>
    match fuelS.toNat?, ((do let m ← pModel; expect "R"; let rs ← counted pRule; pure (m, rs)) : P _).run rest with
    | some fuel, some ((m, rs), []) =>
      -- `applyc` / `rewritec`: the rule set is built with `commute=True`
      let rs := if mode == "applyc" || mode == "rewritec" then rs.flatMap commuteRule else rs
      let res := if mode == "rewrite" || mode == "rewritec" then rewriteModel rs fuel m else applyToModel rs fuel m
      match res with
      | .ok (c, m') => " ".intercalate (["OK", toString c] ++ sModel m')
      | .error e => "ERR " ++ sErr e
    | _, _ => "ERR parse"
  | _ => "ERR parse"

end OV.Drivers.C07

def main : IO Unit := OV.Drivers.run OV.Drivers.C07.handle
