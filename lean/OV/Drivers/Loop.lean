/-! Shared line-protocol loop: one request per line (space-separated tokens), one canonical line out. -/
namespace OV.Drivers

def tokens (line : String) : List String :=
  (line.trimAscii.toString.splitOn " ").filter (· ≠ "")

partial def loopAux (hin hout : IO.FS.Stream) (handle : List String → String) : IO Unit := do
  let line ← hin.getLine
  if line.isEmpty then return ()
  hout.putStrLn (handle (tokens line))
  loopAux hin hout handle

/-- Run `handle` on every stdin line (first token, the property id, is dropped). -/
def run (handle : List String → String) : IO Unit := do
  let hin ← IO.getStdin
  let hout ← IO.getStdout
  loopAux hin hout (fun ts => handle (ts.drop 1))
  hout.flush

end OV.Drivers
