import OV.Model.C13Export
import OV.Model.C13Roundtrip
import OV.Model.C13Types
import OV.Model.C13Values
import OV.Drivers.Loop
/-! Line-protocol driver for C13.  Every string is sent hex-encoded with an `x` prefix (`x` = "").

    `C13 cleanup <s>`            → `x<hex of cleanup s>` (`ERR:AssertionError` for "")
    `C13 ident <s>`              → `1`/`0`  (isPyIdent ∧ not a keyword)
    `C13 table <r><u><i><s> <name>*`   → renamed names (`renameTable`), `,`-joined
    `C13 export <r><u><i><s> <depth> M <gname> <fname|-> <nops> (<dom> <ver>)* GRAPH`
    `C13 export <opts> <depth> F <name> <domain> <nin> in* <nout> out* <nattr> a* <nused> u* <nops> (<dom> <ver>)* <nnodes> NODE*`
      GRAPH := <nin> in* <nout> out* <ninit> (<name> <size> <dtype> <rank> dim* <finite> <lit>)* <nsparse> <nnodes> NODE*
      NODE  := <op> <domain> <name> <nin> in* <nout> out* <nattr> ATTR*
      ATTR  := <name> P | <name> T <dtype> <rank> dim* <finite> <lit> | <name> R <ref> | <name> G GRAPH | <name> U
    → program lines joined by ` ; `, or `ERR:<python exception class>`
    `C13 litconst <rank> dim* <n> val*` → hex text `_get_const_repr` prints for the INT64 tensor | `none`
    `C13 litparse <s>`           → `S <i>` | `L <n> <i>*` | `none` (reading of an inlined literal) -/
namespace OV.Drivers.C13
open OV.C13

def hexVal (c : Char) : Option Nat :=
  if '0' ≤ c ∧ c ≤ '9' then some (c.toNat - '0'.toNat)
  else if 'a' ≤ c ∧ c ≤ 'f' then some (c.toNat - 'a'.toNat + 10)
  else none

def unhexL : List Char → Option (List Char)
  | [] => some []
  | a :: b :: rest => do
    let h ← hexVal a; let l ← hexVal b
    let r ← unhexL rest
    pure (Char.ofNat (h * 16 + l) :: r)
  | _ => none

def unhex (s : String) : Option String :=
  match s.toList with
  | 'x' :: rest => (unhexL rest).map String.ofList
  | _ => none

def hexDigit (n : Nat) : Char := if n < 10 then Char.ofNat (n + 48) else Char.ofNat (n - 10 + 97)
def hex (s : String) : String :=
  String.ofList ('x' :: s.toList.flatMap (fun c => [hexDigit (c.toNat / 16 % 16), hexDigit (c.toNat % 16)]))

abbrev P (α : Type) := List String → Option (α × List String)

def pStr : P String
  | t :: ts => (unhex t).map (·, ts)
  | [] => none
def pNat : P Nat
  | t :: ts => t.toNat?.map (·, ts)
  | [] => none

def pRepeat {α} (p : P α) : Nat → P (List α)
  | 0, ts => some ([], ts)
  | n + 1, ts => do
    let (a, ts) ← p ts
    let (as, ts) ← pRepeat p n ts
    pure (a :: as, ts)

def pList {α} (p : P α) : P (List α) := fun ts => do
  let (n, ts) ← pNat ts
  pRepeat p n ts

def pInit : P (String × Nat × Nat × List Nat × Bool × String) := fun ts => do
  let (name, ts) ← pStr ts
  let (size, ts) ← pNat ts
  let (dtype, ts) ← pNat ts
  let (dims, ts) ← pList pNat ts
  let (fin, ts) ← pNat ts
  let (lit, ts) ← pStr ts
  pure ((name, size, dtype, dims, fin != 0, lit), ts)

mutual
def pGraph : Nat → P Graph
  | 0, _ => none
  | f + 1, ts => do
    let (ins, ts) ← pList pStr ts
    let (outs, ts) ← pList pStr ts
    let (inits, ts) ← pList pInit ts
    let (ns, ts) ← pNat ts
    let (nodes, ts) ← pList (pNode f) ts
    pure (.mk ins outs inits ns nodes, ts)
def pNode : Nat → P Node
  | 0, _ => none
  | f + 1, ts => do
    let (op, ts) ← pStr ts
    let (dom, ts) ← pStr ts
    let (name, ts) ← pStr ts
    let (ins, ts) ← pList pStr ts
    let (outs, ts) ← pList pStr ts
    let (attrs, ts) ← pList (pAttr f) ts
    pure (.mk op dom name ins outs attrs, ts)
def pAttr : Nat → P (String × Attr)
  | 0, _ => none
  | f + 1, ts => do
    let (name, ts) ← pStr ts
    match ts with
    | "P" :: ts => pure ((name, .plain), ts)
    | "U" :: ts => pure ((name, .unsupported), ts)
    | "R" :: ts => do
      let (r, ts) ← pStr ts
      pure ((name, .ref r), ts)
    | "T" :: ts => do
      let (dtype, ts) ← pNat ts
      let (dims, ts) ← pList pNat ts
      let (fin, ts) ← pNat ts
      let (lit, ts) ← pStr ts
      pure ((name, .tensor dtype dims (fin != 0) lit), ts)
    | "G" :: ts => do
      let (g, ts) ← pGraph f ts
      pure ((name, .graph g), ts)
    | _ => none
end

def pOpset : P (String × Nat) := fun ts => do
  let (d, ts) ← pStr ts
  let (v, ts) ← pNat ts
  pure ((d, v), ts)

def parseOpts (s : String) : Option Opts :=
  match s.toList with
  | [r, u, i, k] => some ⟨r == '1', u == '1', i == '1', k == '1'⟩
  | _ => none

def showRes (r : Except Err (List String)) : String :=
  match r with
  | .ok ls => " ; ".intercalate ls
  | .error e => "ERR:" ++ e.pyClass

def handleExport (o : Opts) (depth : Nat) (ts0 : List String) : Option String := do
  -- `<ntys> <type name>*` first: the type names the header imports (reserved names)
  let (tys, ts) ← pList pStr ts0
  match ts with
  | "M" :: ts => do
    let (gname, ts) ← pStr ts
    let (fname, ts) ← (match ts with
      | "-" :: ts => some (none, ts)
      | _ => (pStr ts).map (fun p => (some p.1, p.2)))
    let (ops, ts) ← pList pOpset ts
    let (g, _) ← pGraph 64 ts
    pure (showRes (exportModelT tys o depth ⟨gname, fname, ops, g⟩))
  | "MF" :: ts => do
    -- a model with model-local functions: `MF <gname> <fname|-> <nops> ops GRAPH <nfunc> (FUNC)*`
    let (gname, ts) ← pStr ts
    let (fname, ts) ← (match ts with
      | "-" :: ts => some (none, ts)
      | _ => (pStr ts).map (fun p => (some p.1, p.2)))
    let (ops, ts) ← pList pOpset ts
    let (g, ts) ← pGraph 64 ts
    let pFunc : P FunctionP := fun ts => do
      let (name, ts) ← pStr ts
      let (dom, ts) ← pStr ts
      let (ins, ts) ← pList pStr ts
      let (outs, ts) ← pList pStr ts
      let (attrs, ts) ← pList pStr ts
      let (used, ts) ← pList pStr ts
      let (ops, ts) ← pList pOpset ts
      let (nodes, ts) ← pList (pNode 64) ts
      pure (⟨name, dom, ins, outs, attrs, used, ops, nodes⟩, ts)
    let (fs, _) ← pList pFunc ts
    pure (showRes (exportModelF tys o depth fs ⟨gname, fname, ops, g⟩))
  | "F" :: ts => do
    let (name, ts) ← pStr ts
    let (dom, ts) ← pStr ts
    let (ins, ts) ← pList pStr ts
    let (outs, ts) ← pList pStr ts
    let (attrs, ts) ← pList pStr ts
    let (used, ts) ← pList pStr ts
    let (ops, ts) ← pList pOpset ts
    let (nodes, _) ← pList (pNode 64) ts
    pure (showRes (exportFunction o depth ⟨name, dom, ins, outs, attrs, used, ops, nodes⟩))
  | _ => none

/-- `straight <opts> <depth> M …`: is the model in the fragment of `export_roundtrip_partial`, and if so the
    node list the converter is predicted to read back (`progToGraph (exportStraight …)`). -/
def handleStraight (o : Opts) (ts0 : List String) : Option String := do
  let (tys, ts) ← pList pStr ts0
  match ts with
  | "M" :: ts => do
    let (gname, ts) ← pStr ts
    let (fname, ts) ← (match ts with
      | "-" :: ts => some (none, ts)
      | _ => (pStr ts).map (fun p => (some p.1, p.2)))
    let (ops, ts) ← pList pOpset ts
    let (g, _) ← pGraph 64 ts
    let m0 : ModelP := ⟨gname, fname, ops, g⟩
    -- initializers that are not skipped are leading Constant nodes (export_roundtrip_inits_partial)
    let m : ModelP := if noneSkipped o m0.graph then m0.unfoldInits else m0
    if straightModel tys o m then
      let g' := progToGraph (exportStraight tys o m)
      let showNode (n : Node) : String :=
        n.op ++ "|" ++ n.domain ++ "|" ++ comma n.ins ++ "|" ++ comma n.outs ++ "|" ++ comma (n.attrs.map (·.1))
      pure ("1 ; " ++ comma g'.inputs ++ " ; " ++ comma g'.outputs ++ " ; " ++ " ; ".intercalate (g'.nodes.map showNode))
    else pure "0"
  | _ => some "0"

/-- `type <dtype> <shape>`; shape: `-` (no shape field), `e` (rank 0) or `,`-joined dims `i<n>` | `s<hex name>` | `u`
    → `<annotation text> | <dtype> <shape after evaluating it and converting back>` -/
def handleType (dt : String) (sh : String) : String :=
  let parseDim (t : String) : Option OV.C13T.Dim :=
    if t == "u" then some .unk
    else if t.startsWith "i" then (t.drop 1).toString.toNat?.map .val
    else if t.startsWith "s" then (unhex ("x" ++ (t.drop 1).toString)).map .sym
    else none
  let shape : Option (Option (List OV.C13T.Dim)) :=
    if sh == "-" then some none
    else if sh == "e" then some (some [])
    else ((sh.splitOn ",").mapM parseDim).map some
  match dt.toNat?, shape with
  | some d, some s =>
    (match OV.C13T.toAnn ⟨d, s⟩ with
     | none => "ERR:noname"
     | some a =>
       OV.C13T.renderAnn a ++ " | " ++
         (match OV.C13T.evalAnn a with
          | some t => Nat.repr t.dtype ++ " " ++ OV.C13T.showShape t.shape
          | none => "ERR:noclass"))
  | _, _ => "bad-op"

def handle (args : List String) : String :=
  match args with
  | ["cleanup", s] =>
    (match unhex s with
     | some "" => "ERR:AssertionError"
     | some n => hex (cleanup n)
     | none => "bad-op")
  | ["ident", s] =>
    (match unhex s with
     | some n => if isPyIdentL n.toList && !(kwlist.contains n) then "1" else "0"
     | none => "bad-op")
  | "table" :: os :: names =>
    (match parseOpts os, names.mapM unhex with
     | some o, some ns => comma ((renameTable o ns).map (·.2))
     | _, _ => "bad-op")
  | "imports" :: fd :: rest =>
    -- `imports <fundomain|-> <n> (<dom> <ver>)*` : the opset import lines of `export()`
    (match (if fd == "-" then some none else (unhex fd).map some), pList pOpset rest with
     | some d, some (imps, _) => importsLine imps d
     | _, _ => "bad-op")
  | ["tables"] =>
    comma (opsTable.map (fun p => p.1 ++ ":" ++ p.2)) ++ " | " ++ comma (convTable.map (fun p => p.1 ++ ":" ++ p.2))
      ++ " | " ++ comma kwlist
  | ["type", dt, sh] => handleType dt sh
  | "litconst" :: rest =>
    -- `litconst <rank> dim* <n> val*` : `_get_const_repr` on an INT64 tensor → hex text | `none`
    (match pList pNat rest with
     | some (dims, ts) =>
       (match pList (fun ts => match ts with | t :: ts => t.toInt?.map (·, ts) | [] => none) ts with
        | some (vals, _) =>
          (match OV.C13V.constReprI64 dims vals with
           | some t => hex t
           | none => "none")
        | none => "bad-op")
     | none => "bad-op")
  | ["litparse", s] =>
    -- the reading of a literal text: `S <i>` | `L <n> <i>*` | `none`
    (match unhex s with
     | some t =>
       (match OV.C13V.parse t with
        | some (.scalar i) => "S " ++ Int.repr i
        | some (.list l) => "L " ++ " ".intercalate (Nat.repr l.length :: l.map Int.repr)
        | none => "none")
     | none => "bad-op")
  | "straight" :: os :: _ :: rest =>
    (match parseOpts os with
     | some o => (handleStraight o rest).getD "bad-op"
     | none => "bad-op")
  | "export" :: os :: depth :: rest =>
    (match parseOpts os, depth.toNat? with
     | some o, some d => (handleExport o d rest).getD "bad-op"
     | _, _ => "bad-op")
  | _ => "bad-op"

end OV.Drivers.C13

def main : IO Unit := OV.Drivers.run OV.Drivers.C13.handle
