import OV.Model.C18Builder
import OV.Model.C18NN
import OV.Model.C18Partition
import OV.Drivers.Loop
/-! Line-protocol driver for C18.

`C18 build <F|…>* <item>*` — run `OV.C18.build`, print every graph with resolved value names.
`C18 nn <op>*` — run a module-construction program (stack machine), print `realize`, `stateDict`,
`namedParams`.

Separators: fields `|`, lists `;`, call arguments `,`, literal sub-fields `:`, function-body nodes `~`
with fields `^`.  `@` stands for the empty string / `None`. -/
namespace OV.Drivers.C18
open OV.C18

def unAt (s : String) : String := if s = "@" then "" else s
def optAt (s : String) : Option String := if s = "@" then none else some s
def splitL (s : String) (sep : String) : List String := if s = "" then [] else s.splitOn sep
def names (s : String) : List String := (splitL s ";").map unAt
def nats (s : String) : Option (List Nat) := (splitL s ";").mapM (·.toNat?)
def ints (s : String) : Option (List Int) := (splitL s ";").mapM (·.toInt?)

def parseArg (s : String) : Option Arg :=
  if s = "n" then some .none
  else if s.startsWith "r" then (s.drop 1).toString.toNat?.map .ref
  else match s.splitOn ":" with
    | ["s", r, k, dt] => k.toInt?.map (fun k => .lit (.num r k dt))
    | ["l", vs, dt] => (ints vs).map (fun v => .lit (.ints v dt))
    | _ => none

def parseArgs (s : String) : Option (List Arg) := (splitL s ",").mapM parseArg

def parseOuts (s : String) : Option Outs :=
  if s.startsWith "a" then (s.drop 1).toString.toNat?.map .auto
  else if s.startsWith "e" then some (.named (names (s.drop 1).toString))
  else none

/-- `k=v` (first `=` splits). -/
def splitKV (s : String) : String × String :=
  match s.splitOn "=" with
  | [] => ("", "")
  | k :: rest => (k, "=".intercalate rest)

def parseAttrs (s : String) : List (String × AVal) := (splitL (unAt s) "&").map splitKV

/-- body-node attributes: `k=v` a value, `k=>p` a reference to the attribute parameter `p`. -/
def parseFAttrs (s : String) : List (String × FAttr) :=
  (splitL (unAt s) "&").map (fun t =>
    let kv := splitKV t
    if kv.2.startsWith ">" then (kv.1, FAttr.ref (kv.2.drop 1).toString) else (kv.1, FAttr.val kv.2))

/-- declared attribute parameters: `p=default` or `p` (required). -/
def parseAttrParams (s : String) : List (String × Option AVal) :=
  (splitL (unAt s) "&").map (fun t =>
    match t.splitOn "=" with
    | [k] => (k, none)
    | k :: rest => (k, some ("=".intercalate rest))
    | [] => ("", none))

def parseFNode (s : String) : Option FNode :=
  match s.splitOn "^" with
  | [n, d, o, i, os, atr] =>
    some ⟨unAt n, unAt d, o, (splitL i ";").map optAt, names os, parseFAttrs atr⟩
  | _ => none

def parseFn (fs : List String) : Option Fn :=
  match fs with
  | [n, d, ov, fo, os, ns, ap] => do
    let nodes ← (splitL ns "~").mapM parseFNode
    pure ⟨n, unAt d, unAt ov, names fo, nodes, names os, parseAttrParams ap⟩
  | _ => none

def parseItem (s : String) : Option Item :=
  match s.splitOn "|" with
  | ["I", n] => some (.input n)
  | ["O", t, a, o, nn, g, atr] => do
    let a ← parseArgs a; let o ← parseOuts o; let g ← nats g
    pure (.op (unAt t) a o (optAt nn) g (parseAttrs atr))
  | ["P", n] => some (.push (unAt n))
  | ["Q"] => some .pop
  | ["C", f, a, o, atr] => do
    let f ← f.toNat?; let a ← parseArgs a
    let o ← (if o = "@" then some none else (parseOuts o).map some)
    pure (.call f a o (parseAttrs atr))
  | ["L", f, a, o, p, atr] => do
    let f ← f.toNat?; let a ← parseArgs a
    let o ← (if o = "@" then some none
             else if o.startsWith "e" then some (some (names (o.drop 1).toString)) else none)
    pure (.inline f a o (unAt p) (parseAttrs atr))
  | ["B", g, i] => some (.beginSub g (names i))
  | ["E", r, d] => do
    let r ← nats r
    pure (.endSub r (names d))
  | ["X", h, n] => do
    let h ← h.toNat?
    pure (.output h (optAt n))
  | ["A"] => some .abortSub
  | _ => none

def showIn (st : St) : Option Nat → String
  | some id => nameOf st id
  | none => "~"

def showNode (st : St) (n : Node) : String :=
  "|".intercalate [n.name, n.domain, n.op ++ (if n.overload = "" then "" else ":" ++ n.overload), ",".intercalate (n.ins.map (showIn st)),
    ",".intercalate (n.outs.map (nameOf st)), ",".intercalate (n.graphs.map toString),
    "&".intercalate (n.attrs.map (fun e => e.1 ++ "=" ++ e.2))]

def showFrame (st : St) (f : Frame) : String :=
  f.gname ++ " in=" ++ ",".intercalate (f.inputs.map (nameOf st)) ++ " out="
    ++ ",".intercalate (f.outputs.map (nameOf st)) ++ " nodes="
    ++ "!".intercalate (f.nodes.map (showNode st))

def showSt (st : St) : String :=
  " ## ".intercalate (st.graphs.map (showFrame st))
    ++ " ## INIT " ++ ",".intercalate (st.inits.map (nameOf st))
    ++ " ## FUNCS " ++ ",".intercalate st.funcs
    ++ " ## OPEN " ++ toString st.stack.length
    ++ " ## ERR " ++ st.err.getD "-"

def handleBuild (toks : List String) : String :=
  let fts := toks.filter (·.startsWith "F|")
  let its := toks.filter (fun t => !(t.startsWith "F|"))
  match fts.mapM (fun t => parseFn ((t.splitOn "|").drop 1)), its.mapM parseItem with
  | some fns, some tr => showSt (build fns tr)
  | _, _ => "bad-op"

/-! ### nn stack machine -/

def path (s : String) : List String := if s = "@" then [] else s.splitOn "/"

structure NNSt where
  stack : List Mod
  nextPid : Nat
  bad : Bool

def popN (l : List Mod) (k : Nat) : Option (List Mod × List Mod) :=
  if k ≤ l.length then some ((l.take k).reverse, l.drop k) else none

def nnStep (s : NNSt) (tok : String) : NNSt :=
  let bad : NNSt := { s with bad := true }
  match tok.splitOn "|" with
  | ["M", n] => { s with stack := mkModule (optAt n) :: s.stack }
  | ["p", p, attr, pn] =>
    match s.stack with
    | top :: rest =>
      { s with stack := modifyAt (path p) (fun m => setParam m attr (optAt pn) s.nextPid) top :: rest,
               nextPid := s.nextPid + 1 }
    | _ => bad
  | ["c", p, attr] =>
    match s.stack with
    | child :: top :: rest =>
      { s with stack := modifyAt (path p) (fun m => setChild m attr child) top :: rest }
    | _ => bad
  | ["ML", k] =>
    match k.toNat?.bind (popN s.stack) with
    | some (cs, rest) => { s with stack := mkList cs :: rest }
    | none => bad
  | ["SQ", k] =>
    match k.toNat?.bind (popN s.stack) with
    | some (cs, rest) => { s with stack := mkSeq cs :: rest }
    | none => bad
  | ["ap", p] =>
    match s.stack with
    | child :: top :: rest =>
      { s with stack := modifyAt (path p) (fun m => append m child) top :: rest }
    | _ => bad
  | ["ex", p, k] =>
    match k.toNat?.bind (popN s.stack) with
    | some (cs, top :: rest) =>
      { s with stack := modifyAt (path p) (fun m => extend m cs) top :: rest }
    | _ => bad
  | ["sl", is] =>
    match s.stack, nats is with
    | top :: rest, some idxs => { s with stack := slice top idxs :: rest }
    | _, _ => bad
  | _ => bad

def showKP (l : List (String × Nat)) : String :=
  ",".intercalate (l.map (fun x => x.1 ++ "#" ++ toString x.2))

def handleNN (toks0 : List String) : String :=
  -- `CTL|<path>`: the module at that path (child keys from the root, `@` = the root) runs its children in a sub-builder
  let ctl := (toks0.filter (·.startsWith "CTL|")).map (fun t => path (t.drop 4).toString)
  let toks := toks0.filter (fun t => !(t.startsWith "CTL|"))
  let s := toks.foldl nnStep ⟨[], 0, false⟩
  match s.bad, s.stack with
  | false, [root] =>
    let r := realizeB SubPolicy.code ctl root
    "R " ++ showKP r ++ " | INIT " ++ ",".intercalate (initKeys r)
      ++ " | SD " ++ showKP (stateDict "" root)
      ++ " | NP " ++ showKP (namedParams "" root)
      ++ " | ROOTKEYS " ++ ",".intercalate ((dictKeys (stateDict "" root)).map (rootKey root))
      ++ " | CALLABLE " ++ (if callable root then "1" else "0")
  | _, _ => "bad-op"

/-! ### `part <sig> <args> <kwargs>`: sig = `name:isInput:variadic:required:hasDefault;…`, args `a;b`,
    kwargs `k=v&k=v`; `@` = empty. -/

def parseSig (s : String) : Option (List SigParam) :=
  (splitL (unAt s) ";").mapM (fun t =>
    match t.splitOn ":" with
    | [n, a, b, c, d] => some ⟨n, a = "1", b = "1", c = "1", d = "1"⟩
    | _ => none)

def handlePart (toks : List String) : String :=
  match toks with
  | [sg, a, kw] =>
    match parseSig sg with
    | none => "bad-op"
    | some sig =>
      match partition sig (splitL (unAt a) ";") (parseAttrs kw) with
      | .ok (ins, attrs) => "OK " ++ ";".intercalate ins ++ " | " ++ "&".intercalate (attrs.map (fun e => e.1 ++ "=" ++ e.2))
      | .error .extraKwargs => "ERR extra-kwargs"
      | .error (.missing n) => "ERR missing " ++ n
      | .error .tooMany => "ERR too-many"
  | _ => "bad-op"

def handle (args : List String) : String :=
  match args with
  | "part" :: rest => handlePart rest
  | "build" :: rest => handleBuild rest
  | "nn" :: rest => handleNN rest
  | _ => "bad-op"

end OV.Drivers.C18

def main : IO Unit := OV.Drivers.run OV.Drivers.C18.handle
