import OV.Model.C02Collect
import OV.Drivers.Loop
/-! Line-protocol driver for C02 (import tables and function collection; the converter itself is served by `drv_c01`).

`C02 env latest <n> ov <n|-> main [ node* ] funcs {f <name> <domain> <ver> [ node* ]}*`
  node: `o <dom> <ver> <callee|->` | `i <ver> [ node* ] [ node* ]` | `l <ver> [ node* ]`;  the empty domain is `~`.
answer: `main=<imports> model=<imports> functions=<i,j,…> f<i>=<imports> …` or `none`. -/
namespace OV.Drivers.C02
open OV.C02

def dom (s : String) : String := if s == "~" then "" else s
def showDom (s : String) : String := if s == "" then "~" else s

def parseList : Nat → List String → Option (List CNode × List String)
  | 0, _ => none
  | _ + 1, "]" :: rest => some ([], rest)
  | fuel + 1, "o" :: d :: v :: c :: rest => do
    let v ← v.toNat?
    let c ← if c == "-" then some none else c.toNat?.map some
    let (ns, rest) ← parseList fuel rest
    pure (.op (dom d) v c :: ns, rest)
  | fuel + 1, "i" :: v :: "[" :: rest => do
    let v ← v.toNat?
    let (tn, rest) ← parseList fuel rest
    match rest with
    | "[" :: rest =>
      let (en, rest) ← parseList fuel rest
      let (ns, rest) ← parseList fuel rest
      pure (.ifN v tn en :: ns, rest)
    | _ => none
  | fuel + 1, "l" :: v :: "[" :: rest => do
    let v ← v.toNat?
    let (bn, rest) ← parseList fuel rest
    let (ns, rest) ← parseList fuel rest
    pure (.loop v bn :: ns, rest)
  | _, _ => none

def parseFuncs : Nat → List String → Option (List CFunc)
  | 0, _ => none
  | _ + 1, [] => some []
  | fuel + 1, "f" :: name :: d :: v :: "[" :: rest => do
    let v ← v.toNat?
    let (ns, rest) ← parseList (rest.length + 1) rest
    let fs ← parseFuncs fuel rest
    pure ({ name := name, domain := dom d, version := v, nodes := ns } :: fs)
  | _, _ => none

def showImports (imp : Imports) : String :=
  ",".intercalate (imp.map (fun p => s!"{showDom p.1}:{p.2}"))

def handle : List String → String
  | "env" :: "latest" :: l :: "ov" :: ov :: "main" :: "[" :: rest =>
    match l.toNat?, (if ov == "-" then some none else ov.toNat?.map some), parseList (rest.length + 1) rest with
    | some latest, some ov, some (main, "funcs" :: rest) =>
      match parseFuncs (rest.length + 1) rest with
      | some w =>
        match toModel w main ov latest with
        | none => "none"
        | some m =>
          let fi := m.functions.map (fun i =>
            match w[i]? with
            | some f => s!"f{i}={showImports (graphImports [] f.nodes)}"
            | none => s!"f{i}=?")
          s!"main={showImports (graphImports [] main)} model={showImports m.imports} functions=" ++
            ",".intercalate (m.functions.map toString) ++ " " ++ " ".intercalate fi
      | none => "ERR:parse-funcs"
    | _, _, _ => "ERR:parse"
  | _ => "ERR:cmd"

end OV.Drivers.C02

def main : IO Unit := OV.Drivers.run OV.Drivers.C02.handle
