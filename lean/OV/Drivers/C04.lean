import OV.Drivers.C03Handle
/-! C04 shares the model and the line protocol of C03; the harness of C04 talks to `drv_c03`.
This root only exists so that the `drv_c04` target of lakefile.toml builds. -/
def main : IO Unit := OV.Drivers.run OV.Drivers.C03.handle
