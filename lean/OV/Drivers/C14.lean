import OV.Model.C14History
import OV.Gen.C14Stash
import OV.Gen.C14Globals
import OV.Drivers.Loop
/-! Line-protocol driver for C14.

* `C14 ctrl <sorted 0|1> <used csv|-> <nextvar> <iter csv|->`      → `live=<csv> names=<csv> next=<n>`
* `C14 uniq <used csv|-> <nextvar> <candidate>`                     → `<name> <nextvar'>`
* `C14 event <rule> <ok|fail> W=<csv> CR=<csv> R2=<csv>`            → `admit` | `reject:<why>` | `unknown`
* `C14 glob <prefix expr> <k=v;…|-> <k=v;…|-> <x>`                  → `consts=<csv> proto=<v|none> eager=<v|none>`
* `C14 builder <fixed 0|1> <g> <b> [<events>]`                      → `global=<g> seen=<csv> raised=<0|1>`
* `C14 intern <cls/dom/ver;…|-> <cls/dom/ver>`                      → `<dom> <ver>`
* `C14 fold <prevModified 0|1> <nodes f<id>:<v>,k<id>,u<k>|->`      → `modified=<0|1> nconst=<n>`
* `C14 kw <aliasing 0|1> <fn refs csv> <bases r:k=v;k=v|…|-> <calls fi:k=v;…/…|-> <target fi:k=v;…> <keys csv>`
                                                                     → `eff=<v|none,…> plain=<…> dicts=<r:k=v;…|…>`
* `C14 globr <expr> <k=v;k=@c;…|-> <cells c=v;…|-> <cells later c=v;…|->`  (the code as it is: constants are snapshotted)
                                                                     → `before=<csv> after=<csv> copy=<0|1>`
* `C14 imports <sorted 0|1> <existing dom=ver;…|-> <iter dom[=ver],… |->` → `<dom=ver;…>`  (`~` stands for the empty domain)
* `C14 header <graph imports dom=ver;…|-> <funcs dom:ver:std|…  (std `-` = none) |-> <opset_version|-> <ir_version|-> <latest> <opset=ir;…> <maxIr>`
                                                                     → `<dom=ver;…> ir=<n>`   (`~` = empty domain)
* `C14 fresh <model value names csv|-> <k>`                                → `<new names csv>`  (`apply_to_model` naming `k` new values)
* `C14 vcnames <model value names csv|-> <k>`                              → `<new names csv> namefix=<0|1>`  (ConvertVersionPass call)
* `C14 rowcover <rule> W=<csv> R2=<csv>`  (unions over all monitored try_rewrites of the run)  → `exact` | `slack:<why>` | `unknown`
* `C14 etrace <EntryClass> <events r:<field>,w:<field>,…|->`  (ONE monitored call of an entry method, completed or
  abandoned by an exception; first occurrence of each access in order)  → `conforms` | `reject:<why>` | `unknown`
* `C14 ecover <EntryClass> W=<csv>`  (union of the fields assigned over all monitored calls of the run) → `exact` | `slack:<csv>` | `unknown`
* `C14 evalgap <domain|~> <op> <opset version>`  (does the folder leave a constant-input node alone for want of an evaluator) → `left=<0|1>`
* `C14 castable <fn1 consts csv|-> <fn2 consts csv|-> <arg>`        → `castlike=<0|1> resets=<0|1>`
-/
namespace OV.Drivers.C14
open OV.C14

def csv (s : String) : List String :=
  if s == "-" || s == "" then [] else s.splitOn ","

def showCsv (l : List String) : String := if l.isEmpty then "-" else ",".intercalate l

def afterEq (s : String) : String :=
  match s.splitOn "=" with
  | [_, v] => v
  | _ => ""

def findRule (name : String) : Option RuleSpec :=
  match OV.Gen.C14Stash.rules.find? (fun r => r.name == name) with
  | some r => some r
  | none => OV.Gen.C14Stash.ortRules.find? (fun r => r.name == name)

/-- Does the row admit what the real rule object was seen doing in one `try_rewrite`?
`W`: fields assigned during `check`; `CR`: fields read in `check` before this call assigned them;
`R2`: fields read in `rewrite` before `rewrite` assigned them. -/
def admits (r : RuleSpec) (ok : Bool) (W CR R2 : List String) : String :=
  let notConst := fun (f : String) => !r.consts.contains f
  let badW := W.filter (fun f => !r.checkMayWrite.contains f)
  let missW := if ok then r.checkWrites.filter (fun f => !W.contains f) else []
  let badCR := (CR.filter notConst).filter (fun f => !r.checkEarlyReads.contains f)
  let badR2 := (R2.filter notConst).filter (fun f => !r.rewriteReads.contains f)
  let stale := (R2.filter notConst).filter (fun f => !W.contains f)
  if !badW.isEmpty then "reject:check-assigned-unlisted:" ++ showCsv badW
  else if !missW.isEmpty then "reject:success-without-assigning:" ++ showCsv missW
  else if !badCR.isEmpty then "reject:check-read-before-assign:" ++ showCsv badCR
  else if !badR2.isEmpty then "reject:rewrite-read-unlisted:" ++ showCsv badR2
  else if r.ok && !stale.isEmpty then "reject:stale-read-in-rewrite:" ++ showCsv stale
  else "admit"

def parseGlobals (s : String) : Globals :=
  if s == "-" || s == "" then [] else
  (s.splitOn ";").filterMap (fun kv => match kv.splitOn "=" with
    | [k, v] => v.toInt?.map (fun i => (k, i))
    | _ => none)

/-- prefix expression over tokens `x`, `g:<name>`, `add`, `mul` -/
def parseSExp : Nat → List String → Option (SExp × List String)
  | 0, _ => none
  | _ + 1, [] => none
  | n + 1, t :: ts =>
    if t == "x" then some (.x, ts)
    else if t.startsWith "g:" then some (.glob (t.drop 2).toString, ts)
    else if t == "add" || t == "mul" then
      match parseSExp n ts with
      | some (a, r1) => match parseSExp n r1 with
        | some (b, r2) => some (if t == "add" then .add a b else .mul a b, r2)
        | none => none
      | none => none
    else none

def showOpt : Option Int → String
  | some v => toString v
  | none => "none"

/-- events: `s`, `r`, `n<b>(` … `)` separated by commas, wrapped in `[`…`]` -/
def tokenizeEvents (s : String) : List String :=
  let s := ((s.replace "[" "").replace "]" "")
  let s := (s.replace "(" ",(,").replace ")" ",),"
  (s.splitOn ",").filter (· ≠ "")

def parseEvents : Nat → List String → List BEv × List String
  | 0, ts => ([], ts)
  | _ + 1, [] => ([], [])
  | n + 1, t :: ts =>
    if t == ")" then ([], ts)
    else if t == "s" then let r := parseEvents n ts; (.sugar :: r.1, r.2)
    else if t == "r" then let r := parseEvents n ts; (.raise :: r.1, r.2)
    else if t.startsWith "n" then
      let b := ((t.drop 1).toString.toNat?).getD 0
      match ts with
      | "(" :: ts' =>
        let inner := parseEvents n ts'
        let rest := parseEvents n inner.2
        (.nested b inner.1 :: rest.1, rest.2)
      | _ => ([], ts)
    else ([], ts)

def parseKey (s : String) : Option OpsetKey :=
  match s.splitOn "/" with
  | [c, d, v] => v.toNat?.map (fun n => ⟨c, d, n⟩)
  | _ => none

def parseFoldNodes (s : String) : List FoldNode :=
  (csv s).filterMap (fun t =>
    if t.startsWith "f" then
      match (t.drop 1).toString.splitOn ":" with
      | [i, v] => match i.toNat?, v.toInt? with
        | some i, some v => some (.foldable i v)
        | _, _ => none
      | _ => none
    else if t.startsWith "k" then (t.drop 1).toString.toNat?.map .keep
    else if t.startsWith "u" then (t.drop 1).toString.toNat?.map .useSym
    else none)

def showKW (kw : KW) : String :=
  if kw.isEmpty then "-" else ";".intercalate (kw.map (fun p => s!"{p.1}={p.2}"))

/-- keep the first binding of every key (a dict has one entry per key), sorted by key for printing -/
def canonKW (kw : KW) : KW :=
  let ks := (kw.map Prod.fst).eraseDups.mergeSort (fun a b => decide (a ≤ b))
  ks.filterMap (fun k => (kw.lookup k).map (fun v => (k, v)))

/-- `fi:k=v;k=v` -/
def parseCall (s : String) : Option (Nat × KW) :=
  match s.splitOn ":" with
  | [i, kv] => i.toNat?.map (fun n => (n, parseGlobals kv))
  | [i] => i.toNat?.map (fun n => (n, []))
  | _ => none

def parseRGlobals (s : String) : RGlobals :=
  if s == "-" || s == "" then [] else
  (s.splitOn ";").filterMap (fun kv => match kv.splitOn "=" with
    | [k, v] =>
      if v.startsWith "@" then (v.drop 1).toString.toNat?.map (fun c => (k, GVal.ref c))
      else v.toInt?.map (fun i => (k, GVal.imm i))
    | _ => none)

def parseCells (s : String) : Cells :=
  let l : List (Nat × Int) := if s == "-" || s == "" then [] else
    (s.splitOn ";").filterMap (fun kv => match kv.splitOn "=" with
      | [k, v] => match k.toNat?, v.toInt? with
        | some k, some v => some (k, v)
        | _, _ => none
      | _ => none)
  fun c => (l.lookup c).getD 0

def b01 (b : Bool) : String := if b then "1" else "0"

def handle (args : List String) : String :=
  match args with
  | ["ctrl", sorted, used, nv, iter] =>
    let r := ctrlOutputs (sorted == "1") ⟨csv used, nv.toNat?.getD 0⟩ (csv iter)
    s!"live={showCsv r.1} names={showCsv r.2.1} next={r.2.2.nextvar}"
  | ["uniq", used, nv, cand] =>
    let r := genUnique ⟨csv used, nv.toNat?.getD 0⟩ cand
    s!"{r.1} {r.2.nextvar}"
  | ["event", rule, ok, w, cr, r2] =>
    match findRule rule with
    | none => "unknown"
    | some r => admits r (ok == "ok") (csv (afterEq w)) (csv (afterEq cr)) (csv (afterEq r2))
  | ["glob", e, gd, gc, x] =>
    match parseSExp 64 (e.splitOn ","), x.toInt? with
    | some (body, []), some xv =>
      let g := parseGlobals gd
      let f := decorate g body
      let p := (toProto f).1
      let cs := p.consts.map toString
      s!"consts={showCsv cs} proto={showOpt (p.eval xv)} eager={showOpt (eagerCall (parseGlobals gc) f xv)}"
    | _, _ => "ERR:parse"
  | ["builder", fixed, g, b, evs] =>
    let body := (parseEvents 256 (tokenizeEvents evs)).1
    let st := withBuilder (fixed == "1") (g.toNat?.getD 0) (b.toNat?.getD 0) body
    s!"global={st.global} seen={showCsv (st.seen.reverse.map toString)} raised={b01 st.raised}"
  | ["intern", cache, key] =>
    match parseKey key with
    | some k =>
      let c := (if cache == "-" then [] else cache.splitOn ";").filterMap parseKey
      let r := intern c k
      s!"{r.2.1} {r.2.2}"
    | none => "ERR:parse"
  | ["fold", pm, nodes] =>
    let st : FoldState := { modified := pm == "1" }
    let r := foldCall st (parseFoldNodes nodes)
    let nconst := (r.2.replaced.filter Option.isSome).length
    s!"modified={b01 r.2.modified} nconst={nconst}"
  | ["kw", al, refs, bases, calls, target, keys] =>
    let aliasing := al == "1"
    let refL := (csv refs).filterMap (fun t => t.toNat?)
    let fn := fun (i : Nat) => (⟨.x, refL.getD i 0⟩ : PFn)
    let baseL := (if bases == "-" then [] else bases.splitOn "|").filterMap parseCall
    let h0 : KWHeap := fun r => (baseL.lookup r).getD []
    let callL := (if calls == "-" then [] else calls.splitOn "/").filterMap parseCall
    match parseCall target with
    | some (ti, over) =>
      let h1 := runCalls aliasing h0 (callL.map (fun c => (fn c.1, c.2)))
      let r := callProto aliasing h1 (fn ti) over
      let r2 := callProto aliasing r.1 (fn ti) []
      let ks := csv keys
      let sh := fun (l : List (Option Int)) => ",".intercalate (l.map showOpt)
      let dicts := "|".intercalate (refL.eraseDups.map (fun rr => s!"{rr}:{showKW (canonKW (r2.1 rr))}"))
      s!"eff={sh (effective r.2.2 ks)} plain={sh (effective r2.2.2 ks)} dicts={dicts}"
    | none => "ERR:parse"
  | ["globr", e, g, c0, c1] =>
    match parseSExp 64 (e.splitOn ",") with
    | some (body, []) =>
      let copy := true
      let ir := translateR copy (parseRGlobals g) (parseCells c0) body
      let sh := fun (p : GExp) => showCsv (p.consts.map toString)
      s!"before={sh (ir.toProto (parseCells c0))} after={sh (ir.toProto (parseCells c1))} copy={b01 copy}"
    | _ => "ERR:parse"
  | ["imports", sorted, existing, iter] =>
    let dn := fun (d : String) => if d == "~" then "" else d
    let ex : List (String × Nat) := (if existing == "-" then [] else existing.splitOn ";").filterMap (fun kv =>
      match kv.splitOn "=" with
      | [k, v] => v.toNat?.map (fun n => (dn k, n))
      | _ => none)
    let it : List UsedOpset := (csv iter).map (fun t => match t.splitOn "=" with
      | [k, v] => (dn k, v.toNat?)
      | _ => (dn t, none))
    -- the model is the repaired code (sorted iteration); the flag is accepted for the protocol's sake only
    let r := updateOpsetImports (sorted == "1" || true) ex it
    ";".intercalate (r.map (fun p => s!"{if p.1 == "" then "~" else p.1}={p.2}"))
  | ["header", gi, fs, okw, ikw, latest, table, maxIr] =>
    let dn := fun (d : String) => if d == "~" then "" else d
    let parseImps := fun (t : String) => (if t == "-" then [] else t.splitOn ";").filterMap (fun kv =>
      match kv.splitOn "=" with
      | [k, v] => v.toNat?.map (fun n => (dn k, n))
      | _ => none)
    let funcs : List SubFn := (if fs == "-" then [] else fs.splitOn "|").filterMap (fun t =>
      match t.splitOn ":" with
      | [d, v, st] => v.toNat?.map (fun n => (⟨dn d, n, st.toNat?⟩ : SubFn))
      | _ => none)
    let tbl : List (Nat × Nat) := (table.splitOn ";").filterMap (fun kv =>
      match kv.splitOn "=" with
      | [k, v] => match k.toNat?, v.toNat? with
        | some k, some v => some (k, v)
        | _, _ => none
      | _ => none)
    let r := modelHeader (parseImps gi) funcs okw.toNat? ikw.toNat? (latest.toNat?.getD 0) tbl (maxIr.toNat?.getD 0)
    ";".intercalate (r.1.map (fun p => s!"{if p.1 == "" then "~" else p.1}={p.2}")) ++ s!" ir={r.2}"
  | ["fresh", names, k] =>
    showCsv (applyNames true [] (csv names) (k.toNat?.getD 0)).1
  | ["vcnames", names, k] =>
    let r := (convertPassCall false {} (csv names) (k.toNat?.getD 0)).1
    s!"{showCsv r.1} namefix={b01 r.2}"
  | ["rowcover", rule, w, r2] =>
    match findRule rule with
    | none => "unknown"
    | some r =>
      let W := csv (afterEq w)
      let R2 := csv (afterEq r2)
      let unseenW := r.checkMayWrite.filter (fun f => !W.contains f)
      let unseenR := r.rewriteReads.filter (fun f => !R2.contains f)
      if !unseenW.isEmpty then "slack:listed-write-never-observed:" ++ showCsv unseenW
      else if !unseenR.isEmpty then "slack:listed-read-never-observed:" ++ showCsv unseenR
      else "exact"
  | ["etrace", cls, evs] =>
    match OV.Gen.C14Globals.entryRows.find? (fun e => e.name == cls) with
    | none => "unknown"
    | some e =>
      let es : List Ev := (csv evs).filterMap (fun t =>
        if t.startsWith "r:" then some (.r (t.drop 2).toString)
        else if t.startsWith "w:" then some (.w (t.drop 2).toString) else none)
      if es.length != (csv evs).length then "ERR:parse"
      else
        -- `traceCheck` is `traceOk` (the theorem's check) plus "assigned fields are listed in the row"
        let verdict := traceCheck e.consts e.mayWrite [] es
        if verdict == "conforms" && !(traceOk e.consts [] es) then "ERR:checks-disagree" else verdict
  | ["evalgap", dom, op, ver] =>
    s!"left={b01 (evaluatorGap (if dom == "~" then "" else dom) op (ver.toNat?.getD 0))}"
  | ["ecover", cls, w] =>
    match OV.Gen.C14Globals.entryRows.find? (fun e => e.name == cls) with
    | none => "unknown"
    | some e =>
      let W := csv (afterEq w)
      let unseen := e.mayWrite.filter (fun f => !W.contains f)
      if unseen.isEmpty then "exact" else "slack:" ++ showCsv unseen
  | ["castable", c1, c2, arg] =>
    let resets := OV.Gen.C14Stash.converterFacts.resetFields.contains "_castable"
    s!"castlike={b01 (insertsCastLike (castableAfter resets (csv c1) (csv c2)) arg)} resets={b01 resets}"
  | _ => "ERR:command"

end OV.Drivers.C14

def main : IO Unit := OV.Drivers.run OV.Drivers.C14.handle
