import OV.Model.C10VersionConv
import OV.Model.C10Fallback
import OV.Model.C10Names
import OV.Model.C10Imports
import OV.Model.C10Meta
import OV.Model.C10History
import OV.Drivers.Loop
/-! Line-protocol driver for C10.

`C10 conv <entry:ir|proto|native> <fb:none|yes|no> <target> <capi:ok|fail> decl=<n|_> ai=<n|_> in=<a,b|-> init=<a,b|-> <item>*`
items:  `N <dflt01> <ver|_> <ref01> <op>`  node of the graph being read
        `{` … `}`                          a subgraph (body) of the last node, nested to any depth (used up to 4)
        `F <decl|_> <ai|_>`                opens a function (following items belong to it)
op:     `P:<name>` | `K:<s|v>:<i~i…>` | `GS:<mode|_>:<align|_>:<pad|_>` |
        `DFT:<axis|_>:<inv|_>:<one|_>:<len01>:<axisIn|_>:<rank>` |
        `GN:<hasX><hasS><hasB>:<g|_>:<eps|_>:<c>:<sLen>:<bLen>:<xVis><sVis><bVis>` (vis: m|s|k) | `CALL:<i>`
`C10 hist <entry> <fb,fb,…> <target,target,…> <capi,capi,…> decl=… ai=… in=… init=… <item>*`
        the same object converted again and again (`convertHistory`): one `branch=… err=… …` observation per call, ` || `-separated
`C10 fallback in=<a,b|-> init=<name:size,…|->`  → `call_onnx_api` view, state after failure, state after success
`C10 names used=<n,n,…|-> sizes=<k,k,…|->`  → visible `val_<n>` indices per replacement (`;`-separated)
`C10 expand <g> <k> <s0~s1~…>`  → the Reshape[-1,1];Expand[1,k];Reshape[-1] image of a scale vector
`C10 adapt <fromV> <op>`        → result of the adapter lookup+call
-/
namespace OV.Drivers.C10
open OV.C10

def optNat (s : String) : Option (Option Nat) := if s == "_" then some none else s.toNat?.map some
def optInt (s : String) : Option (Option Int) := if s == "_" then some none else s.toInt?.map some
def optStr (s : String) : Option String := if s == "_" then none else some s
def bool01 (s : String) : Option Bool := if s == "1" then some true else if s == "0" then some false else none
def parseInts (s : String) : Option (List Int) :=
  if s == "" || s == "-" then some [] else (s.splitOn "~").mapM (fun t => t.toInt?)
def parseNames (s : String) : List String := if s == "-" || s == "" then [] else s.splitOn ","

def parseVis : Char → Option Vis
  | 'm' => some .missing
  | 's' => some .symbolic
  | 'k' => some .known
  | _ => none

def parseOp (s : String) : Option Op :=
  match s.splitOn ":" with
  | ["P", name] => some (.plain name)
  | ["K", sv, ints] => do
    let is ← parseInts ints
    pure (.const (sv == "s") is)
  | ["GS", mode, align, pad] => do
    let a ← optInt align
    pure (.gridSample (optStr mode) a (optStr pad))
  | ["DFT", axis, inv, one, len, axisIn, rank] => do
    let ax ← optInt axis; let i ← optInt inv; let o ← optInt one
    let l ← bool01 len; let ai ← optInt axisIn; let r ← rank.toNat?
    pure (.dft ax i o l ai r)
  | ["GN", has, g, eps, c, sLen, bLen, vis] => do
    match has.toList, vis.toList with
    | [hx, hs, hb], [xv, sv, bv] =>
      let hx ← bool01 hx.toString; let hs ← bool01 hs.toString; let hb ← bool01 hb.toString
      let g ← optNat g; let c ← c.toNat?; let sl ← sLen.toNat?; let bl ← bLen.toNat?
      let xv ← parseVis xv; let sv ← parseVis sv; let bv ← parseVis bv
      pure (.groupNorm { hasX := hx, hasScale := hs, hasBias := hb, groups := g, eps := optStr eps,
                         c := c, sLen := sl, bLen := bl, xVis := xv, sVis := sv, bVis := bv })
    | _, _ => none
  | ["CALL", i] => i.toNat?.map .call
  | _ => none

def parseLeaf (d v r o : String) : Option Leaf := do
  let d ← bool01 d; let v ← optNat v; let r ← bool01 r; let o ← parseOp o
  pure { dflt := d, op := o, version := v, refAttr := r }

/-- Parsed node with its subgraphs (any nesting depth). -/
inductive Tree
  | mk (leaf : Leaf) (bodies : List (List Tree))

/-- Truncating conversion to nesting depth `d` (the driver works at depth `DEPTH`; the harness never nests deeper). -/
def toD : (d : Nat) → Tree → NodeD d
  | 0, .mk l _ => l
  | d + 1, .mk l bs => ({ leaf := l, bodies := bs.map (·.map (toD d)) } : Node (NodeD d))

def DEPTH : Nat := 3

/-- Stack machine: the head of the stack is the (reversed) node list of the graph being read. -/
def attachBody (body : List Tree) : List Tree → List Tree
  | .mk l bs :: rest => .mk l (bs ++ [body]) :: rest
  | [] => []

def parseNodes : List String → List (List Tree) → Option (List Tree)
  | [], [top] => some top.reverse
  | [], _ => none
  | "N" :: d :: v :: r :: o :: rest, cur :: st => do
    let l ← parseLeaf d v r o
    parseNodes rest ((.mk l [] :: cur) :: st)
  | "{" :: rest, st => parseNodes rest ([] :: st)
  | "}" :: rest, body :: cur :: st => parseNodes rest (attachBody body.reverse cur :: st)
  | _, _ => none

/-- Split the item tokens at the `F <decl> <ai>` markers. -/
def splitFuncs : List String → List String → List (List String) → List (List String)
  | [], cur, acc => (cur.reverse :: acc).reverse
  | "F" :: d :: a :: rest, cur, acc => splitFuncs rest [a, d, "F"] (cur.reverse :: acc)
  | t :: rest, cur, acc => splitFuncs rest (t :: cur) acc

def parseFunc (seg : List String) : Option (Func (NodeD DEPTH)) :=
  match seg with
  | "F" :: d :: a :: items => do
    let d ← optNat d; let a ← optNat a
    let ts ← parseNodes items [[]]
    pure { declared := d, aionnx := a, nodes := ts.map (toD (DEPTH + 1)) }
  | _ => none

def kv (key s : String) : Option String :=
  if s.startsWith (key ++ "=") then some (s.drop (key.length + 1)).toString else none

/-! ### printing (observable part only) -/
def showOptNat : Option Nat → String | none => "_" | some n => toString n
def showOptInt : Option Int → String | none => "_" | some n => toString n
def showOptStr : Option String → String | none => "_" | some s => s
def showB (b : Bool) : String := if b then "1" else "0"
def showVis : Vis → String | .missing => "m" | .symbolic => "s" | .known => "k"
def showInts (l : List Int) : String := "~".intercalate (l.map toString)

def showOp : Op → String
  | .plain n => s!"P:{n}"
  | .const s is => s!"K:{if s then "s" else "v"}:{showInts is}"
  | .gridSample m a p => s!"GS:{showOptStr m}:{showOptInt a}:{showOptStr p}"
  | .dft ax i o l ai _ => s!"DFT:{showOptInt ax}:{showOptInt i}:{showOptInt o}:{showB l}:{showOptInt ai}"
  | .groupNorm n =>
    let known (v : Vis) (x : Nat) : String := if v = .known then toString x else "?"
    s!"GN:{showB n.hasX}{showB n.hasScale}{showB n.hasBias}:{showOptNat n.groups}:{showOptStr n.eps}:" ++
    s!"{showVis n.xVis}{showVis n.sVis}{showVis n.bVis}:{known n.xVis n.c}:{known n.sVis n.sLen}:{known n.bVis n.bLen}"
  | .call i => s!"CALL:{i}"

def showLeaf (l : Leaf) : String := s!"{showB l.dflt}{showB l.refAttr}@{showOptNat l.version}/{showOp l.op}"
def showD : (d : Nat) → NodeD d → String
  | 0, l => showLeaf l
  | d + 1, n =>
    let n' : Node (NodeD d) := n
    showLeaf n'.leaf ++ String.join (n'.bodies.map (fun b => "{" ++ ",".intercalate (b.map (showD d)) ++ "}"))
def showNodes (ns : List (Node (NodeD DEPTH))) : String := ";".intercalate (ns.map (showD (DEPTH + 1)))
def showNames (l : List String) : String := if l.isEmpty then "-" else ",".intercalate l

def showErr : Option Err → String
  | none => "none"
  | some .noVersion => "VersionConverterError"
  | some .refAttr => "VersionConverterError"
  | some .downgrade => "VersionConverterError"
  | some .badTarget => "ValueError"
  | some .importClash => "ValueError"
  | some .inlineClash => "PassError"

def showModel (m : Model (NodeD DEPTH)) (e : Option Err) : String :=
  s!"err={showErr e} decl={showOptNat m.declared} ai={showOptNat m.aionnx} in={showNames m.inputs} " ++
  s!"init={showNames m.inits} nodes={showNodes m.nodes} funcs=" ++
  "|".intercalate (m.funcs.map (fun f => s!"{showOptNat f.declared}/{showOptNat f.aionnx}/{showNodes f.nodes}"))

/-- Which branch of the entry logic a case takes (for the branch histogram). -/
def branchOf (e : Entry) (fb : Fallback) (target : Nat) (capiOk : Bool) (m : Model (NodeD DEPTH)) : String :=
  match e with
  | .native => "native-direct"
  | _ =>
    let m0 := if e = .proto then eraseVersions m else m
    match inlineModel m0 with
    | .error _ => "inline-error"
    | .ok m1 =>
      if m1.declared = some target then "early-exit"
      else if !fb.truthy || versionSupported m1 target then
        (if fb.truthy then "native-supported" else "native-nofallback")
      else if capiOk then "capi-ok" else "capi-fail"

def showAdapt : AdaptRes → String
  | .noAdapter => "noAdapter"
  | .raised => "raised"
  | .retNone => "retNone"
  | .replaced news => "replaced " ++ ";".intercalate (news.map showOp)

def handle (args : List String) : String :=
  match args with
  | "conv" :: entry :: fb :: target :: capi :: decl :: ai :: ins :: inits :: items =>
    let r : Option String := do
      let e ← (match entry with | "ir" => some Entry.ir | "proto" => some .proto | "native" => some .native | _ => none)
      let f ← (match fb with | "none" => some Fallback.none | "yes" => some .yes | "no" => some .no | _ => none)
      let t ← target.toNat?
      let capiOk ← (match capi with | "ok" => some true | "fail" => some false | _ => none)
      let d ← (kv "decl" decl) >>= optNat
      let a ← (kv "ai" ai) >>= optNat
      let i ← kv "in" ins
      let n ← kv "init" inits
      let segs := splitFuncs items [] []
      let mainTs ← parseNodes (segs.headD []) [[]]
      let fs ← (segs.drop 1).mapM parseFunc
      let m : Model (NodeD DEPTH) :=
        { declared := d, aionnx := a, nodes := mainTs.map (toD (DEPTH + 1)),
          funcs := fs, inputs := parseNames i, inits := parseNames n }
      let capiF : CApi (NodeD DEPTH) := fun _ _ => if capiOk then some [{ leaf := { dflt := true, op := .plain "CAPI", version := none, refAttr := false }, bodies := [] }] else none
      let (m', err) := convertVersionApi e f t capiF m
      pure (s!"branch={branchOf e f t capiOk m} " ++ showModel m' err)
    r.getD "bad-op"
  | "hist" :: entry :: fbs :: targets :: capis :: decl :: ai :: ins :: inits :: items =>
    let r : Option String := do
      let e ← (match entry with | "ir" => some Entry.ir | "proto" => some .proto | "native" => some .native | _ => none)
      let fs ← (fbs.splitOn ",").mapM (fun fb => match fb with | "none" => some Fallback.none | "yes" => some .yes | "no" => some .no | _ => none)
      let ts ← (targets.splitOn ",").mapM (·.toNat?)
      let cs ← (capis.splitOn ",").mapM (fun c => match c with | "ok" => some true | "fail" => some false | _ => none)
      if fs.length != ts.length || cs.length != ts.length then none
      let d ← (kv "decl" decl) >>= optNat
      let a ← (kv "ai" ai) >>= optNat
      let i ← kv "in" ins
      let n ← kv "init" inits
      let segs := splitFuncs items [] []
      let mainTs ← parseNodes (segs.headD []) [[]]
      let fns ← (segs.drop 1).mapM parseFunc
      let m : Model (NodeD DEPTH) :=
        { declared := d, aionnx := a, nodes := mainTs.map (toD (DEPTH + 1)),
          funcs := fns, inputs := parseNames i, inits := parseNames n }
      let capiF (ok : Bool) : CApi (NodeD DEPTH) := fun _ _ => if ok then some [{ leaf := { dflt := true, op := .plain "CAPI", version := none, refAttr := false }, bodies := [] }] else none
      let calls : List (Call (NodeD DEPTH)) := (fs.zip (ts.zip cs)).map (fun c => (c.1, c.2.1, capiF c.2.2))
      let states := historyStates e calls m
      -- the state each call starts from (for the branch label)
      let starts := m :: states.map (·.1)
      let rows := (states.zip (starts.zip (fs.zip (ts.zip cs)))).map (fun x =>
        s!"branch={branchOf e x.2.2.1 x.2.2.2.1 x.2.2.2.2 x.2.1} " ++ showModel x.1.1 x.1.2)
      pure (" || ".intercalate rows)
    r.getD "bad-op"
  | ["fallback", ins, inits] =>
    let r : Option String := do
      let i ← kv "in" ins
      let n ← kv "init" inits
      let parseInit (t : String) : Option Fallback.Init :=
        match t.splitOn ":" with
        | [nm, sz] => sz.toNat?.map (fun z => { name := nm, size := z, val := 0 })
        | _ => none
      let is ← (parseNames n).mapM parseInit
      let orig : Fallback.G := { inputs := parseNames i, inits := is }
      let prep := Fallback.prepare orig
      let fail := Fallback.afterCall orig
      let ok := Fallback.afterSuccess orig prep
      let nm (l : List Fallback.Init) := showNames (Fallback.names l)
      pure (s!"prep_in={showNames prep.inputs} prep_init={nm prep.inits} fail_in={showNames fail.inputs} " ++
            s!"fail_init={nm fail.inits} ok_in={showNames ok.inputs} ok_init={nm ok.inits}")
    r.getD "bad-op"
  | "imports" :: target :: imps :: used :: funcs =>
    -- imports <target> imp=<d:v,…> used=<d,…> [f=<d:v,…>/<d,…>]*      ("" is written `@`)
    let r : Option String := do
      let t ← target.toNat?
      let dom (x : String) : String := if x == "@" then "" else x
      let parseDict (x : String) : Option Imports.Dict :=
        (parseNames x).mapM (fun e => match e.splitOn ":" with
          | [d, v] => v.toNat?.map (fun n => (dom d, n))
          | _ => none)
      let i ← (kv "imp" imps) >>= parseDict
      let u ← kv "used" used
      let fs ← funcs.mapM (fun f => do
        let body ← kv "f" f
        match body.splitOn "/" with
        | [a, b] => do let d ← parseDict a; pure (d, (parseNames b).map dom)
        | _ => none)
      let m : Imports.M := { imports := i, usedMain := (parseNames u).map dom, funcs := fs }
      let res := Imports.protoRebuild i (Imports.converted m t)
      pure (",".intercalate (res.map (fun e => s!"{if e.1 == "" then "@" else e.1}:{e.2}")))
    r.getD "bad-op"
  | "meta" :: og :: od :: cg :: cd :: items =>
    -- meta og=<props> od=<doc|_> cg=<props> cd=<doc|_> {ON|CN <name|_> <op> <dom|@> <doc|_> <props>}* {OV|CV <name> <doc|_> <props>}*
    let r : Option String := do
      let us (x : String) : String := if x == "_" then "" else x
      let parseProps (x : String) : Option Meta.Props :=
        (parseNames x).mapM (fun e => match e.splitOn "=" with
          | [k, v] => some (k, v)
          | _ => none)
      let showProps (d : Meta.Props) : String := if d.isEmpty then "-" else ",".intercalate (d.map (fun e => s!"{e.1}={e.2}"))
      let ogp ← (kv "og" og) >>= parseProps
      let odd ← kv "od" od
      let cgp ← (kv "cg" cg) >>= parseProps
      let cdd ← kv "cd" cd
      let rec go : List String → (List Meta.N × List Meta.V × List Meta.N × List Meta.V) → Option (List Meta.N × List Meta.V × List Meta.N × List Meta.V)
        | [], acc => some acc
        | "ON" :: nm :: op :: dm :: dc :: pr :: rest, (a, b, c, d) => do
          let p ← parseProps pr
          go rest (a ++ [{ name := optStr nm, op := op, domain := (if dm == "@" then "" else dm), doc := us dc, props := p }], b, c, d)
        | "CN" :: nm :: op :: dm :: dc :: pr :: rest, (a, b, c, d) => do
          let p ← parseProps pr
          go rest (a, b, c ++ [{ name := optStr nm, op := op, domain := (if dm == "@" then "" else dm), doc := us dc, props := p }], d)
        | "OV" :: nm :: dc :: pr :: rest, (a, b, c, d) => do
          let p ← parseProps pr
          go rest (a, b ++ [{ name := nm, doc := us dc, props := p }], c, d)
        | "CV" :: nm :: dc :: pr :: rest, (a, b, c, d) => do
          let p ← parseProps pr
          go rest (a, b, c, d ++ [{ name := nm, doc := us dc, props := p }])
        | _, _ => none
      let (on, ov, cn, cv) ← go items ([], [], [], [])
      let res := Meta.restore { props := ogp, doc := us odd, nodes := on, values := ov }
                              { props := cgp, doc := us cdd, nodes := cn, values := cv }
      let sd (x : String) : String := if x == "" then "_" else x
      pure (";".intercalate ([s!"G:{showProps res.props}:{sd res.doc}"] ++
        res.nodes.map (fun n => s!"N:{showProps n.props}:{sd n.doc}") ++
        res.values.map (fun v => s!"V:{showProps v.props}:{sd v.doc}")))
    r.getD "bad-op"
  | ["names", used, sizes] =>
    let r : Option String := do
      let u ← kv "used" used
      let z ← kv "sizes" sizes
      let us ← (parseNames u).mapM (·.toNat?)
      let zs ← (parseNames z).mapM (·.toNat?)
      let vis ← Names.nameAll zs { used := us.map .val, ctr := 0 }
      pure (";".intercalate (vis.map (fun l => ",".intercalate (l.map toString))))
    r.getD "bad-op"
  | ["expand", _g, k, s] =>
    match k.toNat?, parseInts s with
    | some k, some s => showInts (expandScale k s)
    | _, _ => "bad-op"
  | ["adapt", v, o] =>
    match v.toNat?, parseOp o with
    | some v, some o => showAdapt (adapt o v)
    | _, _ => "bad-op"
  | _ => "bad-op"

end OV.Drivers.C10

def main : IO Unit := OV.Drivers.run OV.Drivers.C10.handle
