import OV.Model.C15Wrappers
import OV.Drivers.Loop
/-! Line-protocol driver for C15.
    `C15 path <api> <proto|ir>`  → `ret=<arg|fresh|none|aux>;arg:<carrier>=<expr>,…;res:<carrier>=<expr>,…`
       where `<expr>` is the symbolic composition (`M`, `de(M)`, `ser(T(de(M)))`, `empty`, …) held by that
       carrier of the caller's object after the call (`arg`) and of the produced model (`res`).
    `C15 route <api> <proto|ir>` → `<callee parameter><-<caller option>,…` (the option routing of that entry)
    `C15 touches <api>`          → comma-separated carriers of the API's frame
    `C15 replace <proto|ir> <0|1>` → `ret=…;changed=<0|1>` for replace_functions on a model with (1) / without (0) local functions
    `C15 inline <0|1>`           → `ret=…;changed=<0|1>` (1 = model-local functions present)
    `C15 track <api> <api> …`    → `cur=<orig|fresh>;orig=<k>[~];res=<j>` for the history of those proto-entry calls
       (`protoTrack`): whether the object the last call produced IS the caller's original; the number k of leading
       calls whose result the caller's original holds afterwards (`~`: up to serde write-through); j = the least
       stage whose content equals the final result (j < n iff the trailing calls are `rewrite(·, [])`)
    api ∈ optimize fold_constants remove_unused_nodes remove_unused_functions rewrite_empty rewrite_rules
          convert_version convert_version_old replace_functions -/
namespace OV.Drivers.C15
open OV.C15

def parseApi : String → Option Api
  | "optimize" => some .optimize
  | "fold_constants" => some .foldConstants
  | "remove_unused_nodes" => some .removeUnusedNodes
  | "remove_unused_functions" => some .removeUnusedFunctions
  | "rewrite_empty" => some (.rewrite true)
  | "rewrite_rules" => some (.rewrite false)
  | "convert_version" => some .convertVersion
  | "replace_functions" => some .replaceFunctions
  | _ => none

def showRec (r : Rec String) : String :=
  ",".intercalate (Carrier.all.map (fun c => c.name ++ "=" ++ r c))

def showOutcome (o : Outcome (Rec String)) : String :=
  "ret=" ++ showRet o.ret ++ ";arg:" ++ showRec o.argAfter ++ ";res:" ++ showRec o.result

/-- Symbolic transformation tagged with the API, so that the stages of a history are distinguishable. -/
def symTn : Api → Opts String → Rec String → Rec String := fun f _ m c => "T_" ++ f.srcName ++ "(" ++ m c ++ ")"

def parseHistory (as : List String) : Option (History String) :=
  as.mapM (fun a => (parseApi a).map (fun f => (f, symOpts)))

def sameRec (a b : Rec String) : Bool := Carrier.all.all (fun c => a c == b c)
def sameRecUpToAlias (a b : Rec String) : Bool := Carrier.all.all (fun c => a c == b c || a c == b c ++ "~")

def trackReport (h : History String) : String :=
  let t := protoTrack symSerde symTn h symArg
  let stage (k : Nat) := protoChain symSerde symTn (h.take k) symArg
  let ks := List.range (h.length + 1)
  let k := (ks.find? (fun k => sameRecUpToAlias t.orig (stage k))).map toString |>.getD "?"
  let tilde := if Carrier.all.any (fun c => (t.orig c).endsWith "~") then "~" else ""
  let j := (ks.find? (fun k => sameRec t.current (stage k))).map toString |>.getD "?"
  "cur=" ++ (if t.cur.isNone then "orig" else "fresh") ++ ";orig=" ++ k ++ tilde ++ ";res=" ++ j

def handle (args : List String) : String :=
  match args with
  | "track" :: as =>
    (match parseHistory as with
     | some h => trackReport h
     | none => "bad-op")
  | ["path", "convert_version_old", "proto"] => showOutcome (protoConvertOld symSerde symT symOpts symArg)
  | ["path", api, entry] =>
    match parseApi api, entry with
    | some f, "proto" => showOutcome (protoPath symSerde symT f symOpts symArg)
    | some f, "ir" => showOutcome (irPath symT f symOpts symArg)
    | _, _ => "bad-op"
  | ["route", api, entry] =>
    match parseApi api, entry with
    | some f, "proto" => ",".intercalate (OptKey.all.map (fun k => k.name ++ "<-" ++ forward f .proto symOpts k))
    | some f, "ir" => ",".intercalate (OptKey.all.map (fun k => k.name ++ "<-" ++ forward f .ir symOpts k))
    | _, _ => "bad-op"
  | ["touches", api] =>
    match parseApi api with
    | some f => ",".intercalate ((Carrier.all.filter (touches f)).map Carrier.name)
    | none => "bad-op"
  | ["replace", entry, b] =>
    let hasF : Rec String → Bool := fun _ => b == "1"
    (match entry with
     | "proto" =>
       let o := protoReplace symSerde symT hasF symOpts symArg
       "ret=" ++ showRet o.ret ++ ";changed=" ++ (if o.argAfter Carrier.nodes == "M" then "0" else "1")
     | "ir" =>
       let o := irReplace symT hasF symOpts symArg
       "ret=" ++ showRet o.ret ++ ";changed=" ++ (if o.argAfter Carrier.nodes == "M" then "0" else "1")
     | _ => "bad-op")
  | ["inline", b] =>
    let o := inlinePath (fun _ => b == "1") (symT .optimize symOpts) symArg
    "ret=" ++ showRet o.ret ++ ";changed=" ++ (if o.argAfter Carrier.nodes == "M" then "0" else "1")
  | _ => "bad-op"

end OV.Drivers.C15

def main : IO Unit := OV.Drivers.run OV.Drivers.C15.handle
