import OV.Model.C12Autocast
import OV.Model.C12Cache
import OV.Model.C12Opset
import OV.Model.C12Scope
import OV.Model.C12Call
import OV.Drivers.Loop
/-! Line-protocol driver for C12.

* `C12 cast <static|dynamic|builder|expected|repr> <formal>* | <arg>*`
  formal `F:<tc>:<variadic 0/1>:<homogeneous 0/1>`; arg `t:<DTYPE>:<known 0/1>` | `n` | `s:<scalar>` |
  `l:<scalar>,<scalar>…`; scalar `b0|b1` | `i<int>` | `f<+|-><num>/<den>`.
  Answer: `ok <out>*` with out `N` | `P:<DTYPE>` | `C:<DTYPE>:<s|l>:<sval>,…` (sval `b1`, `i5`, `f+5/2@0`, `u`),
  or `ERR:<tooMany|overflow|refused>`; `repr` answers `1`/`0` (`allRepresentable`).
* `C12 hist <call> ;; <call> …` (call = `<formal>* | <arg>*`): calls on ONE builder (constant cache threaded).
* `C12 cache <req>*` with req `<s:…|l:…>@<DTYPE|none>`: one answer per request, `;`-separated:
  `<name>=<DTYPE>:<sval>,…` (name `S:<scalar>:<DTYPE|none>` or `L:<n>`) or `ERR:…`; then ` #<cache size>`. -/
namespace OV.Drivers.C12
open OV.Autocast

def dtypeNames : List (String × DType) :=
  [("FLOAT", .float), ("DOUBLE", .double), ("FLOAT16", .float16), ("BFLOAT16", .bfloat16),
   ("INT8", .int8), ("INT16", .int16), ("INT32", .int32), ("INT64", .int64),
   ("UINT8", .uint8), ("UINT16", .uint16), ("UINT32", .uint32), ("UINT64", .uint64), ("BOOL", .bool)]

def parseDType (s : String) : Option DType := (dtypeNames.find? (·.1 == s)).map (·.2)
def showDType (d : DType) : String := ((dtypeNames.find? (·.2 == d)).map (·.1)).getD "?"

def parseBit (s : String) : Option Bool :=
  if s == "1" then some true else if s == "0" then some false else none

def parseScalar (s : String) : Option Scalar :=
  if s.startsWith "b" then (parseBit (s.drop 1).toString).map .b
  else if s.startsWith "i" then (s.drop 1).toString.toInt?.map .i
  else if s.startsWith "f" then
    let body := (s.drop 2).toString
    let neg := (s.drop 1).toString.startsWith "-"
    match body.splitOn "/" with
    | [n, d] => do
      let n ← n.toNat?
      let d ← d.toNat?
      pure (.f neg n d)
    | _ => none
  else none

def parseLit (kind body : String) : Option Lit :=
  if kind == "s" then (parseScalar body).map .s
  else if kind == "l" then
    match (body.splitOn ",").mapM parseScalar with
    | some (x :: xs) => some (.l x xs)
    | _ => none
  else none

def parseArg (s : String) : Option Arg :=
  match s.splitOn ":" with
  | ["n"] => some .none
  | ["t", d, k] => do
    let d ← parseDType d
    let k ← parseBit k
    pure (.tensor d k)
  | [kind, body] => (parseLit kind body).map .lit
  | _ => none

def parseFormal (s : String) : Option SFormal :=
  match s.splitOn ":" with
  | ["F", tc, v, h] => do
    let v ← parseBit v
    let h ← parseBit h
    pure ⟨tc, v, h⟩
  | _ => none

def showScalar : Scalar → String
  | .b v => if v then "b1" else "b0"
  | .i v => s!"i{v}"
  | .f neg n d => s!"f{if neg then "-" else "+"}{n}/{d}"

def showSVal : SVal → String
  | .b v => if v then "b1" else "b0"
  | .i v => s!"i{v}"
  | .f neg n d via => s!"f{if neg then "-" else "+"}{n}/{d}@{if via then 1 else 0}"
  | .unmodelled => "u"

def showVals (vs : List SVal) : String := ",".intercalate (vs.map showSVal)

def showOut : Out → String
  | .none => "N"
  | .pass d => s!"P:{showDType d}"
  | .const d isl vs => s!"C:{showDType d}:{if isl then "l" else "s"}:{showVals vs}"

def showErr : Err → String
  | .tooMany => "ERR:tooMany"
  | .overflow => "ERR:overflow"
  | .refused => "ERR:refused"

def showRes : Except Err (List Out) → String
  | .ok os => " ".intercalate ("ok" :: os.map showOut)
  | .error e => showErr e

def splitBar (ts : List String) : List String × List String :=
  (ts.takeWhile (· != "|"), (ts.dropWhile (· != "|")).drop 1)

def handleCast (mode : String) (rest : List String) : String :=
  let (fts, ats) := splitBar rest
  match fts.mapM parseFormal, ats.mapM parseArg with
  | some sfs, some args =>
    let fs := sfs.map SFormal.formal
    if mode.startsWith "staticat:" then
      match (mode.drop 9).toString.toNat? with
      | some v => showRes (castStaticAt v fs args)
      | none => "bad-op"
    else
    match mode with
    | "static" => showRes (castStatic fs args)
    | "dynamic" => showRes (castDynamic fs args)
    | "builder" => showRes (castBuilder fs args)
    | "function" => showRes (castBuilderFunction fs args)
    | "expected" => showRes (expected fs args)
    | "repr" => if allRepresentable fs args then "1" else "0"
    | "castlike" => if usesCastLike fs args then "1" else "0"
    | _ => "bad-op"
  | _, _ => "bad-op"

def parseReq (s : String) : Option (Lit × Option DType) :=
  match s.splitOn "@" with
  | [l, d] =>
    match l.splitOn ":" with
    | [kind, body] => do
      let lit ← parseLit kind body
      if d == "none" then pure (lit, none)
      else do
        let d ← parseDType d
        pure (lit, some d)
    | _ => none
  | _ => none

def showName : CName → String
  | .scalar x sfx => s!"S:{showScalar x}:{(sfx.map showDType).getD "none"}"
  | .list n => s!"L:{n}"

def runCache : Cache → List (Lit × Option DType) → List String → List String × Cache
  | c, [], acc => (acc.reverse, c)
  | c, (l, dt) :: rs, acc =>
    match promote c l dt with
    | .ok (c', e) => runCache c' rs (s!"{showName e.name}={showDType e.dtype}:{showVals e.vals}" :: acc)
    | .error e => runCache c rs (showErr e :: acc)

def handleCache (rest : List String) : String :=
  match rest.mapM parseReq with
  | some reqs =>
    let (outs, c) := runCache [] reqs []
    ";".intercalate outs ++ s!" #{c.length}"
  | none => "bad-op"

/-- Split a token list at every `;;`. -/
def splitCalls : List String → List (List String)
  | [] => [[]]
  | t :: ts =>
    match splitCalls ts with
    | [] => [[t]]
    | c :: cs => if t == ";;" then [] :: c :: cs else (t :: c) :: cs

def showBOut (o : BOut) : String :=
  showOut o.out ++ "@" ++ (match o.init with | some n => showName n | none => "-")

def showBRes : Except Err (List BOut) → String
  | .ok os => " ".intercalate ("ok" :: os.map showBOut)
  | .error e => showErr e

def parseCall (ts : List String) : Option (List (Formal String) × List Arg) :=
  let (fts, ats) := splitBar ts
  match fts.mapM parseFormal, ats.mapM parseArg with
  | some sfs, some args => some (sfs.map SFormal.formal, args)
  | _, _ => none

/-- `hist <formals> | <args> ;; <formals> | <args> ;; …`: the calls made in this order on one fresh builder (builder
reading of each signature); answers are `;;`-separated, operands carry `@<initializer name>`; then ` #<cache size>`. -/
def handleHist (rest : List String) : String :=
  match (splitCalls rest).mapM parseCall with
  | some calls =>
    let (rs, c) := runCalls [] calls
    " ;; ".intercalate (rs.map showBRes) ++ s!" #{c.length}"
  | none => "bad-op"

def parseNames (body : String) : Option (List Nat) :=
  if body == "" then some [] else (body.splitOn ",").mapM (fun (t : String) => t.toNat?)

def parseInstr (s : String) : Option OV.Scope.Instr :=
  if s == "E" then some .enter
  else if s.startsWith "XL:" then (parseNames (s.drop 3).toString).map .exitLoop
  else if s.startsWith "XB:" then (parseNames (s.drop 3).toString).map .exitBranch
  else if s.startsWith "I:" then (parseNames (s.drop 2).toString).map .endIf
  else if s.startsWith "F" then
    match (s.drop 1).toString.splitOn ":" with
    | [lv, st] =>
      match (if lv == "-" then some none else lv.toNat?.map some), parseNames st with
      | some lv, some st => some (.enterLoop lv st)
      | _, _ => none
    | _ => none
  else if s.startsWith "L" then (s.drop 1).toString.toNat?.map .bindLit
  else if s.startsWith "T" then (s.drop 1).toString.toNat?.map .bindTensor
  else if s.startsWith "U" then (s.drop 1).toString.toNat?.map .use
  else if s.startsWith "X:" then
    let body := (s.drop 2).toString
    if body == "" then some (.exit []) else ((body.splitOn ",").mapM (fun (t : String) => t.toNat?)).map .exit
  else none

/-- `scope <instr>*` with instr `L<n>` (n = literal) | `T<n>` (n = tensor expr) | `U<n>` (use n) | `E` (enter block) |
`X:<n>,<n>…` (leave block, these names are its outputs): the answers of `Converter._is_castable` at every use,
`1`/`0` (`u`: unbound), space separated.  Round 5: `F<lv|->:<state names>` (loop header + body scope), `XL:<names>` (end
of a loop), `XB:<names>` (end of a then/else block with these live outputs), `I:<names>` (end of the If statement);
`scope2` answers `ok`/`refused` (the modelled error branches, or an unbound use) before the observations. -/
def showObs (st : OV.Scope.St) : String :=
  " ".intercalate (st.obs.map (fun o => match o with
      | some true => "1" | some false => "0" | none => "u"))

def handleScope (rest : List String) : String :=
  match rest.mapM parseInstr with
  | some prog => showObs (OV.Scope.run prog)
  | none => "bad-op"

def handleScope2 (rest : List String) : String :=
  match rest.mapM parseInstr with
  | some prog =>
    let st := OV.Scope.run prog
    (if st.err || st.obs.contains none then "refused" else "ok") ++ " " ++ showObs st
  | none => "bad-op"

def parseParam (s : String) : Option OV.Call.Param :=
  match s.toList with
  | ['I', a, b] => some (.input (a == '1') (b == '1'))
  | ['A', a, b] => some (.attr (a == '1') (b == '1'))
  | _ => none

def showSrc : Option OV.Call.Src → String
  | some (.pos i) => s!"p{i}"
  | some (.kw i) => s!"k{i}"
  | none => "-"

/-- `sep <allowExtra 0/1> <n> <kws: i,j,…|-> <param>*` with param `I<variadic><required>` | `A<required><hasDefault>`:
`ok in=<src>,… attr=<param>:<src>,…` (src `p<i>` positional, `k<i>` keyword of parameter i, `-` placeholder)
or `ERR:missing` / `ERR:tooMany`. -/
def handleSep (rest : List String) : String :=
  match rest with
  | ae :: n :: kws :: ps =>
    let kwl : Option (List Nat) := if kws == "-" then some [] else (kws.splitOn ",").mapM (fun (t : String) => t.toNat?)
    match parseBit ae, n.toNat?, kwl, ps.mapM parseParam with
    | some ae, some n, some kwl, some ps =>
      match OV.Call.separate ps n kwl ae with
      | .ok r => "ok in=" ++ ",".intercalate (r.1.map showSrc) ++ " attr="
          ++ ",".intercalate (r.2.map (fun q => s!"{q.1}:{showSrc (some q.2)}"))
      | .error .missing => "ERR:missing"
      | .error .tooMany => "ERR:tooMany"
    | _, _, _, _ => "bad-op"
  | _ => "bad-op"

def handle (args : List String) : String :=
  match args with
  | "sep" :: rest => handleSep rest
  | "scope" :: rest => handleScope rest
  | "scope2" :: rest => handleScope2 rest
  | "cast" :: mode :: rest => handleCast mode rest
  | "cache" :: rest => handleCache rest
  | "hist" :: rest => handleHist rest
  | _ => "bad-op"

end OV.Drivers.C12

def main : IO Unit := OV.Drivers.run OV.Drivers.C12.handle
