import OV.Model.C05Order
import OV.Model.C05Unit
import OV.Model.C05Shape
import OV.Model.C05Linalg
import OV.Model.C05More
import OV.Model.C05Chain
import OV.Model.C09Shape
import OV.Drivers.Loop
/-! Line-protocol driver for C05: `C05 <family> key=value …` → `nofire` | `raise` | `fire <replacement> hyp=<0|1>`.
`hyp` is the model's own side condition under which the `_sound`/`_partial` theorem of the family applies
(`hyp=0` ⇔ the case lies in a recorded finding's region). -/
namespace OV.Drivers.C05
open OV.C05

def kv (args : List String) (k : String) : Option String :=
  args.findSome? (fun a => if a.startsWith (k ++ "=") then some (a.drop (k.length + 1)).toString else none)

def getS (args : List String) (k : String) : String := (kv args k).getD "-"

def parseIntList (s : String) : Option (List Int) :=
  if s == "." then some [] else (s.splitOn ",").mapM (fun t => t.toInt?)

def getInt (args : List String) (k : String) (dflt : Int := 0) : Int :=
  ((kv args k).bind (·.toInt?)).getD dflt

def getNat (args : List String) (k : String) (dflt : Nat := 0) : Nat := (getInt args k dflt).toNat

def getBool (args : List String) (k : String) : Bool := getS args k == "1"

def getOptInt (args : List String) (k : String) : Option Int := (kv args k).bind (·.toInt?)

def getOptInts (args : List String) (k : String) : Option (List Int) :=
  match kv args k with
  | none => none
  | some "-" => none
  | some s => parseIntList s

def parseRat (s : String) : Option Rat :=
  match s.splitOn "/" with
  | [n] => n.toInt?.map (fun i => (i : Rat))
  | [n, d] => do
    let n ← n.toInt?; let d ← d.toNat?
    if d == 0 then none else some ((n : Rat) / (d : Rat))
  | _ => none

def parseDim (t : String) : Shape.Dim :=
  if t == "?" then .unknown
  else match t.toNat? with
    | some n => .known n
    | none => .sym t

def parseShape (s : String) : Option Shape.Shape :=
  if s == "-" then none
  else if s == "." then some []
  else some ((s.splitOn ",").map parseDim)

def getShape (args : List String) (k : String) : Option Shape.Shape := parseShape (getS args k)

def showInts (l : List Int) : String := if l.isEmpty then "." else ",".intercalate (l.map toString)
def showNats (l : List Nat) : String := if l.isEmpty then "." else ",".intercalate (l.map toString)
def showOptInt : Option Int → String
  | some v => toString v
  | none => "-"
def b2s (b : Bool) : String := if b then "1" else "0"

/-! ### order family -/
def parseBound (s : String) : Order.Bound Int :=
  if s == "-" then .absent
  else if s == "n" then .dynamic
  else if s.startsWith "c" then ((s.drop 1).toString.toInt?.map .const).getD .dynamic
  else if s.startsWith "g" then ((s.drop 1).toString.toInt?.map .constInput).getD .dynamic
  else .dynamic

def showClip (o : Order.Outcome (Order.ClipRepl Int)) (hyp : Bool) : String :=
  match o with
  | .nofire => "nofire"
  | .raises => "raise"
  | .fire r => s!"fire lo={showOptInt r.lo} hi={showOptInt r.hi} hyp={b2s hyp}"

def parseMMConst (s : String) : Order.MMConst Int :=
  if s == "n" then .dynamic
  else match s.splitOn ":" with
    | [r, d] => match r.toNat?, (d.splitOn "/").mapM (·.toInt?) with
      | some r, some d => .const r d
      | _, _ => .dynamic
    | _ => .dynamic

def parseMMList (s : String) : List (Order.MMConst Int) :=
  if s == "." || s == "-" then [] else (s.splitOn ";").map parseMMConst

def parseKind (s : String) : Order.MMKind :=
  if s == "minMin" then .minMin else if s == "maxMax" then .maxMax else if s == "maxMin" then .maxMin else .minMax

/-! ### handlers -/
def parseScalar1 (s : String) : Shape.Scalar1 :=
  if s == "n" then .dynamic else if s == "o" then .sizeOther else (s.toInt?.map .one).getD .dynamic

def parseOptConstInts (s : String) : Linalg.OptConst (List Int) :=
  if s == "-" then .absent else if s == "n" then .dynamic else ((parseIntList s).map .const).getD .dynamic

def showU (o : Shape.Outcome Unit) (hyp : Bool) : String :=
  match o with
  | .nofire => "nofire" | .raises => "raise" | .fire _ => s!"fire hyp={b2s hyp}"

def fireIf (c : Bool) (hyp : Bool) (extra : String := "") : String :=
  if c then s!"fire {extra}hyp={b2s hyp}" else "nofire"

def handle1 (args : List String) : String :=
  match args with
  | "clipclip" :: a =>
    let p : Order.ClipClip Int := { a := parseBound (getS a "a"), b := parseBound (getS a "b"), c := parseBound (getS a "c"), d := parseBound (getS a "d"), dtype1 := getS a "dt1" != "0", dtype2 := getS a "dt2" != "0", opsetGe11 := !getBool a "old" }
    showClip p.run true
  | "cliprelu" :: a =>
    let p : Order.ReluClip Int := { a := parseBound (getS a "a"), b := parseBound (getS a "b"), dtype1 := getS a "dt1" != "0", opsetGe11 := !getBool a "old" }
    showClip (p.run 0) true
  | "reluclip" :: a =>
    let p : Order.ReluClip Int := { a := parseBound (getS a "a"), b := parseBound (getS a "b"), dtype1 := getS a "dt1" != "0", opsetGe11 := !getBool a "old" }
    showClip (p.runReluClip 0) true
  | "relurelu" :: _ => "fire hyp=1"
  | "minmax" :: a =>
    let p : Order.MinMax Int := { kind := parseKind (getS a "kind"), first := parseMMList (getS a "first"), second := parseMMList (getS a "second"), xRank := (getOptInt a "rx").map Int.toNat, opsetGe11 := !getBool a "old" }
    (match p.run with
     | .nofire => "nofire"
     | .raises => "raise"
     | .fire (.sameOp r d) => s!"fire same rank={r} data={showInts d} hyp={b2s (!getBool a "ginit")}"
     | .fire (.clip lo hi) => s!"fire clip lo={lo} hi={hi} hyp={b2s (!getBool a "ginit")}")
  | "unit" :: a =>
    let op : Unit.Op := match getS a "op" with | "add" => .add | "mul" => .mul | "sub" => .sub | _ => .div
    let origin : Unit.Origin := match getS a "origin" with
      | "init" => .initializer | "cnode" => .constantNode | "ginit" => .inputWithDefault | _ => .input
    (match parseRat (getS a "val") with
     | none => "badline"
     | some v =>
       let p : Unit.Params := { op := op, constOnLeft := getBool a "left", origin := origin, rank := getNat a "rank", value := v }
       fireIf p.check p.exact)
  | "dropout" :: a =>
    let p : Unit.Dropout := { zeroRule := getBool a "zero", ratioAttr := parseRat (getS a "ratio"), trainingModeAttr := getOptInt a "tm", nInputs := getNat a "nin", maskUsed := getBool a "mask" }
    fireIf p.check true
  | "bias" :: a =>
    let vals := if getS a "vals" == "." then some [] else ((getS a "vals").splitOn ",").mapM parseRat
    (match vals with
     | none => "badline"
     | some vs => fireIf (Unit.Bias.check { isConst := getBool a "const", values := vs }) true)
  | "notranspose" :: a =>
    (match getOptInts a "perm" with
     | some p => fireIf (Shape.noOpTransposeCheck p) true
     | none => "nofire")   -- attribute pattern `perm=perm` needs the attribute to be present
  | "transtrans" :: a =>
    (match getOptInts a "p1", getOptInts a "p2" with
     | some p1, some p2 =>
       (match Shape.transposeTransposeRun (p1.map Int.toNat) (p2.map Int.toNat) with
        | .nofire => "nofire" | .raises => "raise"
        | .fire .identity => "fire identity hyp=1"
        | .fire (.transpose p) => s!"fire perm={showNats p} hyp=1")
     | _, _ => "badline")
  | "unsq" :: a =>
    (match Shape.unsqueezeUnsqueezeRun (getOptInt a "v1") (getOptInt a "v2") with
     | .nofire => "nofire" | .raises => "raise"
     | .fire ax => s!"fire axes={showInts ax} hyp=1")
  | "sqreshape" :: a =>
    -- the pattern literal `[-1]` is matched by `_match_constant` (shape (1,), isclose — exact on ints)
    fireIf (getInt a "lit" (-1) == -1 && Shape.squeezeReshape1dCheck ((getOptInt a "rank").map Int.toNat)) true
  | "flatten" :: a =>
    (match Shape.flattenToReshapeRun (getShape a "x") (getInt a "axis" 1) (getShape a "out") with
     | .nofire => "nofire" | .raises => "raise"
     | .fire ns =>
       -- hyp of `flatten_to_reshape_sound_partial`: the input has no dimension known to be 0 (finding D6 otherwise)
       let ok := !((getShape a "x").getD []).any (· == .known 0)
       s!"fire shape={showInts ns} hyp={b2s ok}")
  | "reshape2" :: a =>
    (match Shape.reshapeReshapeRun (getOptInts a "shape") (getShape a "out") (getInt a "az" 0) with
     | .nofire => "nofire" | .raises => "raise"
     | .fire r => s!"fire shape={showInts r.shape} az={showOptInt r.allowzero} hyp=1")
  | "expandid" :: a => fireIf (Shape.noOpExpandCheck (getShape a "x") (getOptInts a "shape")) true
  | "materialize" :: a =>
    (match Shape.materializeReshapeRun (getBool a "const") (getShape a "out") with
     | .nofire => "nofire" | .raises => "raise"
     | .fire r =>
       let bad := r.shape.any (· == 0) && r.shape.any (· == -1)
       s!"fire shape={showInts r.shape} az={showOptInt r.allowzero} hyp={b2s (!bad)}")
  | "slice1" :: a =>
    showU (Shape.collapseSliceRun (getShape a "data") (parseScalar1 (getS a "st")) (parseScalar1 (getS a "en"))
      (parseScalar1 (getS a "ax")) (parseScalar1 (getS a "sp"))) true
  | "slice12" :: a =>
    -- RewriteRuleSet([collapse_slice_rule, collapse_slice2_rule]): the first rule whose check passes rewrites
    (match Shape.collapseSliceRun (getShape a "data") (parseScalar1 (getS a "st")) (parseScalar1 (getS a "en"))
        (parseScalar1 (getS a "ax")) (parseScalar1 (getS a "sp")) with
     | .raises => "raise"
     | .fire _ => "fire hyp=1"
     | .nofire => fireIf (Shape.collapseSlice2Check (getShape a "data") (getShape a "out") (getOptInts a "steps")) true)
  | "slice2" :: a => fireIf (Shape.collapseSlice2Check (getShape a "data") (getShape a "out") (getOptInts a "steps")) true
  | "scatter" :: a =>
    let idx : Option (List (List Int)) := match getS a "idx" with
      | "-" => none
      | "." => some []
      | s => (s.splitOn ";").mapM parseIntList
    showU (Shape.staticScatterRun (getS a "red" == "none" || getS a "red" == "-") (getShape a "data") (getShape a "upd") idx) true
  | "cast" :: a => fireIf (Linalg.noOpCastCheck ((getOptInt a "x").map Int.toNat) (getNat a "to")) true
  | "castcast" :: a =>
    fireIf (Linalg.castCastCheck ((getOptInt a "x").map Int.toNat) (getNat a "t2") (getNat a "t3")) true s!"to={getNat a "t3"} "
  | "gemm" :: a =>
    let ro (k : String) : Option Nat := (getOptInt a k).map Int.toNat
    let cs : Option (List Nat) := (getOptInts a "c").map (·.map Int.toNat)
    fireIf (Linalg.matmulAddCheck (ro "ra") (ro "rb") (getNat a "m") (getNat a "n") cs) true s!"transA={getS a "ta"} transB={getS a "tb"} "
  | "padconv" :: a =>
    let cv : Linalg.OptConst Int := match getS a "cv" with
      | "-" => .absent | "n" => .dynamic | s => ((s.toInt?).map .const).getD .dynamic
    let p : Linalg.PadConv := { xRank := (getOptInt a "rank").map Int.toNat, mode := (kv a "mode").bind (fun m => if m == "-" then none else some m), pads := parseOptConstInts (getS a "pads"), constantValue := cv, cvIsZero := getS a "cvz" != "0", axes := parseOptConstInts (getS a "axes"), autoPad := getS a "autopad", convPads := getOptInts a "cpads", zeroPoint := (match getS a "zp" with | "-" => .absent | "n" => .dynamic | t => ((t.toInt?).map .const).getD .dynamic) }
    (match Linalg.padConvRun p with
     | .nofire => "nofire" | .raises => "raise"
     | .fire pads => s!"fire pads={showInts pads} hyp=1")
  | "normpad" :: a =>
    let nats (k : String) : List Nat := ((getOptInts a k).getD []).map Int.toNat
    let p : Linalg.NormPad := { autoPad := (kv a "ap").bind (fun m => if m == "-" then none else some m), inShape := getShape a "in", outShape := getShape a "out", kernel := nats "k", strides := nats "s", dilations := nats "dil", padsAttr := getOptInts a "pads" }
    (match Linalg.normPadRun p with
     | .nofire => "nofire" | .raises => "raise"
     | .fire r =>
       s!"fire pads={match r.pads with | some l => showInts l | none => "-"} hyp=1")
  | "bn" :: a =>
    let flags : List Linalg.InitFlags := ((getS a "flags").splitOn ";").map (fun t =>
      let cs := t.toList
      { isInitializer := cs.getD 0 '0' == '1', hasConst := cs.getD 1 '0' == '1', isGraphInput := cs.getD 2 '0' == '1' })
    let p : Linalg.BatchNorm := { inits := flags, sharedOutside := getBool a "shared", inChannelsModGroup := getNat a "mod", gemmBetaIsOne := getS a "beta1" != "0", trainingMode := getBool a "train" }
    fireIf (Linalg.batchNormCheck p) true
  | "expandbin" :: a =>
    -- all three strategies of `_check_expand_removable`: the shared model `OV.C09.expandRemovable` (restated once, by C09);
    -- for a constant target it is cross-checked against C05's own strategy-1 model (the one the value theorem talks about)
    let c9 (t : String) : OV.C09.Dim := if t == "?" then .unknown else match t.toInt? with | some n => .known n | none => .sym t
    let c9shape (k : String) : Option OV.C09.Shape :=
      match getS a k with
      | "-" => none
      | "." => some []
      | sh => some ((sh.splitOn ",").map c9)
    let const := getOptInts a "e"
    let v := OV.C09.expandRemovable (c9shape "x") (c9shape "y") const (c9shape "eo") (c9shape "bo")
    let side : Nat := if getBool a "second" then 1 else 0
    let fires := OV.C09.expandRuleFires (getS a "op") side true v
    let agree := match const with
      | some e => Linalg.expandRemovableConst (getShape a "x") (getShape a "y") e == v.removable
      | none => true
    if !agree then "modelsdisagree" else fireIf fires true
  | "mmreshape" :: a =>
    let p : More.MatmulReshape := { a := getShape a "a", b := getShape a "b", shapeC := getOptInts a "c", shapeCRank1 := getS a "c1" != "0" }
    fireIf (More.matmulReshapeCheck p) true
  | "gemm2mm" :: a =>
    let core : More.MatmulReshape := { a := getShape a "a", b := getShape a "b", shapeC := getOptInts a "c", shapeCRank1 := getS a "c1" != "0" }
    let p : More.GemmToMatmul := { core := core, alphaAttr := parseRat (getS a "alpha"), betaAttr := parseRat (getS a "beta"), transA := getBool a "ta", transB := getBool a "tb" }
    fireIf (More.gemmToMatmulCheck p) true
  | "hardsig" :: a =>
    let p : More.HardSig := { clipMin := parseRat (getS a "cmin"), clipMax := parseRat (getS a "cmax"), bias := parseRat (getS a "bias"), divisor := parseRat (getS a "div") }
    fireIf p.check p.exact
  | "hsw2" :: a => fireIf (More.hardSwishFromSigmoidCheck (parseRat (getS a "alpha")) (parseRat (getS a "beta"))) true
  | "convaffine" :: a =>
    fireIf (More.ConvAffine.check { wConst := getBool a "w", bConst := getBool a "b", scaleSingleton := getBool a "s", offsetSingleton := getBool a "o", padsZeroAttr := getS a "pads" != "0" }) true
  | "dynscatter" :: a => showU (More.dynScatterRun (getOptInt a "axis") (getShape a "data") (getShape a "t")) true
  | "slicesplit" :: a =>
    let p : More.SliceSplit := { xShape := getShape a "x", axes0 := getOptInts a "a0", axes1 := getOptInts a "a1", begin0 := getOptInts a "b0", end0 := getOptInts a "e0", begin1 := getOptInts a "b1", end1 := getOptInts a "e1", opsetGe18 := getS a "lt18" != "1" }
    fireIf (More.sliceSplitFires p.check (getBool a "hifirst")) true
  | "norm" :: a =>
    let kind : More.NormKind := match getS a "kind" with | "ln" => .layerNorm | "lnbias" => .layerNormBias | _ => .rmsNorm
    let on (k : String) : Option Nat := (getOptInt a k).map Int.toNat
    let p : More.NormFusion := { kind := kind, xDtype := on "x", scaleDtype := on "sc", epsSingleton := getBool a "eps1", epsIsFloat := getS a "epsf" != "0", computeDtype := on "cd", xRank := on "xr", otherRank := on "or", opset := getNat a "opset" }
    (match p.run with
     | .fire r => s!"fire stash={match r.stashType with | some t => toString t | none => "-"} hyp={b2s p.hyp}"
     | .raises => "raise"
     | .nofire => "nofire")
  | "ccos" :: a =>
    (match More.castConstantOfShapeRun (getNat a "to") (parseRat (getS a "val")) with
     | .fire t => s!"fire to={t} hyp=1"
     | .raises => "raise"
     | .nofire => "nofire")
  | _ => "badline"

/-! ### rule-set driver on a chain host (`OV.Model.C05Chain`) -/
def parseOpd (s : String) : Chain.Opd Int :=
  if s == "-" then .absent
  else if s == "n" then .dyn 0
  else if s.startsWith "c" then ((s.drop 1).toString.toInt?.map .const).getD (.dyn 0)
  else if s.startsWith "g" then ((s.drop 1).toString.toInt?.map .ginit).getD (.dyn 0)
  else .dyn 0

def parseMOpd (s : String) : Chain.MOpd Int :=
  if s.startsWith "c" then ((s.drop 1).toString.toInt?.map .const).getD (.dyn 0) else .dyn 0

def parseCOp (s : String) : Option (Chain.COp Int) :=
  match s.splitOn ":" with
  | ["R"] => some .relu
  | ["C", lo, hi] => some (.clip (parseOpd lo) (parseOpd hi))
  | ["N", c] => some (.mn (parseMOpd c))
  | ["X", c] => some (.mx (parseMOpd c))
  | _ => none

def showOpd : Chain.Opd Int → String
  | .absent => "-" | .const v => s!"c{v}" | .ginit v => s!"g{v}" | .dyn _ => "n"
def showMOpd : Chain.MOpd Int → String
  | .const v => s!"c{v}" | .dyn _ => "n"
def showCOp : Chain.COp Int → String
  | .relu => "R" | .clip lo hi => s!"C:{showOpd lo}:{showOpd hi}" | .mn c => s!"N:{showMOpd c}" | .mx c => s!"X:{showMOpd c}"
def showChain (l : List (Chain.Node Int)) : String :=
  ";".intercalate (l.map (fun n => showCOp n.op ++ (if n.shared then "*" else "")))

/-- `chain ops=<op;op;…> sh=<0|1,…> order=<permutation of 0..7>`: two successive `apply_to_model` calls of one rule set. -/
def handleChain (a : List String) : String :=
  let ops := ((getS a "ops").splitOn ";").mapM parseCOp
  let sh := (parseIntList (getS a "sh")).getD []
  let order := (parseIntList (getS a "order")).getD [0, 1, 2, 3, 4, 5, 6, 7]
  match ops with
  | none => "badline"
  | some ops =>
    if sh.length != ops.length then "badline" else
    let all := Chain.chainRules (0 : Int)
    let rules := order.filterMap (fun i => all[i.toNat]?)
    let chain : List (Chain.Node Int) := (ops.zip sh).map (fun (o, s) => { op := o, shared := s != 0 })
    let n1 := Chain.count rules chain
    let r1 := Chain.sweep rules chain
    let n2 := Chain.count rules r1
    let r2 := Chain.sweep rules r1
    if n1 == 0 then "nofire" else s!"fire n={n1} n2={n2} ops={showChain r2} hyp=1"

/-- Rules with `remove_nodes=True` whose pattern has an inner node: the matcher (`_valid_to_replace`) rejects the
match when an inner value is a graph output or has a consumer outside the match — before `check()` runs. -/
def multiNodeRemoving : List String :=
  ["clipclip", "cliprelu", "reluclip", "relurelu", "minmax", "castcast", "transtrans", "unsq", "reshape2", "gemm", "bn", "mmreshape", "gemm2mm", "hardsig", "hsw2", "convaffine", "ccos", "norm"]

def handle (args : List String) : String :=
  match args with
  | "chain" :: a => handleChain a
  | fam :: a => if getBool a "extra" && multiNodeRemoving.contains fam then "nofire" else handle1 args
  | [] => "badline"

end OV.Drivers.C05

def main : IO Unit := OV.Drivers.run OV.Drivers.C05.handle
