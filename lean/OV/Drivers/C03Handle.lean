import OV.Model.C03Pass
import OV.Model.C03Frag
import OV.Model.C03Dce
import OV.Drivers.Loop
/-! Line-protocol driver for C03/C04.

`C03 fold L=<n> M=<n> SF=<N|T|F> FN=<0|1> IMP <k> (dom ver)* TOK <k> cinfo* ORA <k> (key cinfo)* VI <k> (name dtype shape tok)* <graph>`

* `cinfo := tok dtype shape ints isZero` (`tok = !F` in an ORA entry: evaluation failed)
* `shape := ? | - | d,d,…` with `d := <int> | s:<name> | u`;  `ints := ? | - | i,i,…`
* `graph := G <n> in* <n> (name tok)* <n> node* <n> out*`
* `node := N op dom <n> (name|-)* <n> out* <n> attr* <n> (key graph)*`, `attr := k=i:<int> | k=is:<ints> | k=t:<tok> | k=o:<id> | k=r:<ref>`
* the empty string (default domain, skipped optional output) is written `~`.

Answer: `OK mod=<0|1> err=<-|msg> prune=<0|1> NEED <k> key* HIST <k> h* <graph>` (`prune`: nothing popped by
`_clear_unused_initializers` is still referenced in the result).  The first `HIST` token is `thm:fragmentA` when the case
satisfies every mechanically checkable hypothesis of `fold_fragmentA_preserves` (`inTheoremFragment`, OV/Model/C03Frag.lean).

`C03 dce OPS=<0|1> SCH <k> (op flags)* <graph>` — `RemoveUnusedNodesPass` (OV/Model/C03Dce.lean); `OPS`: the main graph has an
opset import for the default domain; `flags := ? | - | f,f,…` (`?`: get_schema raised; 0 Single, 1 Optional, 2 Variadic).
Answer: `OK mod=<0|1> cnt=<n> HIST <k> h* <graph>`; the first `HIST` token is `thm:dce` when the case satisfies `dceFragB`
(the structural hypothesis of `dce_refines`).
-/
namespace OV.Drivers.C03
open OV.C03

abbrev P (α : Type) := List String → Option (α × List String)

def tok1 : P String
  | [] => none
  | t :: r => some (t, r)

def unq (s : String) : String := if s == "~" then "" else s
def q (s : String) : String := if s == "" then "~" else s

def pNat : P Nat := fun ts => match ts with
  | t :: r => t.toNat?.map (·, r)
  | [] => none

def pMany {α} (p : P α) : Nat → P (List α)
  | 0, ts => some ([], ts)
  | k + 1, ts => match p ts with
    | none => none
    | some (a, ts) => match pMany p k ts with
      | none => none
      | some (as, ts) => some (a :: as, ts)

def pCounted {α} (p : P α) : P (List α) := fun ts =>
  match pNat ts with
  | none => none
  | some (k, ts) => pMany p k ts

def parseIntsList (s : String) : Option (List Int) :=
  if s == "-" || s == "" then some [] else (s.splitOn ",").mapM (·.toInt?)

def parseOptInts (s : String) : Option (Option (List Int)) :=
  if s == "?" then some none else (parseIntsList s).map some

def parseDim (s : String) : Option Dim :=
  if s == "u" then some .unk
  else if s.startsWith "s:" then some (.sym (s.drop 2).toString)
  else s.toInt?.map .known

def parseShape (s : String) : Option (Option (List Dim)) :=
  if s == "?" then some none
  else if s == "-" then some (some [])
  else ((s.splitOn ",").mapM parseDim).map some

def parseOptBool (s : String) : Option Bool := if s == "1" then some true else if s == "0" then some false else none

def pCInfo : P CInfo := fun ts =>
  match ts with
  | t :: dt :: sh :: is :: z :: r =>
    match dt.toNat?, parseIntsList sh, parseOptInts is with
    | some dt, some sh, some is => some ({ tok := t, dtype := dt, shape := sh.map Int.toNat, ints := is, isZero := parseOptBool z }, r)
    | _, _, _ => none
  | _ => none

def pOracle : P (String × Oracle) := fun ts =>
  match ts with
  | key :: r =>
    match pCInfo r with
    | some (c, r) => some ((key, if c.tok == "!F" then Oracle.fail else Oracle.single c), r)
    | none => none
  | [] => none

def pImport : P (String × Nat) := fun ts =>
  match ts with
  | d :: v :: r => v.toNat?.map fun v => ((unq d, v), r)
  | _ => none

def pVI (toks : List (String × CInfo)) : P (Name × VInfo) := fun ts =>
  match ts with
  | x :: dt :: sh :: c :: r =>
    match parseShape sh with
    | some sh => some ((unq x, { dtype := dt.toNat?, shape := sh, const := if c == "-" then none else lookupA toks c }), r)
    | none => none
  | _ => none

def parseAttr (s : String) : Option (String × Attr) :=
  match s.splitOn "=" with
  | k :: rest =>
    let v := "=".intercalate rest
    if v.startsWith "i:" then (v.drop 2).toString.toInt?.map fun i => (k, Attr.int i)
    else if v.startsWith "is:" then (parseIntsList (v.drop 3).toString).map fun l => (k, Attr.ints l)
    else if v.startsWith "t:" then some (k, Attr.tensor (v.drop 2).toString)
    else if v.startsWith "o:" then some (k, Attr.opaque (v.drop 2).toString)
    else if v.startsWith "r:" then some (k, Attr.ref (v.drop 2).toString)
    else none
  | [] => none

def pAttr : P (String × Attr) := fun ts => match ts with
  | t :: r => (parseAttr t).map (·, r)
  | [] => none

def pName : P Name := fun ts => match ts with
  | t :: r => some (unq t, r)
  | [] => none

def pOptName : P (Option Name) := fun ts => match ts with
  | t :: r => some (if t == "-" then none else some (unq t), r)
  | [] => none

def pInit : P (Name × String) := fun ts => match ts with
  | x :: t :: r => some ((unq x, t), r)
  | _ => none

mutual
def pGraph : Nat → P Graph
  | 0, _ => none
  | f + 1, ts =>
    match ts with
    | "G" :: ts =>
      match pCounted pName ts with
      | none => none
      | some (ins, ts) =>
        match pCounted pInit ts with
        | none => none
        | some (inits, ts) =>
          match pCounted (pNode f) ts with
          | none => none
          | some (nodes, ts) =>
            match pCounted pName ts with
            | none => none
            | some (outs, ts) => some (Graph.mk ins inits nodes outs, ts)
    | _ => none
def pNode : Nat → P Node
  | 0, _ => none
  | f + 1, ts =>
    match ts with
    | "N" :: op :: dom :: ts =>
      match pCounted pOptName ts with
      | none => none
      | some (ins, ts) =>
        match pCounted pName ts with
        | none => none
        | some (outs, ts) =>
          match pCounted pAttr ts with
          | none => none
          | some (attrs, ts) =>
            match pCounted (pSub f) ts with
            | none => none
            | some (subs, ts) => some (Node.mk op (unq dom) ins outs attrs subs, ts)
    | _ => none
def pSub : Nat → P (String × Graph)
  | 0, _ => none
  | f + 1, ts =>
    match ts with
    | k :: ts => match pGraph f ts with
      | some (g, ts) => some ((k, g), ts)
      | none => none
    | [] => none
end

def kv (pre : String) (s : String) : Option String :=
  if s.startsWith pre then some (s.drop pre.length).toString else none

structure Case where
  ctx : Ctx
  info : List (Name × VInfo)
  g : Graph

def parseCase (ts : List String) : Option Case :=
  match ts with
  | l :: m :: sf :: fn :: "IMP" :: ts =>
    match (kv "L=" l).bind (·.toNat?), (kv "M=" m).bind (·.toNat?), kv "SF=" sf, kv "FN=" fn with
    | some l, some m, some sf, some fn =>
      match pCounted pImport ts with
      | some (imps, "TOK" :: ts) =>
        match pCounted pCInfo ts with
        | some (cinfos, "ORA" :: ts) =>
          let toks := cinfos.map fun c => (c.tok, c)
          match pCounted pOracle ts with
          | some (ora, "VI" :: ts) =>
            match pCounted (pVI toks) ts with
            | some (vis, ts) =>
              match pGraph (ts.length + 1) ts with
              | some (g, []) =>
                some { ctx := { inLimit := l, outLimit := m,
                                shouldFold := if sf == "T" then some true else if sf == "F" then some false else none,
                                imports := imps, isFunction := fn == "1", toks := toks, oracle := ora },
                       info := vis, g := g }
              | _ => none
            | _ => none
          | _ => none
        | _ => none
      | _ => none
    | _, _, _, _ => none
  | _ => none

/-! printing -/

def showOptName : Option Name → String
  | none => "-"
  | some x => q x

mutual
def showGraph : Nat → Graph → List String
  | 0, _ => ["G?"]
  | f + 1, g =>
    ["G", toString g.inputs.length] ++ g.inputs.map q ++
    [toString g.inits.length] ++ g.inits.flatMap (fun (x, t) => [q x, t]) ++
    [toString g.nodes.length] ++ g.nodes.flatMap (showNode f) ++
    [toString g.outputs.length] ++ g.outputs.map q
def showNode : Nat → Node → List String
  | 0, _ => ["N?"]
  | f + 1, n =>
    ["N", n.op, q n.domain, toString n.inputs.length] ++ n.inputs.map showOptName ++
    [toString n.outputs.length] ++ n.outputs.map q ++
    [toString n.attrs.length] ++ n.attrs.map showAttr ++
    [toString n.subs.length] ++ n.subs.flatMap (fun (k, g) => k :: showGraph f g)
end

def sanitize (s : String) : String := s.map fun c => if c == ' ' then '_' else c

/-- does the name occur as a node input or a graph output anywhere in the graph (all nesting levels)? -/
def occursIn : Nat → Graph → Name → Bool
  | 0, _, _ => true
  | f + 1, g, x => g.outputs.contains x ||
      g.nodes.any fun n => n.inputs.contains (some x) || n.subs.any fun s => occursIn f s.2 x

/-- the side condition `hprune` of `fold_fragmentA_preserves_partial`, evaluated on the result -/
def pruneOk (st : St) (g0 g' : Graph) : Bool :=
  st.removed.all fun x => !g0.inputs.contains x && !occursIn 16 g' x

def pSchema : P (String × Option (List Nat)) := fun ts =>
  match ts with
  | op :: fl :: r =>
    if fl == "?" then some ((op, none), r)
    else (parseIntsList fl).map fun l => ((op, some (l.map Int.toNat)), r)
  | _ => none

def handle (args : List String) : String :=
  match args with
  | "fold" :: ts =>
    match parseCase ts with
    | none => "bad-case"
    | some c =>
      let (st, g') := if c.ctx.isFunction then foldFunction c.ctx c.info c.g else foldGraph c.ctx c.info c.g
      " ".intercalate (
        ["OK", "mod=" ++ (if st.modified then "1" else "0"),
         "err=" ++ (match st.err with | some e => sanitize e | none => "-"),
         "prune=" ++ (if pruneOk st c.g g' then "1" else "0"),
         "NEED", toString st.need.length] ++ st.need.reverse ++
        (let hist := (if inTheoremFragment c.ctx.isFunction c.info c.g then ["thm:fragmentA"] else []) ++ st.hist.reverse
         ["HIST", toString hist.length] ++ hist) ++ showGraph 64 g')
  | "dce" :: ops :: "SCH" :: ts =>
    match pCounted pSchema ts with
    | some (sch, ts) =>
      match pGraph (ts.length + 1) ts with
      | some (g, []) =>
        let (o, g') := dcePass { schema := sch } (ops == "OPS=1") g
        let hist := (if dceFragB g then ["thm:dce"] else []) ++ o.hist.reverse
        " ".intercalate (["OK", "mod=" ++ (if o.count != 0 then "1" else "0"), "cnt=" ++ toString o.count,
          "HIST", toString hist.length] ++ hist ++ showGraph 64 g')
      | _ => "bad-case"
    | none => "bad-case"
  | _ => "bad-op"

end OV.Drivers.C03

