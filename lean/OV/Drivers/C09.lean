import OV.Model.C09Shape
import OV.Drivers.Loop
/-! Line-protocol driver for C09.  `C09 <op> <args…>`.
Encodings: dim `k<int>` | `s<name>` | `u`; shape = dims joined by `,`, `-` = rank 0, `N` = no shape;
int list joined by `,`, `-` = empty, `N` = absent. -/
namespace OV.Drivers.C09
open OV.C09

def parseDim (t : String) : Option Dim :=
  if t == "u" then some .unknown
  else if t.startsWith "k" then (t.drop 1).toString.toInt?.map .known
  else if t.startsWith "s" then some (.sym (t.drop 1).toString)
  else none

/-- `none` = parse error; `some none` = `N`. -/
def parseOShape (t : String) : Option (Option Shape) :=
  if t == "N" then some none
  else if t == "-" then some (some [])
  else ((t.splitOn ",").mapM parseDim).map some

def parseShape (t : String) : Option Shape :=
  match parseOShape t with
  | some (some s) => some s
  | _ => none

def parseOInts (t : String) : Option (Option (List Int)) :=
  if t == "N" then some none
  else if t == "-" then some (some [])
  else ((t.splitOn ",").mapM (fun (x : String) => x.toInt?)).map some

def parseInts (t : String) : Option (List Int) :=
  match parseOInts t with
  | some (some l) => some l
  | _ => none

def parseOInt (t : String) : Option (Option Int) :=
  if t == "N" then some none else t.toInt?.map some

def showDim : Dim → String
  | .known n => s!"k{n}"
  | .sym s => s!"s{s}"
  | .unknown => "u"

def showShape (s : Shape) : String := if s.isEmpty then "-" else ",".intercalate (s.map showDim)
def showOShape : Option Shape → String
  | none => "N"
  | some s => showShape s
def showInts (l : List Int) : String := if l.isEmpty then "-" else ",".intercalate (l.map toString)
def showOInts : Option (List Int) → String
  | none => "N"
  | some l => showInts l
def showB (b : Bool) : String := if b then "T" else "F"

def showVerdict : ExpandVerdict → String
  | .noShapes => "noshapes"
  | .ok1 => "ok1" | .fail1 i => s!"fail1:{i}" | .rank1 => "rank1"
  | .ok2 => "ok2" | .fail2 i => s!"fail2:{i}" | .rank2 => "rank2"
  | .ok3 => "ok3" | .fail3 => "fail3"
  | .noInfo => "noinfo"

def showSymConst : Option SymConst → String
  | none => "none"
  | some r => showOShape r.sym ++ " " ++ showOInts r.const

def parsePairs : List String → Option (List (Option Shape × Option Shape))
  | [] => some []
  | a :: b :: t => do
    let a ← parseOShape a; let b ← parseOShape b; let r ← parsePairs t
    pure ((a, b) :: r)
  | _ => none

def handle (args : List String) : String :=
  let bad := "ERR:parse"
  match args with
  | ["sameShapeFold", a, b] =>
    (match parseShape a, parseShape b with
     | some a, some b => showB (sameShapeFold a b) | _, _ => bad)
  | ["sameShape", a, b] =>
    (match parseOShape a, parseOShape b with
     | some a, some b => showB (sameShape a b) | _, _ => bad)
  | ["sameDim", a, b] =>
    (match parseDim a, parseDim b with
     | some a, some b => showB (sameDim a b) | _, _ => bad)
  | ["getDim", s, i] =>
    (match parseOShape s, i.toInt? with
     | some s, some i => (match getDim s i with | some d => showDim d | none => "N") | _, _ => bad)
  | ["merge", a, b] =>
    (match parseOShape a, parseOShape b with
     | some a, some b => (match mergeShapes a b with | .ok r => showOShape r | .error _ => "RAISE")
     | _, _ => bad)
  | ["bcastDim", a, b] =>
    (match parseDim a, parseDim b with
     | some a, some b => (match bcastDim a b with | some d => showDim d | none => "N") | _, _ => bad)
  | ["bcastShape", a, b] =>
    (match parseShape a, parseShape b with
     | some a, some b => showOShape (bcastShape a b) | _, _ => bad)
  | ["dimsSuff", e, x, y] =>
    (match parseShape e, parseShape x, parseShape y with
     | some e, some x, some y =>
       (match dimsSufficient e x y with | .ok => "ok" | .rankFail => "fail:rank" | .dimFail i => s!"fail:{i}")
     | _, _, _ => bad)
  | ["expandRemovable", x, y, c, eo, bo] =>
    (match parseOShape x, parseOShape y, parseOInts c, parseOShape eo, parseOShape bo with
     | some x, some y, some c, some eo, some bo => showVerdict (expandRemovable x y c eo bo)
     | _, _, _, _, _ => bad)
  | ["ruleFires", op, side, us, x, y, c, eo, bo] =>
    (match side.toNat?, parseOShape x, parseOShape y, parseOInts c, parseOShape eo, parseOShape bo with
     | some side, some x, some y, some c, some eo, some bo =>
       showB (expandRuleFires op side (us == "1") (expandRemovable x y c eo bo))
     | _, _, _, _, _, _ => bad)
  | ["evShape", s, st, en] =>
    (match parseOShape s, st.toInt?, parseOInt en with
     | some s, some st, some en => showSymConst (evalShape s st en) | _, _, _ => bad)
  | ["evSize", s] =>
    (match parseOShape s with
     | some s => (match evalSize s with | some n => toString n | none => "none") | _ => bad)
  | ["evGather", s, ax, idx] =>
    (match parseOShape s, parseOInt ax, parseOInts idx with
     | some s, some ax, some idx =>
       (match evalGather s ax idx with | .raised => "RAISE" | .ret r => showSymConst r)
     | _, _, _ => bad)
  | ["evAdd", a, b] =>
    (match parseOShape a, parseOShape b with
     | some a, some b => showOShape (evalAdd a b) | _, _ => bad)
  | ["evAbs", a] =>
    (match parseOShape a with | some a => showB (evalAbs a) | _ => bad)
  | ["evReshape", i, v, s] =>
    (match parseOShape i, parseOShape v, parseOShape s with
     | some i, some v, some s => let r := evalReshape i v s; showB r.identity ++ " " ++ showOShape r.sym
     | _, _, _ => bad)
  | ["evSqueeze", s] =>
    (match parseOShape s with | some s => showOShape (evalSqueeze s) | _ => bad)
  | ["evExpand", i, kind, c, t] =>
    -- kind: `c` constant 1-D, `m` constant of other rank, `n` not a constant
    (match parseOShape i, parseOInts c, parseOShape t with
     | some i, some c, some t =>
       let ct : Option (Option (List Int)) :=
         if kind == "c" then some c else if kind == "m" then some none else none
       showB (evalExpand i ct t)
     | _, _, _ => bad)
  | "evConcat" :: ax :: rest =>
    (match parseOInt ax, parsePairs rest with
     | some ax, some ins =>
       (match evalConcat ins ax with
        | .identity k => s!"identity:{k}"
        | .concat keep => "concat:" ++ ",".intercalate (keep.map toString)
        | .sym s => "sym:" ++ showShape s
        | .nothing => "none")
     | _, _ => bad)
  | ["evIdentity", gi, i, o] =>
    (match parseOShape i, parseOShape o with
     | some i, some o => showOShape (evalIdentity (gi == "1") i o) | _, _ => bad)
  | ["materialize", o, c] =>
    (match parseOShape o with
     | some o => showOInts (materialize o (c == "1")) | _ => bad)
  | ["flatten", i, o, ax] =>
    (match parseOShape i, parseOShape o, ax.toInt? with
     | some i, some o, some ax => showOInts (flattenTarget i o ax) | _, _, _ => bad)
  | ["expandIdentityRule", x, c] =>
    (match parseOShape x, parseOInts c with
     | some x, some c => showB (expandIdentityRule x c) | _, _ => bad)
  | ["scatterDyn", st, ax, d, t] =>
    (match parseOInt st, parseOInt ax, parseOShape d, parseOShape t with
     | some st, some ax, some d, some t => showB (scatterAllDynamic st ax d t) | _, _, _, _ => bad)
  | ["scatterStatic", red, d, u, idx] =>
    (match parseOShape d, parseOShape u with
     | some d, some u =>
       let rows : Option (Option (List (List Int))) :=
         if idx == "N" then some none
         else if idx == "-" then some (some [])
         else ((idx.splitOn ";").mapM parseInts).map some
       (match rows with
        | some r => showB (scatterAllStatic (red == "1") d u r)
        | none => bad)
     | _, _ => bad)
  | ["redundantSlice", st, en, ax, sp, d] =>
    (match parseOInt st, parseOInt en, parseOInt ax, parseOInt sp, parseOShape d with
     | some st, some en, some ax, some sp, some d => showB (redundantSlice st en ax sp d)
     | _, _, _, _, _ => bad)
  | ["sliceSameShape", d, o, sp] =>
    (match parseOShape d, parseOShape o, parseOInts sp with
     | some d, some o, some sp => showB (sliceSameShape d o sp) | _, _, _ => bad)
  | ["reshapeReshape", sh, o, az] =>
    (match parseOInts sh, parseOShape o, az.toInt? with
     | some sh, some o, some az =>
       (match reshapeReshape sh o az with
        | .raised => "RAISE"
        | .ret none => "N"
        | .ret (some (t, a)) => showInts t ++ (if a then " az1" else " az0"))
     | _, _, _ => bad)
  | ["squeezeReshape", x] =>
    (match parseOShape x with | some x => showB (squeezeReshape1d x) | _ => bad)
  | ["getShapeValue", kind, i64, nd, vals, sym] =>
    (match nd.toNat?, parseInts vals, parseOShape sym with
     | some nd, some vals, some sym =>
       let c : Option ConstInfo := if kind == "c" then some ⟨i64 == "1", nd, vals⟩ else none
       showOShape (getShapeValue c sym)
     | _, _, _ => bad)
  | ["broadcast", a, b] =>
    (match parseInts a, parseInts b with
     | some a, some b => showOInts (broadcast a b) | _, _ => bad)
  | ["reshape", i, t, az] =>
    (match parseInts i, parseInts t with
     | some i, some t => showOInts (reshapeTarget i t (az == "1")) | _, _ => bad)
  | ["noOp", op, side, nd, neutral] =>
    (match side.toNat?, nd.toNat? with
     | some side, some nd =>
       let o : Option NoOp := if op == "Mul" then some .mul1 else if op == "Add" then some .add0
         else if op == "Sub" then some .sub0 else if op == "Div" then some .div1 else none
       (match o with | some o => showB (noOpFires o side nd (neutral == "1")) | none => bad)
     | _, _ => bad)
  | ["gatherSpec", l, idx] =>
    (match parseInts l, parseInts idx with
     | some l, some idx => showOInts (onnxGatherAxis0 l idx) | _, _ => bad)
  | ["flattenSpec", i, ax] =>
    (match parseInts i, ax.toNat? with
     | some i, some ax => showInts (flattenSpec i ax) | _, _ => bad)
  | ["shapeSlice", i, st, en] =>
    (match parseInts i, st.toInt?, parseOInt en with
     | some i, some st, some en => showInts (onnxShapeSlice i st en) | _, _, _ => bad)
  | _ => "ERR:op"

end OV.Drivers.C09

def main : IO Unit := OV.Drivers.run OV.Drivers.C09.handle
