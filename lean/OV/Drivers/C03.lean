import OV.Drivers.C03Handle
/-! Executable `drv_c03` (line protocol documented in `OV/Drivers/C03Handle.lean`); serves C03 and C04. -/
def main : IO Unit := OV.Drivers.run OV.Drivers.C03.handle
