import OV.Model.C06Match
import OV.Model.C06Exc
import OV.Model.C06Rule
import OV.Model.C06Spec
import OV.Model.C06Commute
import OV.Drivers.Loop
/-! Line-protocol driver for C06.

`C06 <mode> <rm> <root> <pattern> <graph>`  with mode ∈ impl | implx | spec | commute.
Tokens (no spaces inside a token; `_` = None / absent; strings from `[A-Za-z0-9.]*`):

pattern := `P` cond nin name* nnodes node* nout vpat*
node    := `N` strpat(domain) strpat(op) aoa aoi check ni input* na (name apat)* no name*
input   := `-` | vpat
vpat    := `V:id:name:isVar:canNone:check` | `A` | `K:id:s:<int>` | `K:id:l:<ints>` | `O:np:idx`
         | `D:id:name:tagvar:<dom;op;tag;np;idx>/…` | `B:id:name:tagvar:k` (`t:<int>` vpat){k}
strpat  := `e:<s>` | `p:<s>`
apat    := `c:n:<int>` | `c:s:<s>` | `c:ns:<ints>` | `c:ss:<strs>` | `v:name:canNone`
graph   := `G` nn gnode* ngout vid* nc (vid shape data)* nf vid* nx vid*
gnode   := `M` dom op overload ni (vid|-)* na (name ty:val)* no vid*
-/
namespace OV.Drivers.C06
open OV.C06

abbrev Parser := StateT (List String) Option

def tok : Parser String := do
  match (← get) with
  | [] => failure
  | t :: ts => set ts; pure t

def optS (s : String) : Option String := if s == "_" then none else some s
def optB (s : String) : Option Bool := if s == "1" then some true else if s == "0" then some false else none
def isTrue (s : String) : Bool := s == "1"

def pNat : Parser Nat := do
  match (← tok).toNat? with
  | some n => pure n
  | none => failure

def pInts (s : String) : Option (List Int) :=
  if s == "" then some [] else (s.splitOn ",").mapM (fun t => t.toInt?)
def pNats (s : String) : Option (List Nat) :=
  if s == "" || s == "-" then some [] else (s.splitOn ",").mapM (fun t => t.toNat?)
def pStrs (s : String) : List String := if s == "" then [] else s.splitOn ","

def rep {α} (p : Parser α) : Nat → Parser (List α)
  | 0 => pure []
  | n + 1 => do
    let a ← p
    let r ← rep p n
    pure (a :: r)

def counted {α} (p : Parser α) : Parser (List α) := do
  let n ← pNat
  rep p n

def liftO {α} (o : Option α) : Parser α := match o with | some a => pure a | none => failure

def pStrPat : Parser StrPat := do
  let t ← tok
  match t.splitOn ":" with
  | ["e", s] => pure (.exact s)
  | ["p", s] => pure (.pref s)
  | _ => failure

def pDAlt (s : String) : Option DAlt :=
  match s.splitOn ";" with
  | [d, o, t, np, idx] => do
    let t ← t.toInt?
    let np ← np.toNat?
    let idx ← idx.toNat?
    pure { domain := d, op := o, tag := t, np := np, idx := idx }
  | _ => none

def pTol (s : String) : Option Tol :=
  match s.splitOn "/" with
  | [n, d] => do pure { num := ← n.toNat?, den := ← d.toNat? }
  | _ => none

/-- value pattern; the fuel bounds the nesting of BacktrackingOr alternatives -/
def pVPat : Nat → Parser VPat
  | 0 => failure
  | f + 1 => do
    let t ← tok
    match t.splitOn ":" with
    | ["A"] => pure .any
    | ["V", id, name, isVar, canNone, check] =>
      pure (.var (← liftO id.toNat?) (optS name) (isTrue isVar) (isTrue canNone) (optB check))
    | ["K", id, "s", c, rt, atl] =>
      pure (.const (← liftO id.toNat?) { val := .scalar (← liftO c.toInt?), relTol := ← liftO (pTol rt), absTol := ← liftO (pTol atl) })
    | ["K", id, "l", l, rt, atl] =>
      pure (.const (← liftO id.toNat?) { val := .list (← liftO (pInts l)), relTol := ← liftO (pTol rt), absTol := ← liftO (pTol atl) })
    | ["O", np, idx] => pure (.out (← liftO np.toNat?) (← liftO idx.toNat?))
    | ["D", id, name, tv, alts] =>
      let as ← liftO ((alts.splitOn "/").mapM pDAlt)
      pure (.orD (← liftO id.toNat?) (optS name) (optS tv) as)
    | ["B", id, name, tv, k] =>
      let k ← liftO k.toNat?
      let pairs ← rep (do
        let tt ← tok
        let tag ← match tt.splitOn ":" with
          | ["t", n] => liftO n.toInt?
          | _ => failure
        let a ← pVPat f
        pure (tag, a)) k
      pure (.orB (← liftO id.toNat?) (optS name) (optS tv) (pairs.map (·.1)) (pairs.map (·.2)))
    | _ => failure

def pInput : Parser (Option VPat) := do
  match (← get) with
  | "-" :: ts => set ts; pure none
  | _ => do
    let v ← pVPat 16
    pure (some v)

def pAPat : Parser APat := do
  let t ← tok
  match t.splitOn ":" with
  | ["c", "n", n] => pure (.const (.num (← liftO n.toInt?)))
  | ["c", "s", s] => pure (.const (.str s))
  | ["c", "ns", l] => pure (.const (.nums (← liftO (pInts l))))
  | ["c", "ss", l] => pure (.const (.strs (pStrs l)))
  | ["v", name, cn] => pure (.var (optS name) (isTrue cn))
  | _ => failure

def pNPat : Parser NPat := do
  let m ← tok
  if m != "N" then failure
  let dom ← pStrPat
  let op ← pStrPat
  let aoa := isTrue (← tok)
  let aoi := isTrue (← tok)
  let chk := optB (← tok)
  let ins ← counted pInput
  let attrs ← counted (do
    let n ← tok
    let a ← pAPat
    pure (n, a))
  let outs ← counted (do pure (optS (← tok)))
  pure { domain := dom, op := op, opIsStr := (match op with | .exact _ => true | .pref _ => false), inputs := ins, attrs := attrs, allowOtherAttrs := aoa,
         allowOtherInputs := aoi, outputs := outs, check := chk }

def pGPat : Parser GPat := do
  let m ← tok
  if m != "P" then failure
  let cond := isTrue (← tok)
  let ins ← counted (do pure (optS (← tok)))
  let nodes ← counted pNPat
  let outs ← counted (pVPat 16)
  pure { inputs := ins, outputs := outs, nodes := nodes, cond := cond }

def pAttrVal (s : String) : Option AttrVal :=
  match s.splitOn ":" with
  | ["i", n] => n.toInt?.map .int
  | ["f", n] => n.toInt?.map .flt
  | ["s", t] => some (.str t)
  | ["is", l] => (pInts l).map .ints
  | ["fs", l] => (pInts l).map .flts
  | ["ss", l] => some (.strs (pStrs l))
  | _ => none

def pOptVid : Parser (Option ValueId) := do
  let t ← tok
  if t == "-" then pure none else
  match t.toNat? with
  | some n => pure (some n)
  | none => failure

def unE (s : String) : String := if s == "_" then "" else s

def pGNode : Parser GNode := do
  let m ← tok
  if m != "M" then failure
  let dom := unE (← tok)
  let op ← tok
  let ov := unE (← tok)
  let ins ← counted pOptVid
  let attrs ← counted (do
    let n ← tok
    let v ← liftO (pAttrVal (← tok))
    pure ({ name := n, val := v } : Attr))
  let outs ← counted pNat
  pure { domain := dom, op := op, overload := ov, inputs := ins, attrs := attrs, outputs := outs }

def pGraph : Parser Graph := do
  let m ← tok
  if m != "G" then failure
  let nodes ← counted pGNode
  let gouts ← counted pNat
  let consts ← counted (do
    let v ← pNat
    let shape ← liftO (pNats (← tok))
    let data ← liftO (pInts (unE (← tok)))
    pure (v, ({ shape := shape, data := data } : ConstVal)))
  let foreign ← counted pNat
  let ext ← counted pNat
  pure { nodes := nodes, outputs := gouts, consts := consts, foreign := foreign, extUses := ext }

/-! ## printing -/

def showInts (l : List Int) : String := ",".intercalate (l.map toString)

def showAttrVal : AttrVal → String
  | .int n => s!"i:{n}"
  | .flt n => s!"f:{n}"
  | .str s => s!"s:{s}"
  | .ints l => "is:" ++ showInts l
  | .flts l => "fs:" ++ showInts l
  | .strs l => "ss:" ++ ",".intercalate l

def showBound : Bound → String
  | .none => "N"
  | .val v => s!"v{v}"
  | .attr a => s!"a({a.name};{showAttrVal a.val})"
  | .tag t => s!"t{t}"

def showBindings (b : List (String × Bound)) : String :=
  " ".intercalate (b.map (fun kv => kv.1 ++ "=" ++ showBound kv.2))

def showNodes (l : List NodeId) : String := ",".intercalate (l.map toString)

def showResult : Option Result → String
  | none => "M0"
  | some r => s!"M1 | {showBindings r.bindings} | {showNodes r.nodes} | {" ".intercalate (r.outputs.map showBound)}"

def showSol (s : Sol) : String :=
  s!"{showBindings s.names} | {showNodes s.nodes} | {" ".intercalate (s.outputs.map showBound)}"

/-- constant values travel as integers in units of 1e-6 -/
def scale : Nat := 1000000

/-- `math.isclose(a, b, rel_tol, abs_tol)` = `|a-b| <= max(rel_tol*max(|a|,|b|), abs_tol)`, exactly, on
values `A/scale`, `B/scale` and tolerances given as fractions -/
def closeQ (rel abs : Tol) (a b : Int) : Bool :=
  let diff := (a - b).natAbs
  let big := max a.natAbs b.natAbs
  diff * rel.den * abs.den ≤ max (rel.num * big * abs.den) (abs.num * scale * rel.den)

def showTol (t : Tol) : String := s!"{t.num}/{t.den}"

def showConst (c : ConstPat) : String :=
  (match c.val with
   | .scalar v => s!"s{v}"
   | .list l => "l" ++ showInts l) ++ s!"~{showTol c.relTol}~{showTol c.absTol}"

/-- the Constant patterns of a pattern: per node, in input order (through BacktrackingOr alternatives) -/
def showConsts (p : GPat) : String :=
  ";".intercalate (p.nodes.map (fun n => ",".intercalate (n.consts.map showConst)))

def showResultX : Except Exc (Option Result) → String
  | .error .valueError => "EXC:ValueError"
  | .error .notImplemented => "EXC:NotImplementedError"
  | .ok o => showResult o

def handle (args : List String) : String :=
  match args with
  | modeTok :: rm :: root :: rest =>
    -- `impl/10`: the digits say which repaired revisions the working tree contains (F1, F7a)
    let mode := (modeTok.splitOn "/").headD ""
    let flags := ((modeTok.splitOn "/").getD 1 "11").toList
    let fixF1 := flags.getD 0 '1' == '1'
    let fix7a := flags.getD 1 '1' == '1'
    let fixF3 := flags.getD 2 '1' == '1'
    let fix7b := flags.getD 3 '1' == '1'
    let fixF8 := flags.getD 4 '1' == '1'
    let fixF2 := flags.getD 5 '1' == '1'
    let fixF5 := flags.getD 6 '1' == '1'
    let fixF5b := flags.getD 7 '1' == '1'
    let fix7c := flags.getD 8 '1' == '1'
    match root.toNat?, (do
        let p ← pGPat
        let g ← pGraph
        pure (p, g) : Parser (GPat × Graph)).run rest with
    | some root, some ((p, g), []) =>
      let E : Env := { p := p, g := g, close := closeQ, fixF1 := fixF1, fixF2 := fixF2, fixF3 := fixF3, fixF8 := fixF8, fixF5 := fixF5, fixF5b := fixF5b }
      let rm := isTrue rm
      match mode with
      | "impl" =>
        if !p.ctorOk then "CTOR-ERR" else
        s!"on={showNodes p.outputNodes} " ++ showResult (patternMatch E root rm)
      | "implx" =>
        -- the matcher with its exception channel (`OV.Model.C06Exc`); committed revision only
        if !p.ctorOk then "CTOR-ERR" else
        s!"on={showNodes p.outputNodes} " ++ showResultX (patternMatchX E root rm)
      | "spec" =>
        if !p.ctorOk then "CTOR-ERR" else
        let sols := solve E root rm
        s!"S{sols.length}" ++ String.join (sols.map (fun s => " || " ++ showSol s))
      | "commute" =>
        if !p.ctorOk then "CTOR-ERR" else
        -- `RewriteRule(p, remove_nodes=rm).commute()`, every variant rule matched as `try_rewrite` does
        (match Rule.commute fix7a { p := p, removeNodes := rm } fix7b fix7c with
         | .error .assertion => "ERR:assertion"
         | .error .valueError => "ERR:valueerror"
         | .error .notImplemented => "ERR:notimplemented"
         | .ok rs =>
           s!"K{rs.length}" ++ String.join (rs.map (fun v =>
             " || " ++ showResultX (Rule.tryMatch E v root) ++ " #K " ++ showConsts v.p)))
      | _ => "bad-mode"
    | _, _ => "bad-parse"
  | _ => "bad-args"

end OV.Drivers.C06

def main : IO Unit := OV.Drivers.run OV.Drivers.C06.handle
