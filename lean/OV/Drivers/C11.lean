import OV.Model.Index
import OV.Model.IndexZip
import OV.Drivers.Loop
/-! Line-protocol driver for C11.  `C11 <graph|eager|numpy> <shape> <comp>*`
    shape: `3,4` (or `-` for rank 0);  comp: `F` | `I:<i>` | `S:<b>:<b>:<b>` (b = `_`|`c<i>`|`d<i>`) | `T:<i>` | `V:<i>,<i>…` (`V:` empty) -/
namespace OV.Drivers.C11
open OV.Index

def parseInts (s : String) : Option (List Int) :=
  if s == "" || s == "-" then some [] else (s.splitOn ",").mapM (fun t => t.toInt?)

def parseBnd (s : String) : Option Bnd :=
  if s == "_" then some .none
  else if s.startsWith "c" then (s.drop 1).toString.toInt?.map .const
  else if s.startsWith "d" then (s.drop 1).toString.toInt?.map .dyn
  else none

def parseComp (s : String) : Option Comp :=
  match s.splitOn ":" with
  | ["F"] => some .full
  | ["I", i] => i.toInt?.map .int
  | ["T", i] => i.toInt?.map .tScalar
  | ["V", is] => (parseInts is).map .tVec
  | ["S", a, b, c] => do
    let a ← parseBnd a; let b ← parseBnd b; let c ← parseBnd c
    pure (.slice a b c)
  | _ => none

def showInts (l : List Int) : String := "[" ++ ",".intercalate (l.map toString) ++ "]"
def showNats (l : List Nat) : String := "[" ++ ",".intercalate (l.map toString) ++ "]"

def showErr : Err → String
  | .indexError => "ERR:index"
  | .valueError => "ERR:value"
  | .refused => "ERR:refused"
  | .unmodelled => "ERR:unmodelled"

def showOp : PlanOp → String
  | .identity => "identity"
  | .slice es => "slice(" ++ ";".intercalate (es.map (fun e =>
      s!"{e.axis}:{e.start}:{e.stop}:{e.step}")) ++ ")"
  | .squeeze a => "squeeze" ++ showNats a
  | .npSqueeze a => "npsqueeze" ++ showNats a
  | .gatherScalar a i => s!"gatherS({a},{i})"
  | .gatherVec a is => s!"gatherV({a},{showInts is})"

def showPlan (p : Plan) : String := if p.isEmpty then "nop" else "+".intercalate (p.map showOp)

/-- Row-major strides of a shape. -/
def strides : List Nat → List Nat
  | [] => []
  | _ :: ds => (ds.foldl (· * ·) 1) :: strides ds

/-- Flat source offsets read by a view, in row-major order of the output. -/
def offsets : View → List Nat → List Nat
  | [], _ => [0]
  | .drop s :: rest, st :: sts => (offsets rest sts).map (· + s * st)
  | .pick srcs :: rest, st :: sts =>
    let inner := offsets rest sts
    srcs.flatMap (fun s => inner.map (· + s * st))
  | _ :: _, [] => []

def showView (v : View) (shape : List Nat) : String :=
  s!"shape={showNats v.shape} data={showNats (offsets v (strides shape))}"

/-- NumPy result with an axis moved to the front: iterate that axis outermost. -/
def showNView (n : NView) (shape : List Nat) : String :=
  match n.front with
  | none => showView n.view shape
  | some p =>
    (match n.view[p]? with
     | some (.pick srcs) =>
       let data := srcs.flatMap (fun s => offsets (n.view.set p (.drop s)) (strides shape))
       s!"front={p} shape={showNats n.shape} data={showNats data}"
     | _ => showView n.view shape)

/-- Row-major sums of one contribution per output axis. -/
def cart : List (List Nat) → List Nat
  | [] => [0]
  | a :: rest => a.flatMap (fun x => (cart rest).map (· + x))

/-- NumPy result with zipped axes: output position `t` of the shared axis reads `srcs[t]` on every
zipped source axis; the shared axis stands first (`front`) or at the place of the first zipped axis. -/
def showZRes (z : ZRes) (shape : List Nat) : String :=
  let ax := z.axes.zip (strides shape)
  let base := (ax.map (fun p => match p.1 with | .drop s => s * p.2 | _ => 0)).foldl (· + ·) 0
  let kept (l : List (ZAxis × Nat)) : List (List Nat) :=
    l.filterMap (fun p => match p.1 with | .pick s => some (s.map (· * p.2)) | _ => none)
  let zips := ax.filterMap (fun p => match p.1 with | .zip s => some (s, p.2) | _ => none)
  let out : List (List Nat) :=
    match zipLen? z.axes with
    | none => kept ax
    | some n =>
      let zo := (List.range n).map (fun t => zips.foldl (fun acc q => acc + q.1.getD t 0 * q.2) 0)
      if z.front then zo :: kept ax
      else kept (ax.takeWhile (fun p => !p.1.isZip)) ++ zo :: kept (ax.dropWhile (fun p => !p.1.isZip))
  s!"shape={showNats z.shape} data={showNats ((cart out).map (· + base))}"

def showRes (r : Except Err View) (shape : List Nat) : String :=
  match r with
  | .ok v => showView v shape
  | .error e => showErr e

def handle (args : List String) : String :=
  match args with
  | mode :: shp :: comps =>
    match parseInts shp, comps.mapM parseComp with
    | some shapeI, some cs =>
      let shape := shapeI.map Int.toNat
      match mode with
      | "graph" =>
        (match planGraph cs with
         | .ok p => showPlan p ++ " | " ++ showRes (runPlan p (View.init shape)) shape
         | .error e => showErr e ++ " | " ++ showErr e)
      | "eager" =>
        (match planEager cs shape with
         | .ok p => showPlan p ++ " | " ++ showRes (runPlan p (View.init shape)) shape
         | .error e => showErr e ++ " | " ++ showErr e)
      | "numpy" =>
        if (cs.filter Comp.isVec).length ≥ 2 then
          -- two or more 1-D indices: NumPy broadcasts and zips them (model: numpyIndexZ)
          (match numpyIndexZ cs shape with
           | .ok z => "zip " ++ showZRes z shape
           | .error e => "zip " ++ showErr e)
        else
        (match numpyIndexT cs shape with
         | .ok n => showNView n shape
         | .error e => showErr e)
      | "numpyz" =>   -- the zip model on any expression (it must agree with `numpy` below two 1-D indices)
        (match numpyIndexZ cs shape with
         | .ok z => showZRes z shape
         | .error e => showErr e)
      | _ => "bad-op"
    | _, _ => "bad-op"
  | _ => "bad-op"

end OV.Drivers.C11

def main : IO Unit := OV.Drivers.run OV.Drivers.C11.handle
