import OV.Model.C20Save
import OV.Model.C20Hist
import OV.Drivers.Loop
/-! Line-protocol driver for C20.

`C20 save <cfg: chars 0|1: deep, refuse, keepNames, tqdm-importable> <verbose 0|1> <k|-> <dir|-> <name> <files|-> <inits|->`
  files: `f:seed:len;…` (data files present before the call; content = `gen seed len`)
  inits: `name:sub:M:seed:len:np[:tensorname]` | `name:sub:E:file:off:len:valid` | `name:sub:U` | `name:sub:A:j` (alias of the j-th), `;`-separated, in `model.graphs()` order
`C20 hist <cfg> <verbose> <k|-> <dir|-> <name> <files|-> <inits|-> <prior: k,k,…  (n = no fault)>`: the same call observed
  after earlier calls (fault plans `prior`) on the same model object and destination; output prefixed with `prior=<res>,…`
`C20 layout <cur> <size,size,…|->`  →  `off:len,…`
Output of `save`: `res=… | calls=… | trace=… | cb=… | cv=… | heap=… | fs=… | load=…` -/
namespace OV.Drivers.C20
open OV.C20

/-- Deterministic file/tensor content shared with the harness (`harness/c20.py: gen_bytes`). -/
def gen (seed len : Nat) : Bytes :=
  (List.range len).map fun i => (seed * 131 + i * 7 + (i / 251) * 3 + 1) % 256

def cksAux : Nat → Nat → Bytes → Nat
  | _, acc, [] => acc
  | i, acc, b :: bs => cksAux (i + 1) (acc + (i + 1) * b) bs

/-- Position-sensitive checksum `Σ (i+1)·bᵢ`. -/
def cks (b : Bytes) : Nat := cksAux 0 0 b

def showBytes (b : Bytes) : String := s!"{b.length}:{cks b}"

def parseFiles (s : String) : Option FS :=
  if s == "-" then some [] else
  (s.splitOn ";").mapM fun t =>
    match t.splitOn ":" with
    | [f, seed, len] => do
      let seed ← seed.toNat?; let len ← len.toNat?
      pure (f, Content.data (gen seed len))
    | _ => none

structure PI where
  name : String
  sub : Bool
  ref : Option TRef
  alias : Option Nat := none   -- `A:<j>`: the same tensor object as the j-th initializer of the line
  tname : Option String := none  -- the tensor's own `name` when it differs from the initializer's

def parseInit (t : String) : Option PI :=
  match t.splitOn ":" with
  | [n, sub, "U"] => some { name := n, sub := sub == "1", ref := none }
  | [n, sub, "A", j] => do
    let j ← j.toNat?
    pure { name := n, sub := sub == "1", ref := none, alias := some j }
  | [n, sub, "M", seed, len, np] => do
    let seed ← seed.toNat?; let len ← len.toNat?
    pure { name := n, sub := sub == "1", ref := some (.mem (gen seed len) (np == "1")) }
  | [n, sub, "M", seed, len, np, tn] => do
    let seed ← seed.toNat?; let len ← len.toNat?
    pure { name := n, sub := sub == "1", ref := some (.mem (gen seed len) (np == "1")), tname := some tn }
  | [n, sub, "E", f, off, len, valid] => do
    let off ← off.toNat?; let len ← len.toNat?
    pure { name := n, sub := sub == "1", ref := some (.ext f off len (valid == "1")) }
  | _ => none

def parseInits (s : String) : Option (List PI) :=
  if s == "-" then some [] else (s.splitOn ";").mapM parseInit

/-- Object ids are handed out in order to the initializers that own a tensor; aliases are resolved afterwards. -/
def mkModelAux : List PI → Nat → Model
  | [], _ => { sig := [], cv := [], heap := [] }
  | p :: ps, next =>
    match p.ref with
    | none =>
      let m := mkModelAux ps next
      { m with sig := (p.name, p.sub) :: m.sig, cv := none :: m.cv }
    | some t =>
      let m := mkModelAux ps (next + 1)
      { sig := (p.name, p.sub) :: m.sig, cv := some next :: m.cv, heap := t :: m.heap, tnames := p.tname.getD p.name :: m.tnames }

def mkModel (pis : List PI) (_ : Nat) : Model :=
  let m := mkModelAux pis 0
  { m with cv := (pis.zip m.cv).map fun (x : PI × Option Nat) =>
      match x.1.alias with
      | some j => (m.cv[j]?).getD none
      | none => x.2 }

def showErr : Err → String
  | .valueError => "ValueError" | .osError => "OSError" | .typeError => "TypeError"

def showOp : Op → String
  | .openW f => s!"ow:{f}" | .openR f => s!"or:{f}" | .write f n => s!"w:{f}:{n}" | .flush f => s!"fl:{f}"
  | .seek f p => s!"sk:{f}:{p}" | .read f => s!"rd:{f}" | .close f => s!"cl:{f}"

def insertStr (x : String) : List String → List String
  | [] => [x]
  | y :: ys => if x ≤ y then x :: y :: ys else y :: insertStr x ys
def sortStr (l : List String) : List String := l.foldr insertStr []

def b01 (b : Bool) : String := if b then "1" else "0"

def showPInit (x : String × Bool × PInit) : String :=
  match x.2.2 with
  | .inline b => s!"{x.1}:{b01 x.2.1}:i:{showBytes b}"
  | .external f o l => s!"{x.1}:{b01 x.2.1}:x:{f}:{o}:{l}"

def showContent : Content → String
  | .data b => s!"d:{showBytes b}"
  | .proto p => "p:" ++ "+".intercalate (sortStr (p.map showPInit))

def showObj (fs : FS) : TRef → String
  | .mem b _ => s!"m:{showBytes b}"
  | .ext f off len valid =>
    if !valid then "e:0" else
    match fs.read f off len with
    | some b => s!"e:1:{showBytes b}"
    | none => "e:1:ERR"

/-- `prior`: `-` or `k,k,…` (`n` = no fault): fault plans of earlier calls on the same model object, same destination. -/
def parsePrior (s : String) : Option (List (Option Nat)) :=
  if s == "-" then some [] else
  (s.splitOn ",").mapM fun t => if t == "n" then some none else t.toNat?.map some

/-- One observed call: `m0` is the model before the whole history (what `cv=` is compared with), `m` the model object as
the earlier calls left it. -/
def runAndShow (deep verbose k dir name : String) (fs : FS) (m0 : Model) (prior : List (Option Nat)) : String :=
  let kk : Option Nat := if k == "-" then none else k.toNat?
  let dir := if dir == "-" then "" else dir
  let cfg : Cfg := { deep := deep.startsWith "1", refuse := (deep.drop 1).toString.startsWith "1",
                     keepNames := (deep.drop 2).toString.startsWith "1",
                     tqdm := !((deep.drop 3).toString.startsWith "0") }
  let calls : List Call := prior.map fun pk => { dir := dir, name := name, verbose := verbose == "1", k := pk }
  let h := runHistory cfg calls m0 fs
  let m := h.1
  let r := runSave cfg m dir name (verbose == "1") h.2 kk
  let res := match r.res with | .ok _ => "ok" | .error e => showErr e
  let m' := r.model m
  let cb := (match r.st.cbTotal with | some t => toString t | none => "-") ++ ";" ++
    ",".intercalate (r.st.cb.map fun (x : String × Nat) => s!"{x.1}@{x.2}")
  let ld := match load r.st.fs dir name with
    | some l => ",".intercalate (sortStr (l.map fun (x : String × Bool × Bytes) => s!"{x.1}:{b01 x.2.1}:{showBytes x.2.2}"))
    | none => "none"
  let pre := if prior.isEmpty then [] else
    ["prior=" ++ ",".intercalate ((historyResults cfg calls m0 fs).map fun
      | .ok _ => "ok" | .error e => showErr e)]
  " | ".intercalate (pre ++ [
    s!"res={res}", s!"calls={r.st.calls}",
    "trace=" ++ ",".intercalate (r.st.trace.map showOp),
    s!"cb={cb}",
    "cv=" ++ (if m'.cv == m0.cv then "same" else "diff"),
    "heap=" ++ ",".intercalate (m'.heap.map (showObj r.st.fs)),
    "fs=" ++ ",".intercalate (sortStr (r.st.fs.map fun (x : String × Content) => s!"{x.1}={showContent x.2}")),
    s!"load={ld}",
    "tn=" ++ ",".intercalate r.st.tn])

def handle (args : List String) : String :=
  match args with
  | ["save", deep, verbose, k, dir, name, files, inits] =>
    match parseFiles files, parseInits inits with
    | some fs, some pis => runAndShow deep verbose k dir name fs (mkModel pis 0) []
    | _, _ => "bad-op"
  | ["hist", deep, verbose, k, dir, name, files, inits, prior] =>
    match parseFiles files, parseInits inits, parsePrior prior with
    | some fs, some pis, some pr => runAndShow deep verbose k dir name fs (mkModel pis 0) pr
    | _, _, _ => "bad-op"
  | ["layout", cur, sizes] =>
    match cur.toNat?, (if sizes == "-" then some [] else (sizes.splitOn ",").mapM (·.toNat?)) with
    | some c, some zs => ",".intercalate ((layout c zs).map fun (x : Nat × Nat) => s!"{x.1}:{x.2}")
    | _, _ => "bad-op"
  | _ => "bad-op"

end OV.Drivers.C20

def main : IO Unit := OV.Drivers.run OV.Drivers.C20.handle
