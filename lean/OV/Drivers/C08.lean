import OV.Model.C08View
import OV.Model.C08Slice
import OV.Model.C08Repl
import OV.Model.C08Reduce
import OV.Model.C08IntArith
import OV.Model.C08Creation
import OV.Model.C08Attr
import OV.Model.C08Misc
import OV.Model.C08Scalar
import OV.Model.C08Linalg
import OV.Model.C08Norm
import OV.Drivers.Loop
/-! Line-protocol driver for C08.  `C08 <fn> <args…>` → `term @ model @ spec`.
    shape: `2,3` (`-` = rank 0); shape list: `2,3/2,1`; int list: `1,2` (`-` = empty); `N` = None. -/
namespace OV.Drivers.C08
open OV.C08

def pInts (s : String) : Option (List Int) :=
  if s == "-" then some [] else (s.splitOn ",").mapM (fun t => t.toInt?)
def pShape (s : String) : Option Shape := (pInts s).map (fun l => l.map Int.toNat)
def pShapes (s : String) : Option (List Shape) := (s.splitOn "/").mapM pShape
def pInt (s : String) : Option Int := s.toInt?
def pOptInt (s : String) : Option (Option Int) := if s == "N" then some none else s.toInt?.map some
def pOptInts (s : String) : Option (Option (List Int)) := if s == "N" then some none else (pInts s).map some
def pIL (s : String) : Option IntOrList :=
  if s.startsWith "i" then (s.drop 1).toString.toInt?.map IntOrList.int else (pInts s).map IntOrList.list
def pDC (s : String) : Option DC :=
  if s == "f32" then some .f32 else if s == "i64" then some .i64 else if s == "bool" then some .bool else none
def pOptDC (s : String) : Option (Option DC) := if s == "N" then some none else (pDC s).map some
def pBool (s : String) : Option Bool := if s == "1" then some true else if s == "0" then some false else none

def shShape (s : Shape) : String := if s.isEmpty then "-" else ",".intercalate (s.map toString)
def rS (r : Option Shape) : String := match r with | some s => shShape s | none => "ERR"
def rL (r : Option (List Shape)) : String :=
  match r with | some l => "L[" ++ ";".intercalate (l.map shShape) ++ "]" | none => "ERR"
def rN (r : Option Nat) : String := match r with | some n => toString n | none => "ERR"
def out (t m s : String) : String := t ++ " @ " ++ m ++ " @ " ++ s
def terms (l : List String) : String := " || ".intercalate l
def showNats (l : List Nat) : String := "[" ++ ",".intercalate (l.map toString) ++ "]"

def pOptShape (s : String) : Option (Option Shape) := if s == "N" then some none else (pShape s).map some

/-- Round-5 family (OV.Model.C08Norm): layer_norm / native_layer_norm / sort / addmm / baddbmm / glu. -/
def handleB (args : List String) : String :=
  let bad := "bad-op"
  match args with
  | ["layer_norm", nat, s, ns, w, b] => (do
      let nat ← pBool nat; let s ← pShape s; let ns ← pShape ns; let w ← pOptShape w; let b ← pOptShape b
      let sh := fun (r : Option (List Shape)) => if nat then rL r else rS (r.map (fun (l : List Shape) => l.headD []))
      pure (out (layer_norm.term nat ns.length w.isSome b.isSome) (sh (layer_norm.model nat s ns.length w b))
        (sh (layer_norm.spec nat s ns w b)))).getD bad
  | ["sort", s, d, desc, _] => (do
      let s ← pShape s; let d ← pInt d; let desc ← pBool desc
      pure (out (sort.term s.length d desc) (rL (sort.model s d)) (rL (sort.spec s d)))).getD bad
  | ["addmm", c, a, b, al, be] => (do
      let c ← pShape c; let a ← pShape a; let b ← pShape b; let al ← pInt al; let be ← pInt be
      pure (out (addmm.term al be) (rS (addmm.model c a b)) (rS (addmm.spec c a b)))).getD bad
  | ["baddbmm", c, a, b, al, be] => (do
      let c ← pShape c; let a ← pShape a; let b ← pShape b; let al ← pOptInt al; let be ← pOptInt be
      pure (out (baddbmm.term al be) (rS (baddbmm.model c a b)) (rS (baddbmm.spec c a b)))).getD bad
  | ["glu", s, d] => (do
      let s ← pShape s; let d ← pInt d
      pure (out (glu.term d) (rS (glu.model s d)) (rS (glu.spec s d)))).getD bad
  | _ => bad

def handle (args : List String) : String :=
  let bad := "bad-op"
  match args with
  | ["flatten", s, a, b] => (do
      let s ← pShape s; let a ← pInt a; let b ← pInt b
      pure (out (flatten.term s a b) (rS (flatten.model s a b)) (rS (flatten.spec s a b)))).getD bad
  | ["unflatten", s, d, z] => (do
      let s ← pShape s; let d ← pInt d; let z ← pInts z
      pure (out (unflatten.term s d z) (rS (unflatten.model s d z)) (rS (unflatten.spec s d z)))).getD bad
  | ["view", s, z] => (do
      let s ← pShape s; let z ← pInts z
      pure (out (view.term z) (rS (view.model s z)) (rS (view.spec s z)))).getD bad
  | ["reshape", s, z] => (do
      let s ← pShape s; let z ← pInts z
      pure (out (reshape_.term z) (rS (reshape_.model s z)) (rS (reshape_.spec s z)))).getD bad
  | ["permute", s, z] => (do
      let s ← pShape s; let z ← pInts z
      pure (out (permute.term z) (rS (permute.model s z)) (rS (permute.spec s z)))).getD bad
  | ["transpose", s, a, b] => (do
      let s ← pShape s; let a ← pInt a; let b ← pInt b
      pure (out (transpose.term s.length a b) (rS (transpose.model s a b)) (rS (transpose.spec s a b)))).getD bad
  | ["t", s] => (do
      let s ← pShape s
      pure (out (t.term s.length) (rS (t.model s)) (rS (t.spec s)))).getD bad
  | ["squeeze", s] => (do
      let s ← pShape s
      pure (out squeeze.term (rS (squeeze.model s)) (rS (squeeze.spec s)))).getD bad
  | ["squeeze_dim", s, d] => (do
      let s ← pShape s; let d ← pInt d
      pure (out (squeeze_dim.term s d) (rS (squeeze_dim.model s d)) (rS (squeeze_dim.spec s d)))).getD bad
  | ["unsqueeze", s, d] => (do
      let s ← pShape s; let d ← pInt d
      pure (out (unsqueeze.term d) (rS (unsqueeze.model s d)) (rS (unsqueeze.spec s d)))).getD bad
  | ["expand", s, z] => (do
      let s ← pShape s; let z ← pInts z
      pure (out (expand.term z) (rS (expand.model s z)) (rS (expand.spec s z)))).getD bad
  | ["broadcast_to", s, z] => (do
      let s ← pShape s; let z ← pInts z
      pure (out (broadcast_to.term z) (rS (broadcast_to.model s z)) (rS (broadcast_to.spec s z)))).getD bad
  -- slicing
  | ["slice", s, d, a, b, c] => (do
      let s ← pShape s; let d ← pInt d; let a ← pOptInt a; let b ← pOptInt b; let c ← pOptInt c
      pure (out (slice.term d a b c) (rS (slice.model s d a b c)) (rS (slice.spec s d a b c)))).getD bad
  | ["narrow", s, d, a, b, tf] => (do
      let s ← pShape s; let d ← pInt d; let a ← pInt a; let b ← pInt b; let tf ← pBool tf
      pure (out (narrow.term s tf d a b) (rS (narrow.model s tf d a b)) (rS (narrow.spec s d a b)))).getD bad
  | ["select", s, d, i] => (do
      let s ← pShape s; let d ← pInt d; let i ← pInt i
      pure (out (select.term d i) (rS (select.model s d i)) (rS (select.spec s d i)))).getD bad
  | ["index_select", s, d, n] => (do
      let s ← pShape s; let d ← pInt d; let n ← pInt n
      pure (out (index_select.term s.length d) (rS (index_select.model s d n.toNat)) (rS (index_select.spec s d n.toNat)))).getD bad
  | ["chunk", s, c, d] => (do
      let s ← pShape s; let c ← pInt c; let d ← pInt d
      let dd := match normAxis s.length d with | some a => s.getD a 0 | none => 0
      pure (out (terms (chunk.term dd c.toNat d)) (rL (chunk.model s c.toNat d)) (rL (chunk.spec s c.toNat d)))).getD bad
  | ["split", s, z, d] => (do
      let s ← pShape s; let z ← pInt z; let d ← pInt d
      let dd := match normAxis s.length d with | some a => s.getD a 0 | none => 1
      pure (out (split.term dd z d) (rL (split.model s z d)) (rL (split.spec s z d)))).getD bad
  | ["split_with_sizes", s, z, d] => (do
      let s ← pShape s; let z ← pInts z; let d ← pInt d
      pure (out (split_with_sizes.term z d) (rL (split_with_sizes.model s z d)) (rL (split_with_sizes.spec s z d)))).getD bad
  | ["unbind", s, d] => (do
      let s ← pShape s; let d ← pInt d
      let n := match normAxis s.length d with | some a => s.getD a 0 | none => 0
      pure (out (terms (unbind.term n d)) (rL (unbind.model s d)) (rL (unbind.spec s d)))).getD bad
  | ["flip", s, z] => (do
      let s ← pShape s; let z ← pInts z
      pure (out (flip.term z) (rS (flip.model s z)) (rS (flip.spec s z)))).getD bad
  | ["flip_idx", d] => (do
      let d ← pInt d
      pure (out "-" (showNats (flip.modelIdx d.toNat)) (showNats (flip.specIdx d.toNat)))).getD bad
  | ["roll", s, sh, z] => (do
      let s ← pShape s; let sh ← pInts sh; let z ← pInts z
      pure (out (roll.term s sh z) (rS (roll.model s sh z)) (rS (roll.spec s sh z)))).getD bad
  | ["roll_idx", d, big, sh] => (do
      let d ← pInt d; let big ← pInt big; let sh ← pInt sh
      pure (out "-" (showNats (roll.stepIdx d.toNat big.toNat sh)) (showNats (roll.specIdx d.toNat sh)))).getD bad
  | ["unfold_idx", d, z, st] => (do
      let d ← pInt d; let z ← pInt z; let st ← pInt st
      let sh (m : List (List Int)) : String :=
        "[" ++ ",".intercalate (m.map (fun (r : List Int) => "[" ++ ",".intercalate (r.map toString) ++ "]")) ++ "]"
      pure (out "-" (sh (unfold_.modelIdx d z st)) (sh (unfold_.specIdx d z st)))).getD bad
  | ["diag_pos", r, c, o] => (do
      let r ← pInt r; let c ← pInt c; let o ← pInt o
      let sh (l : List (Option (Int × Int))) : String :=
        "[" ++ ",".intercalate (l.map (fun p => match p with | some (i, j) => toString (i * c + j + 1) | none => "0")) ++ "]"
      pure (out "-" (sh (diagonal.modelPositions r c o)) (sh (diagonal.specPositions r c o)))).getD bad
  | ["slice_map", d, a, b, c, _] => (do
      let d ← pInt d; let a ← pOptInt a; let b ← pOptInt b; let c ← pOptInt c
      pure (out "-" (showNats (sliceIdx d (optI a 0) (optI b INT64_MAX) (optI c 1))) (showNats (slice.specIdx d a b c)))).getD bad
  | ["slice_idx", d, a, b, c] => (do
      let d ← pInt d; let a ← pInt a; let b ← pInt b; let c ← pInt c
      pure (out "-" (showNats (sliceIdx d a b c)) "-")).getD bad
  | ["tril", s, k] => (do
      let s ← pShape s; let k ← pInt k
      pure (out (trilu.term false k) (rS (trilu.model s)) (rS (trilu.spec s)))).getD bad
  | ["triu", s, k] => (do
      let s ← pShape s; let k ← pInt k
      pure (out (trilu.term true k) (rS (trilu.model s)) (rS (trilu.spec s)))).getD bad
  | ["trilu_keep", u, k, r, c] => (do
      let u ← pBool u; let k ← pInt k; let r ← pInt r; let c ← pInt c
      let grid (f : Nat → Nat → Bool) : String :=
        String.join ((List.range r.toNat).flatMap (fun i => (List.range c.toNat).map (fun j => if f i j then "1" else "0")))
      pure (out "-" (grid (triluKeep u k)) (grid (trilu.specKeep u k)))).getD bad
  | ["diagonal", s, o, a, b] => (do
      let s ← pShape s; let o ← pInt o; let a ← pInt a; let b ← pInt b
      pure (out "-" (rS (diagonal.model s o a b)) (rS (diagonal.spec s o a b)))).getD bad
  -- replication
  | ["repeat", s, z] => (do
      let s ← pShape s; let z ← pInts z
      pure (out (repeat_.term z) (rS (repeat_.model s z)) (rS (repeat_.spec s z)))).getD bad
  | ["tile", s, z] => (do
      let s ← pShape s; let z ← pInts z
      pure (out (tile.term s.length z) (rS (tile.model s z)) (rS (tile.spec s z)))).getD bad
  | ["stack", ss, d] => (do
      let ss ← pShapes ss; let d ← pInt d
      pure (out (stack.term ss.length d) (rS (stack.model ss d)) (rS (stack.spec ss d)))).getD bad
  | ["cat", ss, d] => (do
      let ss ← pShapes ss; let d ← pInt d
      pure (out (cat.term ss d) (rS (cat.model ss d)) (rS (cat.spec ss d)))).getD bad
  -- reductions
  | ["matmul", f, a, b] => (do
      let a ← pShape a; let b ← pShape b
      pure (out matmul.term (rS (matmul.model a b)) (rS (matmul.specOf f a b)))).getD bad
  | ["maxmin_dim", f, s, d, k] => (do
      let s ← pShape s; let d ← pInt d; let k ← pBool k
      let red := if f == "max_dim" then "ReduceMax" else "ReduceMin"
      let arg := if f == "max_dim" then "ArgMax" else "ArgMin"
      pure (out (max_dim.term red arg s.length d k) (rL (max_dim.model s d k)) (rL (max_dim.spec s d k)))).getD bad
  | ["logsumexp", s, z, k] => (do
      let s ← pShape s; let z ← pInts z; let k ← pBool k
      pure (out (logsumexp.term s.length z k) (rS (logsumexp.model s z k)) (rS (logsumexp.spec s z k)))).getD bad
  | ["logcumsumexp", s, d] => (do
      let s ← pShape s; let d ← pInt d
      pure (out (logcumsumexp.term s.length d) (rS (logcumsumexp.model s d)) (rS (logcumsumexp.spec s d)))).getD bad
  | ["embedding", w, ix] => (do
      let w ← pShape w; let ix ← pShape ix
      pure (out embedding.term (rS (embedding.model w ix)) (rS (embedding.spec w ix)))).getD bad
  | ["scatter", f, s, ix, src, d] => (do
      let s ← pShape s; let ix ← pShape ix; let src ← pShape src; let d ← pInt d
      let isAdd := f == "scatter_add"
      pure (out (scatter.term isAdd ix src d) (rS (scatter.model isAdd s ix src d)) (rS (scatter.spec s ix src d)))).getD bad
  | ["pixel_shuffle", s, r] => (do
      let s ← pShape s; let r ← pInt r
      pure (out (pixel_shuffle.term s r) (rS (pixel_shuffle.model s r)) (rS (pixel_shuffle.spec s r)))).getD bad
  | ["pixel_unshuffle", s, r] => (do
      let s ← pShape s; let r ← pInt r
      pure (out (pixel_unshuffle.term r) (rS (pixel_unshuffle.model s r)) (rS (pixel_unshuffle.spec s r)))).getD bad
  | ["softmax", kind, s, d, ci, co] => (do
      let kind ← pInt kind; let s ← pShape s; let d ← pInt d; let ci ← pBool ci; let co ← pOptInt co
      pure (out (softmax.term kind.toNat s.length d ci (co.map Int.toNat)) (rS (softmax.model s d)) (rS (softmax.spec s d)))).getD bad
  | ["linear", x, w, b, _] => (do
      let x ← pShape x; let w ← pShape w; let b ← (if b == "N" then some none else (pShape b).map some)
      pure (out (linear.term x.length w.length b.isSome) (rS (linear.model x w b)) (rS (linear.spec x w b)))).getD bad
  | ["vector_norm", o, s, z, k] => (do
      let s ← pShape s; let z ← pOptInts z; let k ← pBool k
      let o ← (if o == "inf" then some vector_norm.Ord.posInf else if o == "-inf" then some vector_norm.Ord.negInf else (pInt o).map vector_norm.Ord.int)
      pure (out (vector_norm.term s.length o z k) (rS (vector_norm.model s z k)) (rS (vector_norm.spec s z k)))).getD bad
  | ["sum", s, c] => (do
      let s ← pShape s; let c ← pOptInt c
      pure (out (sum.term s.length (c.map Int.toNat)) (rS (sum.model s)) (rS (sum.spec s)))).getD bad
  | ["sum_dim", s, z, k, c] => (do
      let s ← pShape s; let z ← pOptInts z; let k ← pBool k; let c ← pOptInt c
      pure (out (sum_dim.term s.length z k (c.map Int.toNat)) (rS (sum_dim.model s z k)) (rS (sum_dim.spec s z k)))).getD bad
  | ["mean_dim", s, z, k, c] => (do
      let s ← pShape s; let z ← pInts z; let k ← pBool k; let c ← pOptInt c
      pure (out (mean_dim.term s.length z k (c.map Int.toNat)) (rS (mean_dim.model s z k)) (rS (mean_dim.spec s z k)))).getD bad
  | ["prod_dim", s, z, k, c] => (do
      let s ← pShape s; let d ← pInt z; let k ← pBool k; let c ← pOptInt c
      pure (out (prod_dim.term s.length d k (c.map Int.toNat)) (rS (prod_dim.model s d k)) (rS (prod_dim.spec s d k)))).getD bad
  | [f, s, z, k] =>
    if f == "amax" || f == "amin" then (do
      let s ← pShape s; let z ← pInts z; let k ← pBool k
      pure (out (amax.term ("aten_" ++ f) z k) (rS (amax.model s z k)) (rS (amax.spec s z k)))).getD bad
    else if f == "all_dim" || f == "any_dim" then (do
      let s ← pShape s; let d ← pInt z; let k ← pBool k
      let red := if f == "all_dim" then "ReduceMin" else "ReduceMax"
      pure (out (all_dim.term red d k) (rS (all_dim.model s d k)) (rS (all_dim.spec s d k)))).getD bad
    else if f == "all_dims" || f == "any_dims" then (do
      let s ← pShape s; let z ← pOptInts z; let k ← pBool k
      let red := if f == "all_dims" then "ReduceMin" else "ReduceMax"
      pure (out (all_dims.term red s.length z k) (rS (all_dims.model s z k)) (rS (all_dims.spec s z k)))).getD bad
    else if f == "argmax" || f == "argmin" then (do
      let s ← pShape s; let d ← pOptInt z; let k ← pBool k
      let nm := if f == "argmax" then "ArgMax" else "ArgMin"
      pure (out (argmax.term nm s.length d k) (rS (argmax.model s d k)) (rS (argmax.spec s d k)))).getD bad
    -- integer arithmetic with three ints
    else if f == "add" then (do
      let a ← pInt s; let b ← pInt z; let c ← pInt k
      pure (out "-" (toString (IntArith.addAlpha a b c)) (toString (IntArith.specAdd a b c)))).getD bad
    else if f == "sub" then (do
      let a ← pInt s; let b ← pInt z; let c ← pInt k
      pure (out "-" (toString (IntArith.subAlpha a b c)) (toString (IntArith.specSub a b c)))).getD bad
    else if f == "shl" then (do
      let w ← pInt s; let a ← pInt z; let c ← pInt k
      pure (out "-" (toString (IntArith.shl w.toNat a c.toNat)) (toString (IntArith.specShl w.toNat a c.toNat)))).getD bad
    else if f == "shr" then (do
      let w ← pInt s; let a ← pInt z; let c ← pInt k
      pure (out "-" (toString (IntArith.shr w.toNat a c.toNat)) (toString (IntArith.specShr a c.toNat)))).getD bad
    else if f == "arange" then (do
      let a ← pInt s; let b ← pInt z; let c ← pInt k
      pure (out (arange.termStep a b c false) (toString (arange.modelLen a b c)) (rN (arange.specLen a b c)))).getD bad
    else bad
  | ["all", s] => (do
      let s ← pShape s
      pure (out (all_.term "ReduceMin" s.length) (rS (all_.model s)) (rS (all_.spec s)))).getD bad
  | ["any", s] => (do
      let s ← pShape s
      pure (out (all_.term "ReduceMax" s.length) (rS (all_.model s)) (rS (all_.spec s)))).getD bad
  | ["prod", s, i, c, _] => (do
      let s ← pShape s; let i ← pBool i; let c ← pOptInt c
      pure (out (prod.term i (c.map Int.toNat)) (rS (prod.model s)) (rS (prod.spec s)))).getD bad
  | ["cumsum", s, d, c, _] => (do
      let s ← pShape s; let d ← pInt d; let c ← pOptInt c
      pure (out (cumsum.term s.length d (c.map Int.toNat)) (rS (cumsum.model s d)) (rS (cumsum.spec s d)))).getD bad
  -- integer arithmetic with two ints
  | ["floor_divide_s", a, b] => (do
      let a ← pInt a; let b ← pInt b
      pure (out "-" (toString (IntArith.floorDivideSigned a b)) (toString (IntArith.specFloorDiv a b)))).getD bad
  | ["floor_divide_u", a, b] => (do
      let a ← pInt a; let b ← pInt b
      pure (out "-" (toString (IntArith.floorDivideUnsigned a b)) (toString (IntArith.specFloorDiv a b)))).getD bad
  | ["remainder", a, b] => (do
      let a ← pInt a; let b ← pInt b
      pure (out "Mod(x0,x1;fmod=0)" (toString (IntArith.remainder a b)) (toString (IntArith.specRemainder a b)))).getD bad
  | ["fmod", a, b] => (do
      let a ← pInt a; let b ← pInt b
      pure (out "Mod(x0,x1;fmod=1)" (toString (IntArith.fmod a b)) (toString (IntArith.specFmod a b)))).getD bad
  | ["div_trunc", a, b] => (do
      let a ← pInt a; let b ← pInt b
      pure (out "Div(x0,x1)" (toString (IntArith.divModeTrunc a b)) (toString (IntArith.specDivTrunc a b)))).getD bad
  -- pool / conv / pad attribute adjustment
  | ["avg_pool", k, s, ks, st, pd, ce, ci] => (do
      let k ← pInt k; let s ← pShape s; let ks ← pIL ks; let st ← pIL st; let pd ← pIL pd; let ce ← pBool ce; let ci ← pBool ci
      pure (out (avg_pool.term k.toNat s.length ks st pd ce ci) (rS (avg_pool.model k.toNat s ks st pd ce)) (rS (avg_pool.spec k.toNat s ks st pd ce)))).getD bad
  | ["max_pool", k, s, ks, st, pd, dl, ce, wi] => (do
      let k ← pInt k; let s ← pShape s; let ks ← pIL ks; let st ← pIL st; let pd ← pIL pd; let dl ← pIL dl; let ce ← pBool ce; let wi ← pBool wi
      let m := max_pool.model k.toNat s ks st pd dl ce
      let sp := max_pool.spec k.toNat s ks st pd dl ce
      if wi then
        pure (out (max_pool.termWithIndices k.toNat ks st pd dl ce) (rL (m.map (fun x => [x, x]))) (rL (sp.map (fun x => [x, x]))))
      else pure (out (max_pool.term k.toNat s.length ks st pd dl ce) (rS m) (rS sp))).getD bad
  | ["conv", s, w, st, pd, dl, tr, op, g] => (do
      let s ← pShape s; let w ← pShape w; let st ← pIL st; let pd ← pIL pd; let dl ← pIL dl; let tr ← pBool tr; let op ← pInts op; let g ← pInt g
      pure (out (conv.term s w st pd dl tr op g.toNat) (rS (conv.model s w st pd dl tr op g.toNat)) (rS (conv.spec s w st pd dl tr op g.toNat)))).getD bad
  | ["convnd", s, w, hb, st, pd, dl, g] => (do
      let s ← pShape s; let w ← pShape w; let hb ← pBool hb; let st ← pInts st; let pd ← pInts pd; let dl ← pInts dl; let g ← pInt g
      pure (out (convnd.term s w hb st pd dl g.toNat) (rS (convnd.model s w hb st pd dl g.toNat)) (rS (convnd.spec s w st pd dl g.toNat)))).getD bad
  | ["pad", s, pd, kind, arg] => (do
      let s ← pShape s; let pd ← pInts pd
      let t := if kind == "c" then pad.termConst s.length pd arg else if kind == "n" then pad.termMode s.length pd "constant" else pad.termMode s.length pd arg
      pure (out t (rS (pad.model s pd)) (rS (pad.spec s pd)))).getD bad
  | ["unfold", s, d, z, st] => (do
      let s ← pShape s; let d ← pInt d; let z ← pInt z; let st ← pInt st
      pure (out (unfold_.term s.length d z st) (rS (unfold_.model s d z st)) (rS (unfold_.spec s d z st)))).getD bad
  | ["upsample", s, o, sc, mode, ctm] => (do
      let s ← pShape s; let o ← pInts o; let sc ← pOptInts sc
      pure (out (upsample.term o sc mode ctm) (rS (upsample.model s o sc)) (rS (upsample.spec s o)))).getD bad
  | ["col2im", s, o, k, dl, pd, st] => (do
      let s ← pShape s; let o ← pInts o; let k ← pInts k; let dl ← pInts dl; let pd ← pInts pd; let st ← pInts st
      pure (out (col2im.term o k dl pd st) (rS (col2im.model s o k dl pd st)) (rS (col2im.spec s o k dl pd st)))).getD bad
  | ["im2col", s, k, dl, pd, st] => (do
      let s ← pShape s; let k ← pInts k; let dl ← pInts dl; let pd ← pInts pd; let st ← pInts st
      pure (out (im2col.term k dl pd st) (rS (im2col.model s k dl pd st)) (rS (im2col.spec s k dl pd st)))).getD bad
  | ["gather", s, ix, d, _] => (do
      let s ← pShape s; let ix ← pShape ix; let d ← pInt d
      pure (out (gather.term s.length ix.length d) (rS (gather.model s ix d)) (rS (gather.spec s ix d)))).getD bad
  | ["repeat_interleave", s, rp, d, _] => (do
      let s ← pShape s; let rp ← pInt rp; let d ← pOptInt d
      pure (out (repeat_interleave.term s rp d) (rS (repeat_interleave.model s rp d)) (rS (repeat_interleave.spec s rp d)))).getD bad
  | ["select_scatter", s, src, d, i] => (do
      let s ← pShape s; let src ← pShape src; let d ← pInt d; let i ← pInt i
      pure (out (select_scatter.term d i) (rS (select_scatter.model s src d i)) (rS (select_scatter.spec s src d i)))).getD bad
  | ["slice_scatter", s, src, d, a, b, c] => (do
      let s ← pShape s; let src ← pShape src; let d ← pInt d; let a ← pOptInt a; let b ← pOptInt b; let c ← pInt c
      pure (out (slice_scatter.term s.length d a b c) (rS (slice_scatter.model s src d a b c)) (rS (slice_scatter.spec s src d a b c)))).getD bad
  | ["atleast", n, s] => (do
      let n ← pInt n; let s ← pShape s
      pure (out (atleast.term n.toNat s.length) (rS (atleast.model n.toNat s)) (rS (atleast.spec n.toNat s)))).getD bad
  | ["topk", s, k, d, lg, so] => (do
      let s ← pShape s; let k ← pInt k; let d ← pInt d; let lg ← pBool lg; let so ← pBool so
      pure (out (topk.term k d lg so) (rL (topk.model s k d)) (rL (topk.spec s k d)))).getD bad
  | ["addsub", isAdd, dc, kind, a, b, al, ot] => (do
      let isAdd ← pBool isAdd; let dc ← pDC dc; let a ← pShape a; let b ← pShape b; let al ← pInt al; let ot ← pInt ot
      let other := if kind == "T" then "x1" else halfStr dc ot
      pure (out (addsub.term isAdd dc other al) (rS (addsub.model isAdd dc a b al)) (rS (addsub.spec a b)))).getD bad
  | ["clamp", dc, s, lo, hi] => (do
      let dc ← pDC dc; let s ← pShape s; let lo ← pOptInt lo; let hi ← pOptInt hi
      pure (out (clamp.term dc lo hi) (rS (some s)) (rS (some s)))).getD bad
  | ["clamp_tensor", s, lo, hi, _] => (do
      let s ← pShape s
      let lo ← (if lo == "_" then some none else (pShape lo).map some)
      let hi ← (if hi == "_" then some none else (pShape hi).map some)
      let sh1 := match lo with | none => some s | some l => bcast2 s l
      let sh2 := match sh1, hi with | some x, some h => bcast2 x h | x, _ => x
      pure (out (clamp.termTensor lo.isSome hi.isSome) (rS sh2) (rS sh2))).getD bad
  | ["create", kind, z, dt, _] => (do
      let z ← pInts z; let dt ← pOptDC dt
      let t := if kind == "full" then creation.termFull z dt else if kind == "zeros" then creation.termZeros z dt
        else if kind == "new_full" then creation.termNewFull z dt else if kind == "new_zeros" then creation.termNewZeros z dt
        else if kind == "full_like" then creation.termLike "7" dt else if kind == "zeros_like" then creation.termLike "0" dt
        else creation.termLike "1" dt
      pure (out t (rS (full.model z)) (rS (full.spec z)))).getD bad
  -- creation
  | ["linspace", n] => (do
      let n ← pInt n
      pure (out "-" (rN (linspace.modelLen n)) (rN (linspace.specLen n)))).getD bad
  | ["full", z] => (do
      let z ← pInts z
      pure (out "-" (rS (full.model z)) (rS (full.spec z)))).getD bad
  | _ => handleB args

end OV.Drivers.C08

def main : IO Unit := OV.Drivers.run OV.Drivers.C08.handle
