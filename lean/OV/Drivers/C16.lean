import OV.Model.C16Bind
import OV.Drivers.Loop
/-! Line-protocol driver for C16.

* `C16 row <codes> <cx:0|1> <scripted|traced> <res> <function-name codes> P <aarg>* K <aarg>* S <param>*` → `ok` | defects joined by `,`
  (`codes` = code points of the qualified name joined by `,`; `aarg` = six `/`-separated fields
  name, base, `L` (list), `O` (optional), `D` (has default), `I` (integer-only Scalar), a dash standing for "no";
  `param` = eight fields name, `I` or `A`, attribute type, `R` (required), `V` (variadic), `P` (positional-or-keyword),
  annotation category (`missing`, `base:int`, `seqOf:int`, `otherOrigin`, `otherPlain`), `D` (python default))
* `C16 rowk <same arguments as row>` → `ok` | reasons why the row is outside `bindsOkK` (`kReasons`)
* `C16 dflt <mode> P <aarg>* K <aarg>* S <param>* D <dval>* E <dval>*` → `ok` | `shape` | disagreeing (argument, parameter) pairs
  `i:j,…` (`dval` = `a` absent, `n` None, `o` opaque, `bT`/`bF`, `q<num>_<den>`, `s<codes>` / `s-`, `l<num>_<den>;…` / `l-`;
  the `D` list is parallel to the positional ++ keyword-only arguments, the `E` list to the parameters)
* `C16 accepts <mode> <param> <aarg>` → `true` | `false`
* `C16 bind <scripted|traced> <npos> <kw,kw|-> S <param>*` → `ok <slot>,<slot>…` (`p<i>` | `k:<name>` | `-`) | `err:<kind>`
* `C16 name <codes>` → `true` | `false`
* `C16 resolve <codes>` → `ns|name|overload`;  `C16 dispatch <c|r> <func>/<c|r> …` → chosen func | `none`
* `C16 decls <func>/<p|-><c|r>/<codes>;<codes>… …` → registry dump | `ValueError`
* `C16 reg <func>/<name>/<c|r> …` → registry dump ` # ` torchlibOps dump
-/
namespace OV.Drivers.C16
open OV.C16

def parseBase : String → Option ABase
  | "tensor" => some .tensor | "scalar" => some .scalar | "int" => some .int | "symint" => some .symint
  | "float" => some .float | "bool" => some .bool | "str" => some .str | "dtype" => some .dtype
  | "layout" => some .layout | "device" => some .device | "memfmt" => some .memfmt
  | "generator" => some .generator | "dimname" => some .dimname | "pyobj" => some .pyobj
  | "other" => some .other | _ => none

def parseAttr : String → Option AttrT
  | "none" => some .none | "int" => some .int | "float" => some .float | "string" => some .string
  | "ints" => some .ints | "floats" => some .floats | "strings" => some .strings | "other" => some .other
  | _ => none

def parseAArg (t : String) : Option AArg :=
  match t.splitOn "/" with
  | [n, b, l, o, d, i] => (parseBase b).map (fun b => ⟨n, b, l == "L", o == "O", d == "D", i == "I"⟩)
  | _ => none

def parsePyT : String → Option PyT
  | "int" => some .int | "float" => some .float | "str" => some .str | "bool" => some .bool
  | "tensor" => some .tensor | "graph" => some .graph | _ => none

def parseAnnot (t : String) : Option Annot :=
  match t.splitOn ":" with
  | ["missing"] => some .missing
  | ["otherOrigin"] => some .otherOrigin
  | ["otherPlain"] => some .otherPlain
  | ["base", x] => (parsePyT x).map .base
  | ["seqOf", x] => (parsePyT x).map .seqOf
  | _ => none

def parseParam (t : String) : Option OParam :=
  match t.splitOn "/" with
  | [n, i, a, r, v, p, an, d] => do
    let a ← parseAttr a
    let an ← parseAnnot an
    pure ⟨n, i == "I", a, r == "R", v == "V", p == "P", an, d == "D"⟩
  | _ => none

def parseFrac (t : String) : Option (Int × Nat) :=
  match t.splitOn "_" with
  | [n, d] => do
    let n ← n.toInt?
    let d ← d.toNat?
    pure (n, d)
  | _ => none

def parseDVal (t : String) : Option DVal :=
  if t == "a" then some .absent
  else if t == "n" then some .none
  else if t == "o" then some .opaque
  else if t == "bT" then some (.bool true)
  else if t == "bF" then some (.bool false)
  else if t.startsWith "q" then (parseFrac (t.drop 1).toString).map (fun nd => .num nd.1 nd.2)
  else if t.startsWith "s" then
    let r := (t.drop 1).toString
    if r == "-" then some (.str []) else ((r.splitOn ",").mapM (fun (x : String) => x.toNat?)).map .str
  else if t.startsWith "l" then
    let r := (t.drop 1).toString
    if r == "-" then some (.nums []) else ((r.splitOn ";").mapM parseFrac).map .nums
  else none

def parseMode : String → Option Mode
  | "scripted" => some .scripted | "traced" => some .traced | _ => none

def parseRes : String → Option Res
  | "resolved" => some .resolved | "builtin" => some .builtin | "lib_absent" => some .lib_absent
  | "undefined" => some .undefined | _ => none

def parseCodes (s : String) : Option (List Nat) :=
  if s == "-" then some [] else (s.splitOn ",").mapM (fun t => t.toNat?)

/-- split `P a* K b* S c*` -/
def sections (ts : List String) : Option (List String × List String × List String) :=
  match ts with
  | "P" :: rest =>
    let ps := rest.takeWhile (· ≠ "K")
    match rest.dropWhile (· ≠ "K") with
    | "K" :: rest2 =>
      let ks := rest2.takeWhile (· ≠ "S")
      match rest2.dropWhile (· ≠ "S") with
      | "S" :: ss => some (ps, ks, ss)
      | _ => none
    | _ => none
  | _ => none

def showClause : Clause → String
  | .paramsModelled => "paramsModelled" | .posFits => "posFits" | .posAccepts => "posAccepts"
  | .posNames => "posNames" | .kwBound => "kwBound" | .kwPlaced => "kwPlaced"
  | .requiredBound => "requiredBound"

def showDefect : Defect → String
  | .undefinedOp => "undefinedOp" | .badName => "badName" | .complexName => "complexName"
  | .schemaFlag => "schemaFlag" | .sigClass => "sigClass" | .clause c => showClause c

def showSlot : Option Src → String
  | none => "-" | some (.pos i) => s!"p{i}" | some (.kw n) => s!"k:{n}"

def showErr : BindErr → String
  | .missing => "missing" | .tooMany => "tooMany" | .unexpectedKw => "unexpectedKw"
  | .multipleValues => "multipleValues"

def showNats (l : List Nat) : String := "[" ++ ",".intercalate (l.map toString) ++ "]"

def parseReg (t : String) : Option Registration :=
  match t.splitOn "/" with
  | [f, n, k] => f.toNat?.map (fun f => ⟨f, n, k == "c"⟩)
  | _ => none

def handle (args : List String) : String :=
  match args with
  | "row" :: cs :: cx :: m :: r :: fc :: rest =>
    (match parseCodes cs, parseMode m, parseRes r, parseCodes fc, sections rest with
     | some cs, some m, some r, some fc, some (ps, ks, ss) =>
       (match ps.mapM parseAArg, ks.mapM parseAArg, ss.mapM parseParam with
        | some ps, some ks, some ss =>
          let e : Entry := ⟨cs, cx == "1", m, r, ⟨ps, ks⟩, ss, fc, [], []⟩
          if e.defects.isEmpty then "ok" else ",".intercalate (e.defects.map showDefect)
        | _, _, _ => "bad-op")
     | _, _, _, _, _ => "bad-op")
  | "rowk" :: _ :: _ :: m :: _ :: _ :: rest =>
    (match parseMode m, sections rest with
     | some m, some (ps, ks, ss) =>
       (match ps.mapM parseAArg, ks.mapM parseAArg, ss.mapM parseParam with
        | some ps, some ks, some ss =>
          let rs := kReasons m ⟨ps, ks⟩ ss
          if rs.isEmpty then "ok" else ",".intercalate (rs.map (fun r => match r with
            | .ruleFails => "ruleFails" | .posName => "posName" | .requiredOwn => "requiredOwn" | .dupNames => "dupNames"))
        | _, _, _ => "bad-op")
     | _, _ => "bad-op")
  | "dflt" :: m :: rest =>
    -- <mode> P a* K b* S c* D d* E e*
    (match parseMode m, sections rest with
     | some m, some (ps, ks, tl) =>
       let ss := tl.takeWhile (· ≠ "D")
       (match tl.dropWhile (· ≠ "D") with
        | "D" :: r2 =>
          let ds := r2.takeWhile (· ≠ "E")
          (match r2.dropWhile (· ≠ "E") with
           | "E" :: es =>
             (match ps.mapM parseAArg, ks.mapM parseAArg, ss.mapM parseParam, ds.mapM parseDVal, es.mapM parseDVal with
              | some ps, some ks, some ss, some ds, some es0 =>
                if !defaultsShapeOk ⟨ps, ks⟩ ss ds es0 then "shape"
                else
                  let es := effDefaults m ss es0
                  let bad := defaultsBad ⟨ps, ks⟩ ss ds es
                  if bad.isEmpty && defaultsOk ⟨ps, ks⟩ ss ds es then "ok"
                  else if bad.isEmpty || defaultsOk ⟨ps, ks⟩ ss ds es then "inconsistent"
                  else ",".intercalate (bad.map (fun ij => s!"{ij.1}:{ij.2}"))
              | _, _, _, _, _ => "bad-op")
           | _ => "bad-op")
        | _ => "bad-op")
     | _, _ => "bad-op")
  | ["accepts", m, prm, arg] =>
    (match parseMode m, parseParam prm, parseAArg arg with
     | some m, some p, some a => toString (accepts m p a)
     | _, _, _ => "bad-op")
  | "bind" :: m :: npos :: kws :: "S" :: ss =>
    (match parseMode m, npos.toNat?, ss.mapM parseParam with
     | some m, some npos, some ss =>
       let kws := if kws == "-" then [] else kws.splitOn ","
       (match bind m ss ⟨npos, kws⟩ with
        | .ok b => "ok " ++ ",".intercalate (b.map showSlot)
        | .error e => "err:" ++ showErr e)
     | _, _, _ => "bad-op")
  | ["name", cs] =>
    (match parseCodes cs with
     | some cs => toString (nameOkCodes cs)
     | none => "bad-op")
  | ["resolve", cs] =>
    (match parseCodes cs with
     | some cs =>
       let k := resolveKey cs
       let sh := fun (l : List Nat) => String.ofList (l.map Char.ofNat)
       s!"{sh k.ns}|{sh k.name}|{sh k.overload}"
     | none => "bad-op")
  | "dispatch" :: cx :: ds =>
    (match ds.mapM (fun t => match t.splitOn "/" with
                             | [f, k] => f.toNat?.map (fun f => (⟨f, k == "c"⟩ : Decomp))
                             | _ => none) with
     | some ds => (match dispatch ds (cx == "c") with | some f => toString f | none => "none")
     | none => "bad-op")
  | "decls" :: ds =>
    -- each: <func>/<p|-><c|r>/<name>;<name>… (names as code-point lists joined by `;`, code points by `,`)
    (match ds.mapM (fun t => match t.splitOn "/" with
        | [f, fl, ns] => do
          let f ← f.toNat?
          let names ← (ns.splitOn ";").mapM (fun n => (parseCodes n).map (fun (cs : List Nat) => String.ofList (cs.map Char.ofNat)))
          pure (⟨f, names, fl.startsWith "p", fl.endsWith "c"⟩ : Decl)
        | _ => none) with
     | some ds =>
       (match runDecls [] ds with
        | some r => ";".intercalate (r.map (fun (o : Overloaded) => s!"{o.name}={showNats o.overloads}|{showNats o.complex}"))
        | none => "ValueError")
     | none => "bad-op")
  | "reg" :: rs =>
    (match rs.mapM parseReg with
     | some rs =>
       let r := runRegs rs
       ";".intercalate (r.map (fun o => s!"{o.name}={showNats o.overloads}|{showNats o.complex}"))
         ++ " # " ++ ";".intercalate ((torchlibOps r).map (fun t => s!"{t.1}/{t.2.1}/{if t.2.2 then "c" else "r"}"))
     | none => "bad-op")
  | _ => "bad-op"

end OV.Drivers.C16

def main : IO Unit := OV.Drivers.run OV.Drivers.C16.handle
