import OV.Model.C13Export
import OV.Lemmas.C13
import OV.Lemmas.C13Roundtrip
import Std.Data.String.ToInt
/-!
# C13 — ONNX → Python (`proto2python`) → ONNX round-trips to an equivalent model

Property theorems only.  Model: `OV.Model.C13Export` (a transcription of
`onnxscript/backend/onnx_export.py`, tied to the source by `harness/c13.py` on every run).
Helper lemmas: `OV.Lemmas.C13`.
-/
namespace OV.Props.C13
open OV.C13

/-! ## `_cleanup_variable_name` -/

/-- **Every non-empty name is cleaned into a Python identifier that is not a keyword** — for all
strings (all lengths, all characters; on non-ASCII characters the model's `isalpha` is the ASCII one,
which is where it may differ from CPython, hence the scope `asciiName` in DESIGN.md). -/
theorem cleanup_ident (n : List Char) (hne : n ≠ []) :
    isPyIdentL (cleanupL n) = true ∧ cleanupL n ∉ kwlistL :=
  cleanupL_ident n hne

/-- the same on `String` -/
theorem cleanup_ident_string (s : String) (hne : s ≠ "") :
    isPyIdentL (cleanup s).toList = true ∧ (cleanup s).toList ∉ kwlistL := by
  unfold cleanup
  rw [String.toList_ofList]
  apply cleanupL_ident
  intro h
  apply hne
  apply String.toList_inj.mp
  rw [h]; rfl

example : cleanup "layers.0.weight" = "layers_0_weight" ∧ cleanup "5" = "__5" ∧ cleanup "if" = "r_if" := by decide

/-- **Fixpoints**: a name that already is a non-keyword identifier is left alone (so on such names the
clean-up is injective: this is the non-vacuity of every `InjectiveOn cleanup` hypothesis below). -/
theorem cleanup_fixpoint (n : List Char) (hid : isPyIdentL n = true) (hk : n ∉ kwlistL) : cleanupL n = n :=
  cleanupL_fix n hid hk

/-- **Idempotence** — what makes the double translation of initializer names in
`_translate_graph_body` harmless when `rename=False`. -/
theorem cleanup_idempotent (n : List Char) (hne : n ≠ []) : cleanupL (cleanupL n) = cleanupL n :=
  cleanupL_idem n hne

/-- **Exact characterisation of the non-injectivity** (`norm` explicit): two names are cleaned to the same
identifier iff, after the keyword step (`if ↦ r_if`) and the first-character step (`5 ↦ __5`), they have the
same length and agree at every position up to "both characters are not alphanumeric"
(`a.b` / `a_b` / `a:b`, `5` / `__5` / `-_5`, `if` / `r_if`). -/
theorem cleanup_collisions (a b : List Char) :
    cleanupL a = cleanupL b ↔ pointwise sameClass (prefixed a) (prefixed b) := by
  rw [cleanupL_eq_map_prefixed, cleanupL_eq_map_prefixed, map_eq_map_iff_pointwise]
  exact pointwise_congr renameChar_eq_iff _ _

example : cleanup "a.b" = cleanup "a_b" ∧ cleanup "5" = cleanup "__5" ∧ cleanup "if" = cleanup "r_if"
    ∧ cleanup "x:0" = cleanup "x.0" ∧ cleanup "a.b" ≠ cleanup "a.c" := by decide

/-! ## the renaming applied to a graph -/

/-- **The short-name mapper keys on the cleaned name**: over any request sequence, two requests get the
same `v<k>` iff their keys are equal (all lengths, all histories from a fresh mapper). -/
theorem short_names_collide_iff (ks : List String) (i j : Nat) (hi : i < ks.length) (hj : j < ks.length)
    (hi' : i < (shortRun [] ks).1.length) (hj' : j < (shortRun [] ks).1.length) :
    (shortRun [] ks).1[i] = (shortRun [] ks).1[j] ↔ ks[i] = ks[j] :=
  shortRun_eq_iff ks i j hi hj hi' hj'

/-- The renaming the exporter applies to the value names of a main graph (no attribute parameters, no
remapping scope, names requested in the order `ns`) has one output per name. -/
theorem rename_table_length (o : Opts) (ns : List String) (hne : ∀ n ∈ ns, n ≠ "") :
    (translateVars o {} ns).1.length = ns.length := by
  cases hr : o.rename
  · rw [translateVars_fresh_clean o hr ns {} rfl rfl hne]; simp
  · rw [translateVars_fresh_short o hr ns {} rfl rfl hne]
    simp only [List.length_map]
    exact (shortRun_spec (ns.map cleanup) [] List.nodup_nil).2.2.1.trans (by simp)

/-- **Two values get the same Python name exactly when their cleaned names coincide** — under
`rename=False` and under `rename=True` alike. -/
theorem rename_eq_iff_cleanup_eq (o : Opts) (ns : List String) (hne : ∀ n ∈ ns, n ≠ "")
    (i j : Nat) (hi : i < ns.length) (hj : j < ns.length) :
    (translateVars o {} ns).1[i]? = (translateVars o {} ns).1[j]? ↔ cleanup ns[i] = cleanup ns[j] := by
  cases hr : o.rename
  · rw [translateVars_fresh_clean o hr ns {} rfl rfl hne]
    simp only [List.getElem?_map, List.getElem?_eq_getElem hi, List.getElem?_eq_getElem hj, Option.map_some,
      Option.some.injEq]
  · rw [translateVars_fresh_short o hr ns {} rfl rfl hne]
    have hlen := (shortRun_spec (ns.map cleanup) [] List.nodup_nil).2.2.1
    have hi' : i < (shortRun [] (ns.map cleanup)).1.length := by rw [hlen]; simpa using hi
    have hj' : j < (shortRun [] (ns.map cleanup)).1.length := by rw [hlen]; simpa using hj
    simp only [List.getElem?_map, List.getElem?_eq_getElem hi', List.getElem?_eq_getElem hj', Option.map_some,
      Option.some.injEq]
    have hi2 : i < (ns.map cleanup).length := by simpa using hi
    have hj2 : j < (ns.map cleanup).length := by simpa using hj
    have key := shortRun_eq_iff (ns.map cleanup) i j hi2 hj2 hi' hj'
    simp only [List.getElem_map] at key
    constructor
    · intro h; exact key.mp (short_label_inj h)
    · intro h; rw [key.mpr h]

/-- **`rename_injective_partial`**: when the clean-up is injective on the names of the graph, the exporter's
renaming keeps distinct values distinct (both renaming modes).  The hypothesis is exactly what the proof
forces: `export_names_injective_refuted` shows it cannot be dropped. -/
theorem rename_injective_partial (o : Opts) (ns : List String) (hne : ∀ n ∈ ns, n ≠ "")
    (hinj : ∀ a ∈ ns, ∀ b ∈ ns, cleanup a = cleanup b → a = b)
    (i j : Nat) (hi : i < ns.length) (hj : j < ns.length)
    (h : (translateVars o {} ns).1[i]? = (translateVars o {} ns).1[j]?) : ns[i] = ns[j] :=
  hinj _ (List.getElem_mem hi) _ (List.getElem_mem hj) ((rename_eq_iff_cleanup_eq o ns hne i j hi hj).mp h)

example : ∀ a ∈ ["x", "t_1", "out"], ∀ b ∈ ["x", "t_1", "out"], cleanup a = cleanup b → a = b := by decide

/-- The full statement (distinct values always stay distinct) is false — finding D14: `a.b` and `a_b`
receive the same Python name under every option tuple. -/
theorem export_names_injective_refuted :
    ¬ (∀ (o : Opts) (ns : List String), (∀ n ∈ ns, n ≠ "") → ns.Nodup →
        ∀ i j (_ : i < ns.length) (_ : j < ns.length),
          (translateVars o {} ns).1[i]? = (translateVars o {} ns).1[j]? → i = j) := by
  intro h
  have := h ⟨false, false, false, false⟩ ["a.b", "a_b"] (by decide) (by decide) 0 1 (by decide) (by decide) (by decide)
  exact absurd this (by decide)


/-- The D14 witness as a whole model: `t = Relu(x)` named `a.b`, `u = Neg(x)` named `a_b`,
`y = Sub(a.b, a_b)` is exported as a program that assigns `a_b` twice and subtracts it from itself
(replayed on the real exporter by the harness: `[-1,4,6]` becomes `[0,0,0]`). -/
theorem d14_witness_program :
    (exportModel ⟨false, false, false, false⟩ 2
      ⟨"g", none, [("", 18)],
       .mk ["x"] ["y"] [] 0
        [.mk "Relu" "" "" ["x"] ["a.b"] [], .mk "Neg" "" "" ["x"] ["a_b"] [],
         .mk "Sub" "" "" ["a.b", "a_b"] ["y"] []]⟩).toOption
      = some ["sig g(x|)", "L1 call a_b = opset18.Relu(x|)", "L1 call a_b = opset18.Neg(x|)",
             "L1 call y = opset18.Sub(a_b,a_b|)", "L1 return y"] := by
  decide +kernel

/-! ## refusals (`export_refuses`) -/

/-- **Sparse initializers are refused** under every option tuple, whatever else the graph contains. -/
theorem export_refuses_sparse (o : Opts) (d : Nat) (m : ModelP) (h : m.graph.nSparse > 0) :
    ∃ e, exportModel o d m = .error e :=
  translateGraph_error_of_body o d m (fun _ rec st _ => graphBody_error_of_sparse o rec m.graph st h)

/-- **`Scan` is refused**: a main graph with a `Scan` node anywhere among its nodes is never exported. -/
theorem export_refuses_scan (o : Opts) (d : Nat) (m : ModelP) (n : Node)
    (hmem : n ∈ m.graph.nodes) (hop : n.op = "Scan") : ∃ e, exportModel o d m = .error e :=
  translateGraph_error_of_body o d m (fun _ rec st hrec =>
    graphBody_error_of_node o rec m.graph st n
      (fun st' => by rw [hrec]; exact translateNode_scan o m.opsets d _ n st' hop) hmem)

/-- **Graph attributes on operators other than If/Loop/Scan are refused.** -/
theorem export_refuses_graph_attr (o : Opts) (d : Nat) (m : ModelP) (n : Node)
    (hmem : n ∈ m.graph.nodes)
    (h1 : n.op ≠ "Constant") (h2 : n.op ≠ "If") (h3 : n.op ≠ "Loop") (h4 : n.op ≠ "Scan")
    (hg : n.attrs.any (·.2.isGraph) = true) : ∃ e, exportModel o d m = .error e :=
  translateGraph_error_of_body o d m (fun _ rec st hrec =>
    graphBody_error_of_node o rec m.graph st n
      (fun st' => by
        rw [hrec]
        cases d with
        | zero => exact ⟨_, rfl⟩
        | succ d =>
          rw [translateNode_plain o m.opsets d _ n st' h1 h2 h3 h4, translatePlain_graphAttr o m.opsets n _ st' hg]
          exact ⟨_, rfl⟩) hmem)

/-- **Unknown attribute kinds are refused** (SPARSE_TENSOR, TYPE_PROTO, TENSORS, GRAPHS, …) on every node
that is printed as a call (operator sugar drops attributes: hence the side condition). -/
theorem export_refuses_attr_kind (o : Opts) (d : Nat) (m : ModelP) (n : Node) (k : String)
    (hmem : n ∈ m.graph.nodes)
    (h1 : n.op ≠ "Constant") (h2 : n.op ≠ "If") (h3 : n.op ≠ "Loop") (h4 : n.op ≠ "Scan")
    (hk : (k, Attr.unsupported) ∈ n.attrs) (hs : o.useOps = false ∨ opsTable.lookup n.op = none) :
    ∃ e, exportModel o d m = .error e :=
  translateGraph_error_of_body o d m (fun _ rec st hrec =>
    graphBody_error_of_node o rec m.graph st n
      (fun st' => by
        rw [hrec]
        cases d with
        | zero => exact ⟨_, rfl⟩
        | succ d =>
          rw [translateNode_plain o m.opsets d _ n st' h1 h2 h3 h4]
          exact translatePlain_unsupported o m.opsets n _ st' k hk hs) hmem)

example : ∃ e, exportModel ⟨false, true, true, false⟩ 3
    ⟨"g", none, [("", 18)], .mk ["x"] ["y"] [] 0 [.mk "Scan" "" "" ["x"] ["y"] [("body", .graph Graph.empty)]]⟩ = .error e :=
  export_refuses_scan _ _ _ (.mk "Scan" "" "" ["x"] ["y"] [("body", .graph Graph.empty)]) (by simp [Graph.nodes]) rfl

/-! ## inline constants -/

/-- **Which constants are inlined** (`_get_const_repr`): exactly FLOAT (1) / INT64 (7) tensors of rank 0, or of
rank 1 with fewer than 5 elements — for every dtype and every shape. -/
theorem const_inlined_iff (dtype : Nat) (dims : List Nat) (lit : String) :
    (constRepr (.tensor dtype dims lit)).isSome = true ↔
      (dtype = 1 ∨ dtype = 7) ∧ (dims = [] ∨ ∃ n, dims = [n] ∧ n < 5) := by
  unfold constRepr
  by_cases h : (dtype == 1 || dtype == 7) = true
  · have h' : dtype = 1 ∨ dtype = 7 := by simpa using h
    simp only [h, if_true]
    match dims with
    | [] => simp [h']
    | [n] => by_cases hn : n < 5 <;> simp [hn, h']
    | _ :: _ :: _ => simp
  · have h' : ¬ (dtype = 1 ∨ dtype = 7) := by simpa using h
    simp only [h]
    simp [h']

/-- `Less` is never printed as an operator (the table's key is the non-existent `"Lesser"`), every option tuple. -/
theorem less_not_sugared : opsTable.lookup "Less" = none ∧ opsTable.lookup "Lesser" = some "<" := by decide

/-- **`inline_const_repr_partial`** (INT64 scalars): the text `str(int)` parses back to the same integer, for
every integer.  (Finite floats rely on CPython's shortest-repr round trip, A-py, and are compared bit-wise by
the harness on every generated constant.) -/
theorem inline_const_repr_partial (i : Int) : (Int.repr i).toInt? = some i := Int.toInt?_repr i

/-- The full statement fails for FLOAT scalars: `str(np.float32('nan'))`, `str(np.float32('inf'))` are the
bare words `nan`, `inf`: Python identifiers and not keywords, hence not literals — the generated text
reads an unbound *name* (replayed on the real exporter: `ValueError: Unbound name: nan`). -/
theorem inline_const_repr_naninf_refuted :
    (isPyIdentL "nan".toList = true ∧ "nan".toList ∉ kwlistL) ∧
    (isPyIdentL "inf".toList = true ∧ "inf".toList ∉ kwlistL) := by decide


/-! ## Lean witnesses of the other reproduced findings (each is replayed on the real exporter by the harness) -/

/-- C13-RENAME-SIG: with `rename=True` the body of a main graph uses `v1, v2, …` while the signature keeps the
cleaned input names — the input `x` is read as the unbound `v2`. -/
theorem rename_signature_not_renamed_witness :
    (exportModel ⟨true, false, false, false⟩ 2
      ⟨"g", none, [("", 18)],
       .mk ["x"] ["y"] [] 0 [.mk "Relu" "" "" ["x"] ["t"] [], .mk "Neg" "" "" ["t"] ["y"] []]⟩).toOption
      = some ["sig g(x|)", "L1 call v1 = opset18.Relu(v2|)", "L1 call v3 = opset18.Neg(v1|)", "L1 return v3"] := by
  decide +kernel

/-- the loop body `s_out = Add(s_in, x); c_out = Identity(c_in)` of the two loop witnesses -/
def forBody : Graph :=
  .mk ["i", "c_in", "s_in"] ["c_out", "s_out"] [] 0
    [.mk "Add" "" "" ["s_in", "x"] ["s_out"] [], .mk "Identity" "" "" ["c_in"] ["c_out"] []]

/-- C13-FOR-MAIN (fixed by e68372f): a `for` loop (trip count, condition passed through) in a *main graph* is
exported — the main graph now has its own remapping scope — and the suppressed `c_out = c_in` copy and the
state hand-over are printed as for a function body. -/
theorem for_loop_in_main_graph_fixed :
    (exportModel ⟨false, false, false, false⟩ 3 ⟨"g", none, [("", 18)],
        .mk ["x", "n"] ["y"] [] 0 [.mk "Loop" "" "" ["n", "", "x"] ["y"] [("body", .graph forBody)]]⟩).toOption
      = some ["sig g(x,n|)", "L1 assign s_in = x", "L1 for i n", "L2 call s_out = opset18.Add(s_in,x|)",
              "L2 assign s_in = s_out", "L1 assign y = s_in", "L1 return y"] := by
  decide +kernel

/-- … under every option tuple the export succeeds (no exception). -/
theorem for_loop_in_main_graph_fixed_all_options : ∀ o : Opts,
    (exportModel o 3 ⟨"g", none, [("", 18)],
        .mk ["x", "n"] ["y"] [] 0 [.mk "Loop" "" "" ["n", "", "x"] ["y"] [("body", .graph forBody)]]⟩).toOption.isSome
      = true := by
  intro ⟨r, u, i, s⟩
  cases r <;> cases u <;> cases i <;> cases s <;> decide +kernel

/-- Pre-fix behaviour, kept as the refuted statement: `_translate_loop` run without any remapping scope (what
`_translate_graph` did before e68372f) raises `IndexError`, for every option tuple. -/
theorem for_loop_without_scope_prefix_refuted : ∀ o : Opts,
    (match translateLoop o (translateNode o [("", 18)] 2 2) 2
        (.mk "Loop" "" "" ["n", "", "x"] ["y"] [("body", .graph forBody)]) 1 {} with
     | .error e => e.pyClass
     | .ok _ => "") = "IndexError" := by
  intro ⟨r, u, i, s⟩
  cases r <;> cases u <;> cases i <;> cases s <;> decide +kernel

/-- … while the same loop in a FunctionProto is exported (the stack has the function's scope). -/
theorem for_loop_in_function_ok :
    (exportFunction ⟨false, false, false, false⟩ 3
      ⟨"f", "this", ["x", "n"], ["y"], [], ["x", "n", "y", "i", "c_in", "s_in", "c_out", "s_out"], [("", 18)],
       [.mk "Loop" "" "" ["n", "", "x"] ["y"] [("body", .graph forBody)]]⟩).toOption
      = some ["sig f(x,n|)", "L1 assign s_in = x", "L1 for i n", "L2 call s_out = opset18.Add(s_in,x|)",
              "L2 assign s_in = s_out", "L1 assign y = s_in", "L1 return y"] := by
  decide +kernel

/-- C13-SKIP-INDENT (fixed by 4af3eb7): `skip_initializers=True` without a large initializer prints the function
at depth 1, without `make_model` — exactly the text of `skip_initializers=False`. -/
theorem skip_initializers_nothing_skipped_fixed :
    (exportModel ⟨false, false, false, true⟩ 2
        ⟨"g", none, [("", 18)], .mk ["x"] ["y"] [] 0 [.mk "Relu" "" "" ["x"] ["y"] []]⟩).toOption
      = some ["sig g(x|)", "L1 call y = opset18.Relu(x|)", "L1 return y"] := by
  decide +kernel

/-- … and with a large initializer the function stays one level deep inside `make_model(w)`. -/
theorem skip_initializers_wrapped :
    (exportModel ⟨false, false, false, true⟩ 2
        ⟨"g", none, [("", 18)], .mk ["x"] ["y"] [("w", 6, 1, [6], "#big")] 0 [.mk "Add" "" "" ["x", "w"] ["y"] []]⟩).toOption
      = some ["wrap w", "sig g(x|)", "L2 call y = opset18.Add(x,w|)", "L2 return y"] := by
  decide +kernel

/-- C13-INLINE-DANGLING: an inlined constant that is a graph output is dropped and then returned by name. -/
theorem inline_const_output_dangling_witness :
    (exportModel ⟨false, false, true, false⟩ 2
      ⟨"g", none, [("", 18)],
       .mk ["x"] ["k"] [] 0 [.mk "Constant" "" "" [] ["k"] [("value", .tensor 1 [] "#0")]]⟩).toOption
      = some ["sig g(x|)", "L1 return k"] := by
  decide +kernel

/-- C13-ATTR-INPUT-CLASH: in a FunctionProto the inputs are translated before the attribute parameters are
registered, so an input whose Python name equals an attribute parameter appears twice in the signature
(`def af_w(v2, v2: float)`: not valid Python) while the body reads the input as `v2_0`. -/
theorem attr_input_clash_witness :
    (exportFunction ⟨true, false, false, false⟩ 2
      ⟨"af_w", "this", ["X"], ["y"], ["v2"], ["y", "X"], [("", 18)],
       [.mk "Elu" "" "" ["X"] ["y"] [("alpha", .ref "v2")]]⟩).toOption
      = some ["sig af_w(v2|v2)", "L1 call v1 = opset18.Elu(v2_0|alpha=@v2)", "L1 return v1"] := by
  decide +kernel


/-! ## the round trip on the straight-line fragment (`export_roundtrip`) -/

/-- **On the fragment the exporter prints exactly `exportStraight`**: for every option tuple with `rename=False`,
`inline_const=False` (either value of `use_operators`, `skip_initializers`), every straight-line model of the
fragment (`straightModel`: no initializers, standard-domain plain nodes with printable attributes, operator sugar
only where it is symmetric), the string-level model tied to the real exporter returns the rendering of the
structured program the next theorem is about. -/
theorem export_prints_straight (o : Opts) (m : ModelP) (h : straightModel o m = true) (d : Nat) :
    exportModel o (d + 1) m = .ok (renderProg (exportStraight o m)) :=
  exportModel_straight o m h d

/-- **`export_roundtrip_partial`** — ONNX → Python → ONNX on the straight-line fragment: if the clean-up is
injective on the names of the graph, the graph the converter reads back from the exported program
(`progToGraph`: one node per statement, callee through the import table, operator sugar through the converter's
own `primop_map`, `None` ↦ absent input) computes the same outputs as the original **for every operator semantics
`S` (uninterpreted), every argument list**, and has the cleaned signature.  *Partial*: (1) the injectivity
hypothesis is forced (D14, `export_names_injective_refuted`); (2) `straightModel` excludes exactly the asymmetric
sugar cases (`sugar_table_asymmetry`, `sugar_reads_back_without_attributes`), inlined constants (C13-POW-NEG,
`pow_neg_literal_refuted`; C13-NANINF) and control flow (observed by the execution oracle, not proved). -/
theorem export_roundtrip_partial {V : Type} (S : Sem V) (o : Opts) (m : ModelP)
    (hfrag : straightModel o m = true)
    (hinj : ∀ a ∈ namesOfGraph 0 m.graph, ∀ b ∈ namesOfGraph 0 m.graph, cleanup a = cleanup b → a = b)
    (args : List V) :
    evalGraph S (progToGraph (exportStraight o m)) args = evalGraph S m.graph args
    ∧ (progToGraph (exportStraight o m)).inputs = m.graph.inputs.map cleanup
    ∧ (progToGraph (exportStraight o m)).outputs = m.graph.outputs.map cleanup := by
  have hsyn := progToGraph_exportStraight o m hfrag
  have h' := hfrag
  unfold straightModel at h'
  simp only [Bool.and_eq_true, List.all_eq_true, bne_iff_ne, ne_eq] at h'
  obtain ⟨⟨⟨⟨⟨⟨⟨⟨⟨⟨_, _⟩, _⟩, _⟩, _⟩, _⟩, hin⟩, hout⟩, _⟩, _⟩, _⟩ := h'
  rw [hsyn]
  refine ⟨?_, rfl, rfl⟩
  exact evalGraph_ren S cleanup m.graph ⟨hinj, fun a _ ha => cleanup_ne_empty a ha⟩ hin hout args

/-- non-vacuity: a model of the fragment with names that need cleaning, sugar on, and injective clean-up -/
example :
    straightModel ⟨false, true, false, true⟩
      ⟨"g", none, [("", 18)],
       .mk ["x.1", "5"] ["y:0"] [] 0
        [.mk "Relu" "" "" ["x.1"] ["t.0"] [], .mk "Add" "" "" ["t.0", "5"] ["u"] [],
         .mk "Clip" "" "" ["u", "", "5"] ["y:0"] [("dummy", .plain)]]⟩ = true := by decide

/-- **Which table entries are asymmetric**: of the exporter's operator table exactly the (dead) key `"Lesser"` is
not mapped back to itself by the converter's `primop_map` (`<` reads back as `Less`); every other entry is
symmetric at the level of operator names. -/
theorem sugar_table_asymmetry :
    ∀ p ∈ opsTable, (convTable.lookup p.2 = some p.1 ↔ p.1 ≠ "Lesser") := by decide

/-- **Sugar never carries attributes back**: whatever the node had, the node read from `out = a sym b` has none —
the second asymmetry (a sugared operator whose attributes matter, e.g. `Mod`/`fmod` if `%` were added to the
table, silently loses them); `straightModel` therefore requires sugared nodes to have no attributes. -/
theorem sugar_reads_back_without_attributes (imports : List (String × String)) (out sym a b : String) :
    (stmtToNode imports (.binop out sym a b)).attrs = [] ∧
    (stmtToNode imports (.binop out sym a b)).ins.length = 2 := ⟨rfl, rfl⟩

/-- … and this matters: with an attribute-sensitive semantics (`S.op` returns the number of attributes) a sugared
`Add` carrying an attribute reads back as a different computation — the full statement without the symmetry
hypothesis is false. -/
theorem sugar_with_attributes_refuted :
    let S : Sem Nat := ⟨fun _ _ attrs _ => some [attrs.length]⟩
    let o : Opts := ⟨false, true, false, false⟩
    let m : ModelP := ⟨"g", none, [("", 18)],
      .mk ["x"] ["y"] [] 0 [.mk "Add" "" "" ["x", "x"] ["y"] [("fmod", .plain)]]⟩
    evalGraph S (progToGraph (exportStraight o m)) [7] ≠ evalGraph S m.graph [7] := by
  decide

/-- **C13-POW-NEG refuted statement**: a negative scalar literal printed in front of `**` is read by Python as
`-(3 ** x)`; with `x = 2` the intended `Pow(-3, x)` is 9, the text's value is −9.  `**` is the only symbol of the
table for which the two readings differ (`pow_neg_only_power`). -/
theorem pow_neg_literal_refuted :
    evalPy (fun _ => 2) (pyRead (.lit true 3) "**" (.name "x")) = -9 ∧
    evalPy (fun _ => 2) (intended (.lit true 3) "**" (.name "x")) = 9 := by decide

theorem pow_neg_only_power (a b : Operand) (sym : String) (h : sym ≠ "**") : pyRead a sym b = intended a sym b := by
  unfold pyRead intended
  cases a with
  | name s => rfl
  | lit neg mag => cases neg <;> simp [h]

end OV.Props.C13
